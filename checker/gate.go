package main

// E1 — must-check / fail-closed ("gate") analysis on SSA, interprocedural by
// composition of per-function summaries. See DESIGN.md section 1.3.

import (
	"go/constant"
	"fmt"
	"go/token"
	"go/types"
	"sort"
	"strings"

	"golang.org/x/tools/go/ssa"
)

// ---------- soft cells ------------------------------------------------------

// A cell is an error-typed storage location whose nil-ness decides whether an
// exit is a success: a field of type error of some object (outcome.Error,
// result.Error) or a local error variable that lives in memory (named result
// with a deferred closure).
type cellKey struct {
	base  ssa.Value
	field int // -1: the Alloc itself
}

type stKey struct {
	t     string // named struct type
	field int
}

// FnInfo caches per-function facts.
type FnInfo struct {
	W        *World
	Fn       *ssa.Function
	cells    []cellKey
	cellOf   map[cellKey]int
	volatile map[int]bool // cell may be written by a closure: never trusted
	nnMemo   map[nnKey]int
	phiRet   map[*ssa.BasicBlock]bool // return blocks whose operands include a phi of the same block
	phiIdx   map[*ssa.Phi]int         // tracked nil-able phis
	loadIdx  map[string]int           // tracked immutable field paths that are nil-tested repeatedly
	// ignoreTail: exits that forward the result of one of these calls are not
	// counted as success exits by successWitness (the callee discharges the
	// obligation under analysis).
	ignoreTail map[*ssa.Call]bool
	mod        map[stKey]bool // struct fields (of error type) this function may store to, transitively
	modDone    bool
}

type nnKey struct {
	v ssa.Value
	b *ssa.BasicBlock
}

func (w *World) Info(fn *ssa.Function) *FnInfo {
	if fi, ok := w.fnInfo[fn]; ok {
		return fi
	}
	fi := &FnInfo{W: w, Fn: fn, cellOf: map[cellKey]int{}, volatile: map[int]bool{}, nnMemo: map[nnKey]int{}, phiRet: map[*ssa.BasicBlock]bool{}}
	w.fnInfo[fn] = fi
	for _, b := range fn.Blocks {
		for _, in := range b.Instrs {
			switch x := in.(type) {
			case *ssa.FieldAddr:
				if f := fieldOf(x.X.Type(), x.Field); f != nil && isErrorType(f.Type()) {
					fi.addCell(cellKey{canonPtr(x.X), x.Field})
				}
			case *ssa.Alloc:
				if pt, ok := x.Type().(*types.Pointer); ok && isErrorType(pt.Elem()) {
					ci := fi.addCell(cellKey{x, -1})
					if ci >= 0 && allocWrittenByClosure(x) {
						fi.volatile[ci] = true
					}
				}
			case *ssa.Return:
				for _, r := range x.Results {
					if p, ok := r.(*ssa.Phi); ok && p.Block() == b {
						fi.phiRet[b] = true
					}
				}
			}
		}
	}
	return fi
}

func (fi *FnInfo) addCell(k cellKey) int {
	if i, ok := fi.cellOf[k]; ok {
		return i
	}
	if len(fi.cells) >= 30 {
		return -1
	}
	fi.cells = append(fi.cells, k)
	fi.cellOf[k] = len(fi.cells) - 1
	return len(fi.cells) - 1
}

// canonPtr: a pointer read back from a local variable that is assigned exactly once (a variable captured by a closure that
// only reads it, a result spilled by a defer) is the pointer that was stored: all its loads name the same object.
func canonPtr(v ssa.Value) ssa.Value {
	for i := 0; i < 4; i++ {
		ld, ok := v.(*ssa.UnOp)
		if !ok || ld.Op != token.MUL {
			return v
		}
		al, ok := ld.X.(*ssa.Alloc)
		if !ok {
			return v
		}
		sv := singleStore(al)
		if sv == nil {
			return v
		}
		v = sv
	}
	return v
}

// allocWrittenByClosure: the Alloc is captured by a closure that stores to it.
func allocWrittenByClosure(a *ssa.Alloc) bool {
	refs := a.Referrers()
	if refs == nil {
		return false
	}
	for _, r := range *refs {
		mc, ok := r.(*ssa.MakeClosure)
		if !ok {
			continue
		}
		fn := mc.Fn.(*ssa.Function)
		for i, bnd := range mc.Bindings {
			if bnd != a || i >= len(fn.FreeVars) {
				continue
			}
			fv := fn.FreeVars[i]
			if fvr := fv.Referrers(); fvr != nil {
				for _, u := range *fvr {
					if st, ok := u.(*ssa.Store); ok && st.Addr == fv {
						return true
					}
					if _, ok := u.(*ssa.MakeClosure); ok {
						return true // nested capture: be conservative
					}
				}
			}
		}
	}
	return false
}

func (fi *FnInfo) cellOfAddr(addr ssa.Value) int {
	switch x := addr.(type) {
	case *ssa.FieldAddr:
		if i, ok := fi.cellOf[cellKey{canonPtr(x.X), x.Field}]; ok {
			return i
		}
	case *ssa.Alloc:
		if i, ok := fi.cellOf[cellKey{x, -1}]; ok {
			return i
		}
	}
	return -1
}

// cellOfLoad: v is a load of a cell.
func (fi *FnInfo) cellOfLoad(v ssa.Value) int {
	if u, ok := v.(*ssa.UnOp); ok && u.Op == token.MUL {
		return fi.cellOfAddr(u.X)
	}
	return -1
}

// modSet computes the error-typed struct fields fn may store to (transitively
// through static module callees and closures).
func (w *World) modSet(fn *ssa.Function, seen map[*ssa.Function]bool) map[stKey]bool {
	fi := w.Info(fn)
	if fi.modDone {
		return fi.mod
	}
	if seen[fn] {
		return nil
	}
	seen[fn] = true
	m := map[stKey]bool{}
	for _, b := range fn.Blocks {
		for _, in := range b.Instrs {
			switch x := in.(type) {
			case *ssa.Store:
				if fa, ok := x.Addr.(*ssa.FieldAddr); ok {
					if f := fieldOf(fa.X.Type(), fa.Field); f != nil && isErrorType(f.Type()) {
						m[stKey{namedOf(fa.X.Type()), fa.Field}] = true
					}
				}
			case ssa.CallInstruction:
				if g := staticCallee(x); g != nil && g.Blocks != nil && w.IsProductFn(g) {
					for k := range w.modSet(g, seen) {
						m[k] = true
					}
				}
			case *ssa.MakeClosure:
				if g, ok := x.Fn.(*ssa.Function); ok {
					for k := range w.modSet(g, seen) {
						m[k] = true
					}
				}
			}
		}
	}
	fi.mod = m
	fi.modDone = true
	return m
}

// ---------- non-nil analysis ------------------------------------------------

// nonNil reports whether v is provably non-nil when control is in block b.
func (fi *FnInfo) nonNil(v ssa.Value, b *ssa.BasicBlock) bool {
	k := nnKey{v, b}
	if r, ok := fi.nnMemo[k]; ok {
		return r == 1 // in-progress (0) counts as false
	}
	fi.nnMemo[k] = 0
	r := fi.nonNil1(v, b)
	if r {
		fi.nnMemo[k] = 1
	} else {
		fi.nnMemo[k] = 2
	}
	return r
}

func (fi *FnInfo) nonNil1(v ssa.Value, b *ssa.BasicBlock) bool {
	switch x := v.(type) {
	case *ssa.MakeInterface, *ssa.Alloc, *ssa.MakeMap, *ssa.MakeSlice, *ssa.MakeClosure, *ssa.Function, *ssa.FieldAddr, *ssa.IndexAddr:
		return true
	case *ssa.Const:
		return false
	case *ssa.ChangeInterface:
		return fi.nonNil(x.X, b)
	case *ssa.ChangeType:
		return fi.nonNil(x.X, b)
	case *ssa.Call:
		if g := staticCallee(x); g != nil {
			switch fnName(g) {
			case "errors.New", "fmt.Errorf":
				return true
			}
			if g.Blocks != nil && fi.W.IsProductFn(g) && isErrorType(x.Type()) {
				if s := fi.W.Summarize(g, Mode{Kind: mErr}); s != nil && s.Complete && len(s.Exits) == 0 {
					return true // every exit of g returns a non-nil error
				}
			}
		}
	case *ssa.Phi:
		if len(x.Edges) == 0 {
			return false
		}
		for i, e := range x.Edges {
			if e == v {
				continue
			}
			if !fi.nonNil(e, x.Block().Preds[i]) {
				return false
			}
		}
		return true
	case *ssa.UnOp:
		if x.Op == token.MUL {
			if g, ok := x.X.(*ssa.Global); ok && fi.W.globalNonNil(g) {
				return true
			}
		}
	}
	// refinement by a dominating branch on the same value
	if b == nil {
		return false
	}
	for d := b; d != nil; d = d.Idom() {
		id := d.Idom()
		if id == nil {
			break
		}
		iff, ok := blockTerm(id).(*ssa.If)
		if !ok {
			continue
		}
		for si, s := range id.Succs {
			if s != d || len(d.Preds) != 1 {
				continue
			}
			if condImpliesNonNil(iff.Cond, si == 0, v) {
				return true
			}
		}
	}
	return false
}

// condImpliesNonNil: cond evaluating to `truth` implies v != nil.
func condImpliesNonNil(cond ssa.Value, truth bool, v ssa.Value) bool {
	switch x := cond.(type) {
	case *ssa.UnOp:
		if x.Op == token.NOT {
			return condImpliesNonNil(x.X, !truth, v)
		}
	case *ssa.BinOp:
		var o ssa.Value
		if isNilConst(x.Y) {
			o = x.X
		} else if isNilConst(x.X) {
			o = x.Y
		} else {
			return false
		}
		if !sameValue(o, v) {
			return false
		}
		return (x.Op == token.NEQ && truth) || (x.Op == token.EQL && !truth)
	}
	return false
}

// sameValue: identical SSA value, or two loads of the same field of the same
// base object (no store tracking: used only for refinement of immutable
// results).
func sameValue(a, b ssa.Value) bool {
	if a == b {
		return true
	}
	ua, ok1 := a.(*ssa.UnOp)
	ub, ok2 := b.(*ssa.UnOp)
	if ok1 && ok2 && ua.Op == token.MUL && ub.Op == token.MUL {
		fa, ok1 := ua.X.(*ssa.FieldAddr)
		fb, ok2 := ub.X.(*ssa.FieldAddr)
		if ok1 && ok2 && fa.Field == fb.Field && fa.X == fb.X {
			return true
		}
	}
	return false
}

// globalNonNil: a package-level variable that is initialised exactly once (in
// the package initialiser) with a non-nil value and never reassigned.
func (w *World) globalNonNil(g *ssa.Global) bool {
	if g.Pkg == nil {
		return false
	}
	stores := 0
	ok := false
	for _, mem := range g.Pkg.Members {
		fn, isFn := mem.(*ssa.Function)
		if !isFn {
			continue
		}
		fns := append([]*ssa.Function{fn}, closuresOf(fn)...)
		for _, f := range fns {
			for _, b := range f.Blocks {
				for _, in := range b.Instrs {
					if st, isSt := in.(*ssa.Store); isSt && st.Addr == g {
						stores++
						if f.Name() == "init" {
							ok = w.Info(f).nonNil(st.Val, b)
						}
					}
				}
			}
		}
	}
	// methods of the package may also store to it
	for _, f := range w.Funcs {
		if fnPkg(f) == g.Pkg.Pkg && f.Signature.Recv() != nil {
			for _, b := range f.Blocks {
				for _, in := range b.Instrs {
					if st, isSt := in.(*ssa.Store); isSt && st.Addr == g {
						stores++
					}
				}
			}
		}
	}
	return stores == 1 && ok
}

// ---------- modes and exits -------------------------------------------------

const (
	mErr  = iota // last result is an error: success = nil
	mBool        // single bool result: success = Want
	mObj         // result K is an object with an error field: success = field nil
)

type Mode struct {
	Kind int
	K    int
	Want bool
}

func (m Mode) String() string {
	switch m.Kind {
	case mErr:
		return "err"
	case mBool:
		return fmt.Sprintf("bool=%v", m.Want)
	default:
		return fmt.Sprintf("obj#%d", m.K)
	}
}

type sumKey struct {
	fn   *ssa.Function
	mode Mode
}

const (
	clFail = iota
	clSuccess
	clMaybe
)

// state of the product graph: block x cell mask x incoming edge (only for
// return blocks whose operand is a phi of that block).
type state struct {
	b int
	m uint64 // bits 0..29: error cells known non-nil; bits 32..63: tracked phis (2 bits each: known nil / known non-nil)
	p int
}

type edgeKey struct {
	b, succ int
}

// transfer computes the mask at the end of block b for each successor.
func (fi *FnInfo) transfer(b *ssa.BasicBlock, m uint64) []uint64 {
	m = fi.through(b, m)
	outs := make([]uint64, len(b.Succs))
	for i := range outs {
		outs[i] = m
	}
	if iff, ok := blockTerm(b).(*ssa.If); ok && len(outs) == 2 {
		fi.refine(iff.Cond, true, &outs[0])
		fi.refine(iff.Cond, false, &outs[1])
		// prune edges contradicted by what is known about a tracked phi
		for j := 0; j < 2; j++ {
			if fi.infeasible(iff.Cond, j == 0, m) {
				outs[j] = infeasibleMask
			}
		}
		// correlated nil checks on the same immutable field path
		fi.trackPhis()
		if d, ok := nilTestedPath(iff.Cond); ok {
			if idx, tracked := fi.loadIdx[d]; tracked {
				sh := uint(48 + 2*idx)
				k := (m >> sh) & 3
				for j := 0; j < 2; j++ {
					if outs[j] == infeasibleMask {
						continue
					}
					isNil := condSaysNil(iff.Cond, j == 0)
					if (k == 1 && !isNil) || (k == 2 && isNil) {
						outs[j] = infeasibleMask
						continue
					}
					outs[j] &^= 3 << sh
					if isNil {
						outs[j] |= 1 << sh
					} else {
						outs[j] |= 2 << sh
					}
				}
			}
		}
	}
	for j, t := range b.Succs {
		if outs[j] != infeasibleMask {
			outs[j] = fi.enter(t, b, outs[j])
		}
	}
	return outs
}

const infeasibleMask = ^uint64(0)

// trackedPhis: pointer/interface phis with at least one constant-nil edge.
func (fi *FnInfo) trackPhis() {
	if fi.phiIdx != nil {
		return
	}
	fi.phiIdx = map[*ssa.Phi]int{}
	fi.loadIdx = map[string]int{}
	fi.trackLoads()
	for _, b := range fi.Fn.Blocks {
		for _, in := range b.Instrs {
			p, ok := in.(*ssa.Phi)
			if !ok {
				break
			}
			switch p.Type().Underlying().(type) {
			case *types.Pointer, *types.Interface, *types.Map, *types.Slice, *types.Signature:
			default:
				continue
			}
			hasNil := false
			for _, e := range p.Edges {
				if isNilConst(e) {
					hasNil = true
				}
			}
			if hasNil && len(fi.phiIdx) < 8 {
				fi.phiIdx[p] = len(fi.phiIdx)
			}
		}
	}
	// boolean phis with a constant edge: the value of a short-circuit expression kept in a variable
	// (`ok := a && b && (c || d); if !ok {…}`) — which constant flowed in decides the later branch
	for _, b := range fi.Fn.Blocks {
		for _, in := range b.Instrs {
			p, ok := in.(*ssa.Phi)
			if !ok {
				break
			}
			if !isBoolType(p.Type()) {
				continue
			}
			hasK := false
			for _, e := range p.Edges {
				if _, ok := boolConst(e); ok {
					hasK = true
				}
			}
			if hasK && len(fi.phiIdx) < 8 {
				fi.phiIdx[p] = len(fi.phiIdx)
			}
		}
	}
	// a phi fed by a tracked phi carries the same knowledge on (a failure variable accumulated over several steps:
	// `var failure error; if a {failure = e1}; if b {failure = e2}; return failure`)
	for changed := true; changed; {
		changed = false
		for _, b := range fi.Fn.Blocks {
			for _, in := range b.Instrs {
				p, ok := in.(*ssa.Phi)
				if !ok {
					break
				}
				if _, done := fi.phiIdx[p]; done || len(fi.phiIdx) >= 8 {
					continue
				}
				switch p.Type().Underlying().(type) {
				case *types.Pointer, *types.Interface, *types.Map, *types.Slice, *types.Signature:
				default:
					continue
				}
				for _, e := range p.Edges {
					if q, ok := e.(*ssa.Phi); ok {
						if _, tr := fi.phiIdx[q]; tr {
							fi.phiIdx[p] = len(fi.phiIdx)
							changed = true
							break
						}
					}
				}
			}
		}
	}
}

// trackLoads: immutable field paths of parameters that are nil-tested more
// than once (correlated nil checks). A path is tracked only if the function
// never stores to a field of that name (so two loads yield the same value).
func (fi *FnInfo) trackLoads() {
	count := map[string]int{}
	stored := map[string]bool{}
	for _, b := range fi.Fn.Blocks {
		for _, in := range b.Instrs {
			if st, ok := in.(*ssa.Store); ok {
				if fa, ok := st.Addr.(*ssa.FieldAddr); ok {
					stored[fieldName(fa.X.Type(), fa.Field)] = true
				}
			}
		}
		iff, ok := blockTerm(b).(*ssa.If)
		if !ok {
			continue
		}
		if d, ok := nilTestedPath(iff.Cond); ok {
			count[d]++
		}
	}
	var ds []string
	for d, n := range count {
		if n >= 2 {
			ds = append(ds, d)
		}
	}
	sort.Strings(ds)
	for _, d := range ds {
		last := d[strings.LastIndex(d, ".")+1:]
		if stored[last] || len(fi.loadIdx) >= 8 {
			continue
		}
		fi.loadIdx[d] = len(fi.loadIdx)
	}
}

// nilTestedPath: cond is (possibly negated) `<param field path> ==/!= nil`.
func nilTestedPath(cond ssa.Value) (string, bool) {
	for {
		u, ok := cond.(*ssa.UnOp)
		if !ok || u.Op != token.NOT {
			break
		}
		cond = u.X
	}
	bo, ok := cond.(*ssa.BinOp)
	if !ok || (bo.Op != token.EQL && bo.Op != token.NEQ) {
		return "", false
	}
	var o ssa.Value
	if isNilConst(bo.Y) {
		o = bo.X
	} else if isNilConst(bo.X) {
		o = bo.Y
	} else {
		return "", false
	}
	u, ok := o.(*ssa.UnOp)
	if !ok || u.Op != token.MUL {
		return "", false
	}
	if _, ok := u.X.(*ssa.FieldAddr); !ok {
		return "", false
	}
	d := desc(o)
	if !strings.HasPrefix(d, "param:") || strings.ContainsAny(d, "([") {
		return "", false
	}
	return d, true
}

func isBoolType(t types.Type) bool {
	b, ok := t.Underlying().(*types.Basic)
	return ok && b.Kind() == types.Bool
}

func boolConst(v ssa.Value) (bool, bool) {
	k, ok := v.(*ssa.Const)
	if !ok || k.Value == nil || k.Value.Kind() != constant.Bool {
		return false, false
	}
	return constant.BoolVal(k.Value), true
}

// enter updates the knowledge about the tracked phis of block t when it is
// entered from block from.
func (fi *FnInfo) enter(t, from *ssa.BasicBlock, m uint64) uint64 {
	fi.trackPhis()
	if len(fi.phiIdx) == 0 {
		return m
	}
	pi := -1
	for i, p := range t.Preds {
		if p == from {
			pi = i
			break
		}
	}
	for _, in := range t.Instrs {
		p, ok := in.(*ssa.Phi)
		if !ok {
			break
		}
		idx, tracked := fi.phiIdx[p]
		if !tracked {
			continue
		}
		sh := uint(32 + 2*idx)
		m &^= 3 << sh
		if pi < 0 || pi >= len(p.Edges) {
			continue
		}
		e := p.Edges[pi]
		if isBoolType(p.Type()) {
			// 1: known false, 2: known true
			if k, ok := boolConst(e); ok {
				if k {
					m |= 2 << sh
				} else {
					m |= 1 << sh
				}
			} else if q, ok := e.(*ssa.Phi); ok {
				if qi, ok := fi.phiIdx[q]; ok {
					m |= ((m >> uint(32+2*qi)) & 3) << sh
				}
			}
			continue
		}
		if isNilConst(e) {
			m |= 1 << sh
		} else if fi.nonNil(e, from) {
			m |= 2 << sh
		} else if q, ok := e.(*ssa.Phi); ok {
			if qi, ok := fi.phiIdx[q]; ok {
				m |= ((m >> uint(32+2*qi)) & 3) << sh
			}
		}
	}
	return m
}

// condSaysNil: cond evaluating to truth means the tested value is nil.
func condSaysNil(cond ssa.Value, truth bool) bool {
	for {
		u, ok := cond.(*ssa.UnOp)
		if !ok || u.Op != token.NOT {
			break
		}
		truth = !truth
		cond = u.X
	}
	bo := cond.(*ssa.BinOp)
	return (bo.Op == token.EQL) == truth
}

// infeasible: cond == truth contradicts what the mask knows about a tracked phi.
func (fi *FnInfo) infeasible(cond ssa.Value, truth bool, m uint64) bool {
	fi.trackPhis()
	switch x := cond.(type) {
	case *ssa.UnOp:
		if x.Op == token.NOT {
			return fi.infeasible(x.X, !truth, m)
		}
	case *ssa.Phi:
		if idx, ok := fi.phiIdx[x]; ok && isBoolType(x.Type()) {
			k := (m >> uint(32+2*idx)) & 3
			return (k == 1 && truth) || (k == 2 && !truth)
		}
	case *ssa.BinOp:
		var o ssa.Value
		if isNilConst(x.Y) {
			o = x.X
		} else if isNilConst(x.X) {
			o = x.Y
		} else {
			return false
		}
		p, ok := o.(*ssa.Phi)
		if !ok {
			return false
		}
		idx, ok := fi.phiIdx[p]
		if !ok {
			return false
		}
		k := (m >> uint(32+2*idx)) & 3
		isNil := (x.Op == token.EQL && truth) || (x.Op == token.NEQ && !truth)
		if x.Op != token.EQL && x.Op != token.NEQ {
			return false
		}
		if k == 1 && !isNil {
			return true
		}
		if k == 2 && isNil {
			return true
		}
	}
	return false
}

// through computes the mask after the instructions of block b.
func (fi *FnInfo) through(b *ssa.BasicBlock, m uint64) uint64 {
	for _, in := range b.Instrs {
		switch x := in.(type) {
		case *ssa.Store:
			if ci := fi.cellOfAddr(x.Addr); ci >= 0 {
				if !fi.volatile[ci] && fi.nonNil(x.Val, b) {
					m |= 1 << uint(ci)
				} else {
					m &^= 1 << uint(ci)
				}
			}
		case ssa.CallInstruction:
			m = fi.clobber(x, m)
		}
	}
	return m
}

// clobber clears the bits of cells a call may overwrite.
func (fi *FnInfo) clobber(c ssa.CallInstruction, m uint64) uint64 {
	if m&0xffffffff == 0 {
		return m
	}
	g := staticCallee(c)
	if g != nil && (g.Blocks == nil || !fi.W.IsProductFn(g)) {
		return m // external function: cannot name the module's fields (reflection aside)
	}
	var mod map[stKey]bool
	if g != nil {
		mod = fi.W.modSet(g, map[*ssa.Function]bool{})
		if len(mod) == 0 {
			return m
		}
	}
	for ci, k := range fi.cells {
		if m&(1<<uint(ci)) == 0 || k.field < 0 {
			continue
		}
		if g == nil {
			// dynamic / interface call: clobbers only objects handed to it
			passed := false
			for _, a := range callArgs(c) {
				if unwrap(a) == k.base {
					passed = true
				}
			}
			if passed {
				m &^= 1 << uint(ci)
			}
			continue
		}
		if mod[stKey{namedOf(k.base.Type()), k.field}] {
			kept := false
			for ai, a := range c.Common().Args {
				if unwrap(a) == k.base && !c.Common().IsInvoke() && fi.W.keepsFailure(g, ai, k.field, map[*ssa.Function]bool{}) {
					kept = true
				}
			}
			if !kept {
				m &^= 1 << uint(ci)
			}
		}
	}
	return m
}

// refine sets bits implied by cond == truth.
func (fi *FnInfo) refine(cond ssa.Value, truth bool, m *uint64) {
	switch x := cond.(type) {
	case *ssa.UnOp:
		if x.Op == token.NOT {
			fi.refine(x.X, !truth, m)
		}
	case *ssa.BinOp:
		var o ssa.Value
		if isNilConst(x.Y) {
			o = x.X
		} else if isNilConst(x.X) {
			o = x.Y
		} else {
			return
		}
		nonnil := (x.Op == token.NEQ && truth) || (x.Op == token.EQL && !truth)
		if !nonnil {
			return
		}
		if ci := fi.cellOfLoad(o); ci >= 0 && !fi.volatile[ci] {
			*m |= 1 << uint(ci)
		}
	case *ssa.Call:
		// module predicate p(obj): true implies obj.F != nil
		if !truth {
			return
		}
		g := staticCallee(x)
		if g == nil || g.Blocks == nil || !fi.W.IsProductFn(g) || len(x.Call.Args) != 1 {
			return
		}
		for _, f := range fi.W.predicateImpliesNonNil(g) {
			if ci, ok := fi.cellOf[cellKey{canonPtr(x.Call.Args[0]), f}]; ok && !fi.volatile[ci] {
				*m |= 1 << uint(ci)
			}
		}
	}
}

// predicateImpliesNonNil returns the error fields F of the single pointer
// parameter p such that g(p) == true implies p.F != nil.
func (w *World) predicateImpliesNonNil(g *ssa.Function) []int {
	sig := g.Signature
	if sig.Params().Len() != 1 || sig.Results().Len() != 1 {
		return nil
	}
	if b, ok := sig.Results().At(0).Type().Underlying().(*types.Basic); !ok || b.Kind() != types.Bool {
		return nil
	}
	s := w.Summarize(g, Mode{Kind: mBool, Want: true})
	if s == nil || !s.Complete {
		return nil
	}
	var out []int
	p := g.Params[0]
	for lbl := range s.Checked {
		// NE(param:<p>.<Field>,nil)
		pre := "NE(param:" + p.Name() + "."
		if strings.HasPrefix(lbl, pre) && strings.HasSuffix(lbl, ",nil)") {
			fname := strings.TrimSuffix(strings.TrimPrefix(lbl, pre), ",nil)")
			t := p.Type().Underlying()
			if pt, ok := t.(*types.Pointer); ok {
				if st, ok := pt.Elem().Underlying().(*types.Struct); ok {
					for i := 0; i < st.NumFields(); i++ {
						if st.Field(i).Name() == fname && isErrorType(st.Field(i).Type()) {
							out = append(out, i)
						}
					}
				}
			}
		}
	}
	return out
}

// ExitSum describes one success-capable exit of a function.
type ExitSum struct {
	Ret     *ssa.Return
	Pred    int
	Class   int
	Checked map[string]string // label -> site
	Tail    string            // callee composed as a tail call, if any
	// the verdict is the error cell of an object the function was handed: success also requires that the
	// cell was not already set when the function was entered (decided at each call site)
	InheritParam int // index of that parameter, -1 if none
	InheritField int
}

// Summary of a function under a mode.
type Summary struct {
	Fn       *ssa.Function
	Mode     Mode
	Exits    []*ExitSum        // success-capable exits
	Checked  map[string]string // label -> site; facts that hold on every success-capable exit
	Complete bool              // false if cut short by recursion
	States   int
}

// operand returns the value that decides success for a Return under mode.
func modeOperand(r *ssa.Return, mode Mode) ssa.Value {
	switch mode.Kind {
	case mErr:
		if len(r.Results) == 0 {
			return nil
		}
		v := r.Results[len(r.Results)-1]
		if !isErrorType(v.Type()) {
			return nil
		}
		return v
	case mBool:
		if len(r.Results) != 1 {
			return nil
		}
		return r.Results[0]
	default:
		if mode.K >= len(r.Results) {
			return nil
		}
		return r.Results[mode.K]
	}
}

// errFieldOf returns the index of the (single) field of type error of the
// struct pointed to by t, or -1.
func errFieldOf(t types.Type) int {
	pt, ok := t.Underlying().(*types.Pointer)
	if !ok {
		return -1
	}
	st, ok := pt.Elem().Underlying().(*types.Struct)
	if !ok {
		return -1
	}
	idx := -1
	for i := 0; i < st.NumFields(); i++ {
		if isErrorType(st.Field(i).Type()) {
			if idx >= 0 {
				return -1
			}
			idx = i
		}
	}
	return idx
}

// classify an exit in a state. Returns the class and, for Maybe exits that
// forward the result of a module call, that call and the mode to compose.
func (fi *FnInfo) classify(r *ssa.Return, st state, mode Mode) (int, *ssa.Call, Mode, string) {
	v := modeOperand(r, mode)
	if v == nil {
		return clMaybe, nil, Mode{}, ""
	}
	b := r.Block()
	atBlock := b
	if p, ok := v.(*ssa.Phi); ok && p.Block() == b && st.p >= 0 && st.p < len(p.Edges) {
		v = p.Edges[st.p]
		atBlock = b.Preds[st.p]
	}
	switch mode.Kind {
	case mErr:
		if isNilConst(v) {
			return clSuccess, nil, Mode{}, ""
		}
		if fi.nonNil(v, atBlock) {
			return clFail, nil, Mode{}, ""
		}
		if p, ok := v.(*ssa.Phi); ok {
			fi.trackPhis()
			if idx, tracked := fi.phiIdx[p]; tracked {
				switch (st.m >> uint(32+2*idx)) & 3 {
				case 1:
					return clSuccess, nil, Mode{}, ""
				case 2:
					return clFail, nil, Mode{}, ""
				}
			}
		}
		if ci := fi.cellOfLoad(v); ci >= 0 {
			if st.m&(1<<uint(ci)) != 0 {
				return clFail, nil, Mode{}, ""
			}
			if tail := fi.cellTailAt(ci, atBlock); tail != nil {
				return clMaybe, tail, Mode{Kind: mErr}, ""
			}
			return clSuccess, nil, Mode{}, ""
		}
		if c := callOf(v); c != nil {
			return clMaybe, c, Mode{Kind: mErr}, ""
		}
		return clMaybe, nil, Mode{}, ""
	case mBool:
		if c, ok := v.(*ssa.Const); ok {
			lbl := condLabel(c, mode.Want)
			if lbl == "TRUE" {
				return clSuccess, nil, Mode{}, ""
			}
			return clFail, nil, Mode{}, ""
		}
		neg := false
		vv := v
		for {
			u, ok := vv.(*ssa.UnOp)
			if !ok || u.Op != token.NOT {
				break
			}
			neg = !neg
			vv = u.X
		}
		if c, ok := vv.(*ssa.Call); ok {
			return clMaybe, c, Mode{Kind: mBool, Want: mode.Want != neg}, condLabel(v, mode.Want)
		}
		// a tracked boolean variable whose value on this path is known
		if p, ok := vv.(*ssa.Phi); ok {
			fi.trackPhis()
			if idx, tracked := fi.phiIdx[p]; tracked && isBoolType(p.Type()) {
				switch (st.m >> uint(32+2*idx)) & 3 {
				case 1: // false
					if (false != neg) == mode.Want {
						return clSuccess, nil, Mode{}, ""
					}
					return clFail, nil, Mode{}, ""
				case 2: // true
					if (true != neg) == mode.Want {
						return clSuccess, nil, Mode{}, ""
					}
					return clFail, nil, Mode{}, ""
				}
			}
		}
		return clMaybe, nil, Mode{}, condLabel(v, mode.Want)
	default:
		ef := errFieldOf(v.Type())
		if ef < 0 {
			return clMaybe, nil, Mode{}, ""
		}
		if ci, ok := fi.cellOf[cellKey{canonPtr(v), ef}]; ok {
			if st.m&(1<<uint(ci)) != 0 {
				return clFail, nil, Mode{}, ""
			}
			if tail := fi.cellTailAt(ci, atBlock); tail != nil {
				return clMaybe, tail, Mode{Kind: mErr}, ""
			}
			if _, isAlloc := v.(*ssa.Alloc); isAlloc {
				return clSuccess, nil, Mode{}, ""
			}
		}
		if _, isAlloc := v.(*ssa.Alloc); isAlloc {
			return clSuccess, nil, Mode{}, "" // fresh object, error field never stored
		}
		if c := callOf(v); c != nil {
			k := 0
			if e, ok := v.(*ssa.Extract); ok {
				k = e.Index
			}
			return clMaybe, c, Mode{Kind: mObj, K: k}, ""
		}
		return clMaybe, nil, Mode{}, ""
	}
}

// cellTail: if the cell has exactly one store in the function and the value
// stored is the error result of a call, return that call: the cell is nil iff
// the call succeeded.
func (fi *FnInfo) cellTail(ci int) *ssa.Call {
	var only *ssa.Store
	for _, b := range fi.Fn.Blocks {
		for _, in := range b.Instrs {
			if st, ok := in.(*ssa.Store); ok && fi.cellOfAddr(st.Addr) == ci {
				if only != nil {
					return nil
				}
				only = st
			}
		}
	}
	if only == nil {
		return nil
	}
	return callOf(only.Val)
}

// cellTailAt: the stores to the cell that reach the end of block b (no later store to the cell on the way).
// If exactly one store reaches on every path and it stores the error result of a call, that call is
// returned: at this exit the cell is nil iff the call succeeded. (With a single store in the function
// this is cellTail; with several, e.g. one object filled in on alternative branches, it is decided per exit.)
func (fi *FnInfo) cellTailAt(ci int, b *ssa.BasicBlock) *ssa.Call {
	if t := fi.cellTail(ci); t != nil {
		return t
	}
	lastStore := func(q *ssa.BasicBlock) *ssa.Store {
		var last *ssa.Store
		for _, in := range q.Instrs {
			if st, ok := in.(*ssa.Store); ok && fi.cellOfAddr(st.Addr) == ci {
				last = st
			}
		}
		return last
	}
	reaching := map[*ssa.Store]bool{}
	unset := false
	seen := map[*ssa.BasicBlock]bool{}
	var walk func(q *ssa.BasicBlock)
	walk = func(q *ssa.BasicBlock) {
		if seen[q] {
			return
		}
		seen[q] = true
		if st := lastStore(q); st != nil {
			reaching[st] = true
			return
		}
		if len(q.Preds) == 0 {
			unset = true
			return
		}
		for _, p := range q.Preds {
			walk(p)
		}
	}
	walk(b)
	if unset || len(reaching) != 1 {
		return nil
	}
	for st := range reaching {
		return callOf(st.Val)
	}
	return nil
}

// callOf: v is (an extracted result of) a call.
func callOf(v ssa.Value) *ssa.Call {
	switch x := v.(type) {
	case *ssa.Call:
		return x
	case *ssa.Extract:
		if c, ok := x.Tuple.(*ssa.Call); ok {
			return c
		}
	}
	return nil
}

// reach explores the product graph from the given start states, never taking
// a cut edge.
func (fi *FnInfo) reach(starts []state, cut map[edgeKey]bool) map[state]bool {
	seen := map[state]bool{}
	var stack []state
	push := func(s state) {
		if !seen[s] {
			seen[s] = true
			stack = append(stack, s)
		}
	}
	for _, s := range starts {
		push(s)
	}
	for len(stack) > 0 {
		s := stack[len(stack)-1]
		stack = stack[:len(stack)-1]
		b := fi.Fn.Blocks[s.b]
		outs := fi.transfer(b, s.m)
		for j, t := range b.Succs {
			if cut[edgeKey{s.b, j}] || outs[j] == infeasibleMask {
				continue
			}
			p := -1
			if fi.phiRet[t] {
				for pi, pb := range t.Preds {
					if pb == b {
						p = pi
						break
					}
				}
			}
			push(state{t.Index, outs[j], p})
		}
	}
	return seen
}

// composeCond returns the summary to compose when cond must evaluate to
// `truth` on the passing edge, if cond is decided by a module function.
func (fi *FnInfo) composeCond(cond ssa.Value, truth bool) *Summary {
	switch x := cond.(type) {
	case *ssa.UnOp:
		if x.Op == token.NOT {
			return fi.composeCond(x.X, !truth)
		}
	case *ssa.BinOp:
		var o ssa.Value
		if isNilConst(x.Y) {
			o = x.X
		} else if isNilConst(x.X) {
			o = x.Y
		} else {
			return nil
		}
		isNil := (x.Op == token.EQL && truth) || (x.Op == token.NEQ && !truth)
		if !isNil {
			return nil
		}
		if isErrorType(o.Type()) {
			if c := callOf(o); c != nil {
				return fi.W.summarizeCall(c, Mode{Kind: mErr})
			}
			// load of obj.Error with obj a call result
			if u, ok := o.(*ssa.UnOp); ok && u.Op == token.MUL {
				if fa, ok := u.X.(*ssa.FieldAddr); ok {
					if c := callOf(fa.X); c != nil {
						k := 0
						if e, ok := fa.X.(*ssa.Extract); ok {
							k = e.Index
						}
						return fi.W.summarizeCall(c, Mode{Kind: mObj, K: k})
					}
				}
			}
		}
	case *ssa.Call:
		if b, ok := x.Type().Underlying().(*types.Basic); ok && b.Kind() == types.Bool {
			return fi.W.summarizeCall(x, Mode{Kind: mBool, Want: truth})
		}
	}
	return nil
}

// summarizeCall returns the summary of the static module callee of c under
// mode, with its labels rewritten into the caller's frame: every
// "param:<name>" of the callee is replaced by the description of the
// corresponding argument at this call site.
func (w *World) summarizeCall(c *ssa.Call, mode Mode) *Summary {
	g := staticCallee(c)
	if g == nil || g.Blocks == nil || !w.IsProductFn(g) {
		return nil
	}
	s := w.Summarize(g, mode)
	if s == nil {
		return nil
	}
	args := c.Call.Args
	if len(args) != len(g.Params) {
		return s
	}
	names := make([]string, len(args))
	descs := make([]string, len(args))
	for i, p := range g.Params {
		names[i] = p.Name()
		descs[i] = desc(args[i])
	}
	out := &Summary{Fn: s.Fn, Mode: s.Mode, Exits: s.Exits, Complete: s.Complete, States: s.States, Checked: map[string]string{}}
	for l, site := range s.Checked {
		out.Checked[substParams(l, names, descs)] = site
	}
	return out
}

// exitLabelsOfCall returns, for each success-capable exit of the static module callee of c under mode, its facts
// rewritten into the caller's frame (for disjunctive obligations, which the intersection in summarizeCall loses).
func (w *World) exitLabelsOfCall(c *ssa.Call, mode Mode) []map[string]string {
	g := staticCallee(c)
	if g == nil || g.Blocks == nil || !w.IsProductFn(g) {
		return nil
	}
	s := w.Summarize(g, mode)
	if s == nil || !s.Complete {
		return nil
	}
	args := c.Call.Args
	if len(args) != len(g.Params) {
		return nil
	}
	names := make([]string, len(args))
	descs := make([]string, len(args))
	for i, p := range g.Params {
		names[i] = p.Name()
		descs[i] = desc(args[i])
	}
	var out []map[string]string
	for _, ex := range s.Exits {
		m := map[string]string{}
		for l, site := range ex.Checked {
			m[substParams(l, names, descs)] = site
		}
		out = append(out, m)
	}
	return out
}

// substParams replaces each "param:<name>" (whole identifier) in label.
func substParams(label string, names, descs []string) string {
	if !strings.Contains(label, "param:") {
		return label
	}
	var sb strings.Builder
	i := 0
	for i < len(label) {
		j := strings.Index(label[i:], "param:")
		if j < 0 {
			sb.WriteString(label[i:])
			break
		}
		sb.WriteString(label[i : i+j])
		k := i + j + len("param:")
		e := k
		for e < len(label) && (label[e] == '_' || label[e] >= '0' && label[e] <= '9' || label[e] >= 'a' && label[e] <= 'z' || label[e] >= 'A' && label[e] <= 'Z') {
			e++
		}
		name := label[k:e]
		repl := ""
		found := false
		for n := range names {
			if names[n] == name {
				repl = descs[n]
				found = true
				break
			}
		}
		if found {
			sb.WriteString(repl)
		} else {
			sb.WriteString("param?:" + name)
		}
		i = e
	}
	r := sb.String()
	r = trunc(r, 1500)
	return r
}

// Summarize computes the summary of fn under mode (memoised).
func (w *World) Summarize(fn *ssa.Function, mode Mode) *Summary {
	k := sumKey{fn, mode}
	if s, ok := w.sumMemo[k]; ok {
		return s
	}
	if w.sumBusy[k] {
		return &Summary{Fn: fn, Mode: mode, Checked: map[string]string{}, Complete: false}
	}
	w.sumBusy[k] = true
	defer delete(w.sumBusy, k)
	fi := w.Info(fn)
	s := fi.summarizeFrom(mode, []state{{0, 0, -1}}, nil)
	if s.Complete {
		w.sumMemo[k] = s
	}
	return s
}

// summarizeFrom computes which facts hold on every path from the start states
// to each success-capable exit.
func (fi *FnInfo) summarizeFrom(mode Mode, starts []state, baseCut map[edgeKey]bool) *Summary {
	w := fi.W
	s := &Summary{Fn: fi.Fn, Mode: mode, Checked: map[string]string{}, Complete: true}
	if len(fi.Fn.Blocks) == 0 {
		return s
	}
	base := fi.reach(starts, baseCut)
	s.States = len(base)
	type exitKey struct {
		r *ssa.Return
		p int
	}
	exits := map[exitKey]*ExitSum{}
	var order []exitKey
	tails := map[exitKey]*ssa.Call{}
	tailModes := map[exitKey]Mode{}
	opLabels := map[exitKey]string{}
	succStates := map[exitKey][]state{}
	for st := range base {
		r, ok := blockTerm(fi.Fn.Blocks[st.b]).(*ssa.Return)
		if !ok {
			continue
		}
		endMask := fi.through(fi.Fn.Blocks[st.b], st.m)
		cl, tail, tmode, oplbl := fi.classify(r, state{st.b, endMask, st.p}, mode)
		if cl == clFail {
			continue
		}
		if tail != nil && fi.tailBlockedByCell(tail, tmode, endMask) {
			continue // the callee reports the error cell of an object that already carries a failure on this path
		}
		ek := exitKey{r, st.p}
		if _, ok := exits[ek]; !ok {
			ip, ifld := fi.inheritedCell(r, st.p, mode)
			exits[ek] = &ExitSum{Ret: r, Pred: st.p, Class: cl, Checked: map[string]string{}, InheritParam: ip, InheritField: ifld}
			order = append(order, ek)
		}
		if tail != nil {
			tails[ek] = tail
			tailModes[ek] = tmode
		}
		if oplbl != "" {
			opLabels[ek] = oplbl
		}
		succStates[ek] = append(succStates[ek], st)
	}
	sort.Slice(order, func(i, j int) bool {
		a, b := order[i], order[j]
		if a.r.Block().Index != b.r.Block().Index {
			return a.r.Block().Index < b.r.Block().Index
		}
		return a.p < b.p
	})
	// candidate gates: every If edge
	for _, b := range fi.Fn.Blocks {
		iff, ok := blockTerm(b).(*ssa.If)
		if !ok || len(b.Succs) != 2 {
			continue
		}
		reachable := false
		for st := range base {
			if st.b == b.Index {
				reachable = true
				break
			}
		}
		if !reachable {
			continue
		}
		for j := 0; j < 2; j++ {
			// cut edge j: if an exit becomes unreachable, every path to it uses
			// edge j, i.e. edge j is must-pass (succ 0 = cond true)
			if baseCut[edgeKey{b.Index, j}] {
				continue
			}
			cut := map[edgeKey]bool{{b.Index, j}: true}
			for k := range baseCut {
				cut[k] = true
			}
			r := fi.reach(starts, cut)
			truth := j == 0
			var lbl string
			var comp *Summary
			computed := false
			for _, ek := range order {
				still := false
				for _, st := range succStates[ek] {
					if r[st] {
						still = true
						break
					}
				}
				if still {
					continue
				}
				if !computed {
					lbl = condLabel(iff.Cond, truth)
					comp = fi.composeCond(iff.Cond, truth)
					computed = true
				}
				site := w.InstrPos(iff)
				if site == "-" {
					site = w.FnPos(fi.Fn)
				}
				ex := exits[ek]
				ex.Checked[lbl] = site
				if tw, ok := labelTwin(lbl); ok {
					ex.Checked[tw] = site
				}
				if comp != nil {
					if !comp.Complete {
						s.Complete = false
					}
					for l, st := range comp.Checked {
						if _, ok := ex.Checked[l]; !ok {
							ex.Checked[l] = st
						}
					}
				}
			}
		}
	}
	for _, ek := range order {
		ex := exits[ek]
		if l := opLabels[ek]; l != "" {
			ex.Checked[l] = w.InstrPos(ek.r)
		}
		if t := tails[ek]; t != nil {
			ex.Tail = calleeName(t)
			if ts := w.summarizeCall(t, tailModes[ek]); ts != nil {
				if !ts.Complete {
					s.Complete = false
				}
				for l, st := range ts.Checked {
					if _, ok := ex.Checked[l]; !ok {
						ex.Checked[l] = st
					}
				}
			}
			// the tail call itself succeeded
			switch tailModes[ek].Kind {
			case mErr:
				ex.Checked["EQ("+descTailErr(t)+",nil)"] = w.InstrPos(t)
			}
		}
		s.Exits = append(s.Exits, ex)
	}
	first := true
	for _, ex := range s.Exits {
		if first {
			for l, st := range ex.Checked {
				s.Checked[l] = st
			}
			first = false
			continue
		}
		for l := range s.Checked {
			if _, ok := ex.Checked[l]; !ok {
				delete(s.Checked, l)
			}
		}
	}
	return s
}

// inheritedCell: the operand returned under mode is (a load of) the error cell of an object that is a parameter of fn.
func (fi *FnInfo) inheritedCell(r *ssa.Return, pred int, mode Mode) (int, int) {
	v := modeOperand(r, mode)
	if v == nil {
		return -1, -1
	}
	if p, ok := v.(*ssa.Phi); ok && p.Block() == r.Block() && pred >= 0 && pred < len(p.Edges) {
		v = p.Edges[pred]
	}
	var base ssa.Value
	field := -1
	switch mode.Kind {
	case mErr:
		if u, ok := v.(*ssa.UnOp); ok && u.Op == token.MUL {
			if fa, ok := u.X.(*ssa.FieldAddr); ok {
				base, field = fa.X, fa.Field
			}
		}
	case mObj:
		base, field = v, errFieldOf(v.Type())
	}
	if base == nil || field < 0 {
		return -1, -1
	}
	for i, p := range fi.Fn.Params {
		if ssa.Value(p) == base {
			return i, field
		}
	}
	return -1, -1
}

// tailBlockedByCell: every success-capable exit of the tail callee reports the error cell of an object it was
// handed, and at this call that cell is already known to hold a failure: the tail cannot report success here.
func (fi *FnInfo) tailBlockedByCell(tail *ssa.Call, tmode Mode, mask uint64) bool {
	g := staticCallee(tail)
	if g == nil || g.Blocks == nil || !fi.W.IsProductFn(g) {
		return false
	}
	s := fi.W.Summarize(g, tmode)
	if s == nil || !s.Complete || len(s.Exits) == 0 {
		return false
	}
	for _, ex := range s.Exits {
		if ex.InheritParam < 0 || ex.InheritParam >= len(tail.Call.Args) {
			return false
		}
		obj := unwrap(tail.Call.Args[ex.InheritParam])
		ci, ok := fi.cellOf[cellKey{canonPtr(obj), ex.InheritField}]
		if !ok || mask&(1<<uint(ci)) == 0 {
			return false
		}
	}
	return true
}

// keepsFailure: g never makes the error cell (param i).field nil or unknown again — every store it performs into that
// field of that parameter (directly, or in a module callee it hands the parameter to) stores a provably non-nil value.
func (w *World) keepsFailure(g *ssa.Function, i int, field int, seen map[*ssa.Function]bool) bool {
	if g == nil || g.Blocks == nil || i >= len(g.Params) {
		return false
	}
	if seen[g] {
		return true
	}
	seen[g] = true
	gi := w.Info(g)
	p := g.Params[i]
	for _, b := range g.Blocks {
		for _, in := range b.Instrs {
			switch x := in.(type) {
			case *ssa.Store:
				if fa, ok := x.Addr.(*ssa.FieldAddr); ok && fa.Field == field && fa.X == ssa.Value(p) {
					if !gi.nonNil(x.Val, b) {
						return false
					}
				}
				if x.Val == ssa.Value(p) {
					return false // the object escapes into memory
				}
			case ssa.CallInstruction:
				for j, a := range x.Common().Args {
					if unwrap(a) != ssa.Value(p) {
						continue
					}
					h := staticCallee(x)
					if h == nil {
						return false // handed to a dynamic call
					}
					if h.Blocks == nil || !w.IsProductFn(h) {
						continue // external code cannot name the module's field
					}
					k := j
					if x.Common().IsInvoke() {
						return false
					}
					if !w.keepsFailure(h, k, field, seen) {
						return false
					}
				}
			case *ssa.MakeClosure:
				for _, bnd := range x.Bindings {
					if bnd == ssa.Value(p) {
						return false
					}
				}
			}
		}
	}
	return true
}

// descTailErr describes the error result of a call the way desc() would
// describe the extracted value.
func descTailErr(c *ssa.Call) string {
	if isErrorType(c.Type()) {
		return desc(c)
	}
	return desc(c) + "#err"
}

// reachHit reports whether some path from the start states enters one of the
// target blocks (through at least one edge) without using a cut edge.
func (fi *FnInfo) reachHit(starts []state, cut map[edgeKey]bool, targets map[int]bool) bool {
	seen := map[state]bool{}
	var stack []state
	for _, s := range starts {
		if !seen[s] {
			seen[s] = true
			stack = append(stack, s)
		}
	}
	for len(stack) > 0 {
		s := stack[len(stack)-1]
		stack = stack[:len(stack)-1]
		b := fi.Fn.Blocks[s.b]
		outs := fi.transfer(b, s.m)
		for j, t := range b.Succs {
			if cut[edgeKey{s.b, j}] || outs[j] == infeasibleMask {
				continue
			}
			if targets[t.Index] {
				return true
			}
			n := state{t.Index, outs[j], -1}
			if !seen[n] {
				seen[n] = true
				stack = append(stack, n)
			}
		}
	}
	return false
}

// mustPassBetween returns the labels of facts that hold on every path from
// the start blocks (entered with an empty mask) to any of the target blocks.
// If no target is reachable at all, ok is false.
func (fi *FnInfo) mustPassBetween(starts []int, targets map[int]bool) (labels map[string]string, ok bool) {
	return fi.mustPassBetweenCut(starts, targets, nil)
}

// mustPassBetweenCut is mustPassBetween on the graph without the edges of baseCut
// (e.g. the back edges of a loop: facts of one iteration).
func (fi *FnInfo) mustPassBetweenCut(starts []int, targets map[int]bool, baseCut map[edgeKey]bool) (labels map[string]string, ok bool) {
	var ss []state
	for _, b := range starts {
		ss = append(ss, state{b, 0, -1})
	}
	if !fi.reachHit(ss, baseCut, targets) {
		return nil, false
	}
	labels = map[string]string{}
	for _, b := range fi.Fn.Blocks {
		iff, isIf := blockTerm(b).(*ssa.If)
		if !isIf || len(b.Succs) != 2 {
			continue
		}
		for j := 0; j < 2; j++ {
			cut := map[edgeKey]bool{{b.Index, j}: true}
			for e := range baseCut {
				cut[e] = true
			}
			if baseCut[edgeKey{b.Index, j}] || fi.reachHit(ss, cut, targets) {
				continue
			}
			truth := j == 0
			labels[condLabel(iff.Cond, truth)] = fi.W.InstrPos(iff)
			if tw, ok := labelTwin(condLabel(iff.Cond, truth)); ok {
				labels[tw] = fi.W.InstrPos(iff)
			}
			if comp := fi.composeCond(iff.Cond, truth); comp != nil {
				for l, st := range comp.Checked {
					if _, ok := labels[l]; !ok {
						labels[l] = st
					}
				}
			}
		}
	}
	return labels, true
}

// blocksOfInstrs maps instructions to the set of their block indices.
func blocksOf(ins ...ssa.Instruction) map[int]bool {
	m := map[int]bool{}
	for _, in := range ins {
		if in != nil && in.Block() != nil {
			m[in.Block().Index] = true
		}
	}
	return m
}

// GuardsOf returns the labels of facts that hold on every path from the
// function entry to the block of the given instruction (effect-site gate).
func (fi *FnInfo) GuardsOf(in ssa.Instruction) map[string]string {
	l, ok := fi.mustPassBetween([]int{0}, blocksOf(in))
	if !ok {
		if in.Block().Index == 0 {
			return map[string]string{}
		}
		return nil
	}
	return l
}

// labelMatch reports whether some label in the set matches all the given
// substrings (in any order).
func hasLabel(labels map[string]string, subs ...string) (string, bool) {
	var keys []string
	for l := range labels {
		keys = append(keys, l)
	}
	sort.Strings(keys)
	for _, l := range keys {
		ok := true
		for _, s := range subs {
			if !strings.Contains(l, s) {
				ok = false
				break
			}
		}
		if ok {
			return l, true
		}
	}
	return "", false
}

func labelList(labels map[string]string) []string {
	var keys []string
	for l := range labels {
		keys = append(keys, l)
	}
	sort.Strings(keys)
	return keys
}

// ---------- cut sets and witnesses -----------------------------------------

// EdgeSel selects If edges by the label of the fact that holds on them.
type EdgeSel func(label string, iff *ssa.If, truth bool) bool

// edgesMatching returns the If edges of the function selected by sel.
func (fi *FnInfo) edgesMatching(sel EdgeSel) map[edgeKey]bool {
	out := map[edgeKey]bool{}
	for _, b := range fi.Fn.Blocks {
		iff, ok := blockTerm(b).(*ssa.If)
		if !ok || len(b.Succs) != 2 {
			continue
		}
		for j := 0; j < 2; j++ {
			l := condLabel(iff.Cond, j == 0)
			tw, hasTw := labelTwin(l)
			if sel(l, iff, j == 0) || (hasTw && sel(tw, iff, j == 0)) {
				out[edgeKey{b.Index, j}] = true
			}
		}
	}
	return out
}

// successWitness searches a path from the start states to a success-capable
// exit that avoids the cut edges. It returns nil if there is none.
func (fi *FnInfo) successWitness(mode Mode, starts []state, cut map[edgeKey]bool) []string {
	type node struct {
		s      state
		parent int
	}
	var nodes []node
	seen := map[state]bool{}
	for _, s := range starts {
		if !seen[s] {
			seen[s] = true
			nodes = append(nodes, node{s, -1})
		}
	}
	for i := 0; i < len(nodes); i++ {
		s := nodes[i].s
		b := fi.Fn.Blocks[s.b]
		if r, ok := blockTerm(b).(*ssa.Return); ok {
			cl, tail, _, _ := fi.classify(r, state{s.b, fi.through(b, s.m), s.p}, mode)
			if cl != clFail && tail != nil && fi.ignoreTail[tail] {
				cl = clFail
			}
			if cl != clFail {
				var path []string
				for k := i; k >= 0; k = nodes[k].parent {
					bb := fi.Fn.Blocks[nodes[k].s.b]
					path = append(path, fmt.Sprintf("b%d %s", bb.Index, fi.blockPos(bb)))
				}
				for l, r := 0, len(path)-1; l < r; l, r = l+1, r-1 {
					path[l], path[r] = path[r], path[l]
				}
				return path
			}
		}
		outs := fi.transfer(b, s.m)
		for j, t := range b.Succs {
			if cut[edgeKey{s.b, j}] || outs[j] == infeasibleMask {
				continue
			}
			p := -1
			if fi.phiRet[t] {
				for pi, pb := range t.Preds {
					if pb == b {
						p = pi
						break
					}
				}
			}
			n := state{t.Index, outs[j], p}
			if !seen[n] {
				seen[n] = true
				nodes = append(nodes, node{n, i})
			}
		}
	}
	return nil
}

// blockPos returns the position of the first positioned instruction.
func (fi *FnInfo) blockPos(b *ssa.BasicBlock) string {
	for _, in := range b.Instrs {
		if p := in.Pos(); p.IsValid() {
			return fi.W.Pos(p)
		}
	}
	return "(" + b.Comment + ")"
}

func entryState() []state { return []state{{0, 0, -1}} }
