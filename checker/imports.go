package main

import "strings"

// Clauses a property states explicitly but whose deciding rule lives with a neighbouring property (round-5 seeds C01-7,
// C05-7, C08-7, C14-7 were reported — for the right reason — by the neighbour only). As with C03 (rules_c03.go), the
// neighbour's obligations are re-decided on the same world and recorded under this property's keys, so that a change which
// breaks the clause is reported for the property that states it. Nothing is decided twice differently: it is the same rule.
//
//   - C01 "target descriptor equals the artifact under verification (digest and size always)": for blobs the descriptor is
//     made by the library's own generator, which must digest the whole reader (C07 blob-descriptor/generator-body).
//   - C05 "performed only when the level does not skip it and no plugin owns it": the routing of the native revocation check
//     (C02 routing/revocation).
//   - C08 "failing that, the unique wildcard statement … the choice does not depend on statement order": uniqueness of scopes,
//     the wildcard included, is what document validation guarantees (C09 scope/*).
//   - C14 "a read that starts after a write has returned does not yield a bundle older than that write": Set reports success
//     only after the entry was written (C15 set/write-error; what bytes are written stays with C15).
func init() {
	alsoRun["C01"] = append(alsoRun["C01"], func(c *Ctx) {
		c.importObls("C07", runC07, "blob/generator/", func(k string) bool { return k == "blob-descriptor/generator-body" })
		c.MinCount("blob/generator/", 1, "the blob descriptor generator digests the whole reader")
	})
	alsoRun["C05"] = append(alsoRun["C05"], func(c *Ctx) {
		c.importObls("C02", runC02, "gate/", func(k string) bool { return k == "routing/revocation" })
		c.MinCount("gate/routing/revocation", 1, "routing of the native revocation check")
	})
	alsoRun["C08"] = append(alsoRun["C08"], func(c *Ctx) {
		c.importObls("C09", runC09, "validated/", func(k string) bool {
			return strings.HasPrefix(k, "scope/unique") || strings.HasPrefix(k, "scope/every-") || strings.HasPrefix(k, "scope/wildcard-alone")
		})
		c.MinCount("validated/scope/", 4, "scope uniqueness obligations of document validation")
	})
	alsoRun["C14"] = append(alsoRun["C14"], func(c *Ctx) {
		c.importObls("C15", runC15, "durable/", func(k string) bool { return k == "set/write-error" })
		c.MinCount("durable/set/", 1, "Set succeeds only after the entry was written")
	})
}
