package main

import (
	"fmt"
	"go/token"
	"strings"

	"golang.org/x/tools/go/ssa"
)

// The level that judges is the level of the statement that was selected (C02; seed C02-7).
//
// Everything C02 decides is relative to "the applicable level": the action a result carries, the predicate that makes a
// failure critical. Nothing decided *which* level object that is. The seeded change resolved the levels of all statements
// once, at construction, into a map keyed by statement name — and one map served both documents, so an OCI statement was
// judged by the level of the blob statement of the same name: `strict` became `audit` with every rule of C02 discharged.
//
// Rule (provenance, per function of package verifier): every level value that is stored into the VerificationLevel field
// of an outcome, or returned as a *VerificationLevel, is — through locals, phis, parameters (closed call-site lists) and
// the results of module helpers — result 0 of a call of (*SignatureVerification).GetVerificationLevel whose receiver is
// the SignatureVerification field of a statement every origin of which is a selection call of a policy document
// (c03StmtOrigins: GetApplicableTrustPolicy / GetGlobalTrustPolicy). nil (the failing exits) is no level at all; the
// LevelSkip constant may be returned in place of a level (SkipVerify hands it back after comparing the statement's level
// with it).
func init() {
	alsoRun["C02"] = append(alsoRun["C02"], c02LevelOrigin)
}

const getLevelFn = "(*ngo/verifier/trustpolicy.SignatureVerification).GetVerificationLevel"

func c02LevelOrigin(c *Ctx) {
	w := c.W
	rule := "the level that judges is the level of the selected statement: every level stored into an outcome or returned by the verifier is result 0 of GetVerificationLevel applied to the SignatureVerification of a statement that comes only from the policy document's selection"
	n := 0
	for _, fn := range w.FuncsOfPkg("verifier") {
		if fn.Blocks == nil {
			continue
		}
		var bad []string
		sinks := 0
		site := ""
		for _, b := range fn.Blocks {
			for _, in := range b.Instrs {
				switch x := in.(type) {
				case *ssa.Store:
					fa, ok := x.Addr.(*ssa.FieldAddr)
					if !ok || fieldName(fa.X.Type(), fa.Field) != "VerificationLevel" || namedOf(fa.X.Type()) != "ngo.VerificationOutcome" {
						continue
					}
					sinks++
					if site == "" {
						site = w.InstrPos(in)
					}
					c02LevelOrigins(w, x.Val, map[ssa.Value]bool{}, 0, false, &bad)
				case *ssa.Return:
					for _, r := range x.Results {
						if namedOf(r.Type()) != "ngo/verifier/trustpolicy.VerificationLevel" {
							continue
						}
						if k, isK := r.(*ssa.Const); isK && k.IsNil() {
							continue
						}
						sinks++
						if site == "" {
							site = w.InstrPos(in)
						}
						c02LevelOrigins(w, r, map[ssa.Value]bool{}, 0, true, &bad)
					}
				}
			}
		}
		if sinks == 0 {
			continue
		}
		n++
		c.Evals += sinks
		c.SeenFn(fn.String())
		detail := ""
		if len(bad) > 0 {
			detail = "a level that is not the selected statement's own can arrive: " + strings.Join(uniqStrings(bad), "; ")
		}
		c.Check(len(bad) == 0, "level/from-selected-statement/"+fnName(fn), rule, site, detail)
	}
	if n < 1 || c.Evals < 3 {
		c.Unk("level/from-selected-statement#count", "vacuity guard: the verifier hands a level on (stored into an outcome, returned)", "-", fmt.Sprintf("%d functions of package verifier store or return a level", n))
	}
}

func uniqStrings(in []string) []string {
	seen := map[string]bool{}
	var out []string
	for _, s := range in {
		if !seen[s] {
			seen[s] = true
			out = append(out, s)
		}
	}
	return out
}

func c02LevelOrigins(w *World, v ssa.Value, seen map[ssa.Value]bool, depth int, returned bool, bad *[]string) {
	v = loadOrigin(v)
	if seen[v] {
		return
	}
	seen[v] = true
	if depth > 8 {
		*bad = append(*bad, "followed too deep: "+trunc(desc(v), 80))
		return
	}
	fromCall := func(call *ssa.Call, k int) {
		if g := staticCallee(call); g != nil && fnName(g) == getLevelFn {
			if k != 0 || len(call.Call.Args) == 0 {
				*bad = append(*bad, "result "+fmt.Sprint(k)+" of GetVerificationLevel")
				return
			}
			c02LevelReceiver(w, call.Call.Args[0], 0, bad)
			return
		}
		H := staticCallee(call)
		if H == nil || H.Blocks == nil || !w.IsProductFn(H) {
			*bad = append(*bad, trunc(desc(call), 100))
			return
		}
		nr := 0
		for _, b := range H.Blocks {
			if r, ok := blockTerm(b).(*ssa.Return); ok && k < len(r.Results) {
				nr++
				c02LevelOrigins(w, r.Results[k], seen, depth+1, returned, bad)
			}
		}
		if nr == 0 {
			*bad = append(*bad, "a helper without exits: "+fnName(H))
		}
	}
	switch x := v.(type) {
	case *ssa.Const:
		if x.IsNil() {
			return
		}
	case *ssa.Call:
		fromCall(x, 0)
		return
	case *ssa.Extract:
		if call, ok := x.Tuple.(*ssa.Call); ok {
			fromCall(call, x.Index)
			return
		}
	case *ssa.Phi:
		for _, e := range x.Edges {
			c02LevelOrigins(w, e, seen, depth+1, returned, bad)
		}
		return
	case *ssa.UnOp:
		if x.Op == token.MUL {
			if g, ok := x.X.(*ssa.Global); ok && returned && g.Name() == "LevelSkip" && g.Pkg != nil && strings.HasSuffix(g.Pkg.Pkg.Path(), "/verifier/trustpolicy") {
				return
			}
			if al, ok := x.X.(*ssa.Alloc); ok {
				if vals, ok := c03VarStores(al); ok {
					for _, sv := range vals {
						c02LevelOrigins(w, sv, seen, depth+1, returned, bad)
					}
					return
				}
			}
		}
	case *ssa.Parameter:
		g := x.Parent()
		sites, closed := c03CallSites(w, g)
		idx := c03ParamIndex(x)
		if !closed || len(sites) == 0 || idx < 0 {
			*bad = append(*bad, "a parameter of "+fnName(g)+", which can be called with any level")
			return
		}
		for _, s := range sites {
			c02LevelOrigins(w, s.Common().Args[idx], seen, depth+1, returned, bad)
		}
		return
	}
	*bad = append(*bad, trunc(desc(v), 120))
}

// c02LevelReceiver: the receiver of GetVerificationLevel is the SignatureVerification of a selected statement — its address
// in the statement, the address of a local copy of it, or a parameter bound to one of these at every call site.
func c02LevelReceiver(w *World, r ssa.Value, depth int, bad *[]string) {
	if depth > 4 {
		*bad = append(*bad, "receiver followed too deep")
		return
	}
	switch x := r.(type) {
	case *ssa.FieldAddr:
		if fieldName(x.X.Type(), x.Field) == "SignatureVerification" && c03IsStatementType(x.X.Type()) {
			var sel, sbad []string
			c03StmtOrigins(w, x.X, map[ssa.Value]bool{}, 0, &sel, &sbad)
			if len(sbad) > 0 || len(sel) == 0 {
				*bad = append(*bad, "the level of a statement that may be "+strings.Join(sbad, ", ")+" (selection calls reached: "+fmt.Sprint(len(sel))+")")
			}
			return
		}
	case *ssa.Alloc:
		// a local copy: `sv := stmt.SignatureVerification`
		var vals []ssa.Value
		if x.Referrers() != nil {
			for _, ref := range *x.Referrers() {
				if st, isSt := ref.(*ssa.Store); isSt && st.Addr == ssa.Value(x) {
					vals = append(vals, st.Val)
				}
			}
		}
		if len(vals) > 0 {
			var copyOf func(sv ssa.Value, d int)
			copyOf = func(sv ssa.Value, d int) {
				if ld, isLd := sv.(*ssa.UnOp); isLd && ld.Op == token.MUL {
					c02LevelReceiver(w, ld.X, d+1, bad)
					return
				}
				// the struct handed over by value: a parameter bound, at every call site, to a copy of the statement's field
				if pa, isP := sv.(*ssa.Parameter); isP && d <= 4 {
					sites, closed := c03CallSites(w, pa.Parent())
					idx := c03ParamIndex(pa)
					if closed && len(sites) > 0 && idx >= 0 {
						for _, s := range sites {
							copyOf(s.Common().Args[idx], d+1)
						}
						return
					}
				}
				*bad = append(*bad, "GetVerificationLevel of a copy of "+trunc(desc(sv), 80))
			}
			for _, sv := range vals {
				copyOf(sv, depth)
			}
			return
		}
	case *ssa.Parameter:
		g := x.Parent()
		sites, closed := c03CallSites(w, g)
		idx := c03ParamIndex(x)
		if closed && len(sites) > 0 && idx >= 0 {
			for _, s := range sites {
				c02LevelReceiver(w, s.Common().Args[idx], depth+1, bad)
			}
			return
		}
	}
	*bad = append(*bad, "GetVerificationLevel of "+trunc(desc(r), 80)+" (not the SignatureVerification field of a selected statement)")
}
