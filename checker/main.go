package main

import (
	"go/types"
	"encoding/json"
	"flag"
	"fmt"
	"os"
	"path/filepath"
	"runtime/debug"
	"sort"
	"strconv"
	"strings"
	"time"

	"golang.org/x/tools/go/ssa"
)

// Rule is the entry point of a property's rule set.
type Rule struct {
	ID      string
	Title   string
	Run     func(c *Ctx)
	Explain string   // what is decided (rule list)
	NotCov  string   // what is not covered
	Trusted []string // trusted base
}

var rules = map[string]*Rule{}

func register(r *Rule) { rules[r.ID] = r }

// OverlaySpec describes an in-memory source rewrite (variant).
type OverlaySpec struct {
	File    string `json:"file"`    // path relative to the repository
	Find    string `json:"find"`    // text that must occur in the current file
	Replace string `json:"replace"` // replacement
	All     bool   `json:"all,omitempty"`
	Expect  string `json:"expect,omitempty"`
	Name    string `json:"name,omitempty"`
	Edits   []struct {
		File    string `json:"file"`
		Find    string `json:"find"`
		Replace string `json:"replace"`
	} `json:"edits,omitempty"`
}

func buildOverlay(repo string, spec *OverlaySpec) (map[string][]byte, error) {
	ov := map[string][]byte{}
	apply := func(file, find, repl string, all bool) error {
		abs := filepath.Join(repo, file)
		cur, ok := ov[abs]
		if !ok {
			b, err := os.ReadFile(abs)
			if err != nil {
				return err
			}
			cur = b
		}
		s := string(cur)
		if !strings.Contains(s, find) {
			return fmt.Errorf("SKIP: text to replace not found in %s", file)
		}
		if all {
			s = strings.ReplaceAll(s, find, repl)
		} else {
			s = strings.Replace(s, find, repl, 1)
		}
		ov[abs] = []byte(s)
		return nil
	}
	if spec.File != "" {
		if err := apply(spec.File, spec.Find, spec.Replace, spec.All); err != nil {
			return nil, err
		}
	}
	for _, e := range spec.Edits {
		if err := apply(e.File, e.Find, e.Replace, false); err != nil {
			return nil, err
		}
	}
	return ov, nil
}

func main() {
	var (
		prop     = flag.String("property", "", "property id (C01..C20)")
		tier     = flag.String("tier", "quick", "quick|thorough")
		repo     = flag.String("repo", "/repo", "repository to analyse")
		verif    = flag.String("verif", "/verif", "verification directory (evidence, known findings)")
		overlayF = flag.String("overlay", "", "variant spec (json file): analyse the tree with this rewrite applied in memory")
		dump     = flag.String("dump", "", "debug: dump the summary of pkg:func (e.g. verifier:(*verifier).Verify)")
		dumpMode = flag.String("mode", "err", "debug: err|true|false|obj<k>")
		goos     = flag.String("goos", "", "GOOS for the analysis")
		goarch   = flag.String("goarch", "", "GOARCH for the analysis")
		noEvid   = flag.Bool("no-evidence", false, "do not write evidence/replay files (used for variants)")
		jsonOut  = flag.Bool("json", false, "print the obligation list as JSON on stdout")
		replay   = flag.String("replay", "", "replay file: re-analyse and print only the obligations listed there")
		extraCfg = flag.String("extra-configs", "", "thorough: verdicts of the other build configurations (recorded in the evidence)")
		varRep   = flag.String("variants-report", "", "thorough: report of the variant corpus run (recorded in the evidence)")
	)
	flag.Parse()
	debug.SetGCPercent(400)
	start := time.Now()

	var overlay map[string][]byte
	if *overlayF != "" {
		b, err := os.ReadFile(*overlayF)
		if err != nil {
			fatal(2, "overlay: %v", err)
		}
		var spec OverlaySpec
		if err := json.Unmarshal(b, &spec); err != nil {
			fatal(2, "overlay: %v", err)
		}
		overlay, err = buildOverlay(*repo, &spec)
		if err != nil {
			if strings.HasPrefix(err.Error(), "SKIP") {
				fmt.Println(err.Error())
				os.Exit(3)
			}
			fatal(2, "overlay: %v", err)
		}
	}

	w, err := LoadWorld(*repo, *goos, *goarch, overlay)
	if err != nil {
		if *prop != "" {
			// a tree that cannot be loaded cannot be decided: fail the check
			fmt.Printf("ERROR %v\n", err)
			writeFailureEvidence(*verif, *prop, *tier, err, time.Since(start), *noEvid)
			fmt.Printf("VIOLATION property=%s replay=%s\n", *prop, filepath.Join(*verif, "evidence", "replay", *prop+".json"))
			os.Exit(1)
		}
		fatal(2, "%v", err)
	}

	if strings.HasPrefix(*dump, "explore:") {
		explore(w, strings.TrimPrefix(*dump, "explore:"))
		return
	}
	if *dump != "" {
		doDump(w, *dump, *dumpMode)
		return
	}
	if *prop == "all" {
		// tooling only (guard-mutant campaign, tools/guard_mutants.py): every rule set over one loaded world, one line per
		// property with the keys that are not discharged; no evidence is written and no verdict of a registered check uses it.
		var ids []string
		for id := range rules {
			ids = append(ids, id)
		}
		sort.Strings(ids)
		known, _ := loadKnownFindings(filepath.Join(*verif, "known_findings.txt"))
		isKnown := map[string]bool{}
		for _, k := range known {
			isKnown[k.Prop+"/"+k.Key] = true
			isKnown[k.Key] = true
		}
		any := false
		for _, id := range ids {
			c := NewCtx(w, id, *tier)
			func() {
				defer func() {
					if rec := recover(); rec != nil {
						c.Unk("internal/panic", "the checker must not crash", "-", fmt.Sprintf("panic: %v", rec))
					}
				}()
				rules[id].Run(c)
				for _, more := range alsoRun[id] {
					more(c)
				}
			}()
			var bad []string
			for _, o := range c.Obls {
				if o.Status != Discharged && !isKnown[o.Key] {
					bad = append(bad, o.Key)
				}
			}
			sort.Strings(bad)
			if len(bad) > 0 {
				any = true
				fmt.Printf("ALL %s flagged %d: %s\n", id, len(bad), strings.Join(bad, " "))
			} else {
				fmt.Printf("ALL %s silent (%d obligations)\n", id, len(c.Obls))
			}
		}
		if any {
			os.Exit(1)
		}
		os.Exit(0)
	}
	r := rules[*prop]
	if r == nil {
		var ids []string
		for id := range rules {
			ids = append(ids, id)
		}
		sort.Strings(ids)
		fatal(2, "unknown property %q (have %v)", *prop, ids)
	}
	c := NewCtx(w, *prop, *tier)
	func() {
		defer func() {
			if rec := recover(); rec != nil {
				c.Unk("internal/panic", "the checker must not crash", "-", fmt.Sprintf("panic: %v\n%s", rec, debug.Stack()))
			}
		}()
		r.Run(c)
		for _, more := range alsoRun[r.ID] {
			more(c)
		}
	}()
	if *extraCfg != "" {
		c.Extra["other_build_configs"] = strings.TrimSuffix(*extraCfg, ",")
	}
	if *varRep != "" {
		if b, err := os.ReadFile(*varRep); err == nil {
			var rep map[string]interface{}
			if json.Unmarshal(b, &rep) == nil {
				for _, k := range []string{"mutants_applied", "mutants_flagged", "benign_applied", "benign_silent", "skipped", "mutants_missed", "benign_flagged", "wrong_obligation", "errors"} {
					if v, ok := rep[k]; ok {
						c.Extra["variants_"+k] = v
					}
				}
				for _, k := range []string{"rewrites_applied", "rewrites_silent", "rewrites_flagged", "rewrites_skipped"} {
					if v, ok := rep[k]; ok {
						c.Extra[k] = v
					}
				}
			}
		}
	}
	os.Exit(finish(c, r, *verif, *tier, *goos, *goarch, start, *noEvid, *jsonOut, *replay))
}

func fatal(code int, f string, a ...interface{}) {
	fmt.Fprintf(os.Stderr, "notacheck: "+f+"\n", a...)
	os.Exit(code)
}

func seed() int64 {
	if s := os.Getenv("VERIF_SEED"); s != "" {
		if n, err := strconv.ParseInt(s, 10, 64); err == nil {
			return n
		}
	}
	return 0
}

func writeFailureEvidence(verif, prop, tier string, err error, d time.Duration, skip bool) {
	if skip {
		return
	}
	os.MkdirAll(filepath.Join(verif, "evidence", "replay"), 0755)
	ob := []*Obligation{{Key: prop + "/load", Rule: "the tree must load and type-check to be decided", Status: Undecided, Detail: err.Error()}}
	writeJSON(filepath.Join(verif, "evidence", "replay", prop+".json"), map[string]interface{}{"property_id": prop, "obligations": ob})
	ev := Evidence{PropertyID: prop, Tier: tier, Seed: seed(), Level: "other", WallS: d.Seconds(), Violations: 1,
		Coverage:    map[string]interface{}{"explanation": "the repository could not be loaded/type-checked; nothing was decided: " + err.Error(), "obligations": 1, "discharged": 0, "samples": ob},
		Assumptions: []string{}}
	writeJSON(filepath.Join(verif, "evidence", prop+".json"), ev)
}

func finish(c *Ctx, r *Rule, verif, tier, goos, goarch string, start time.Time, noEvid, jsonOut bool, replay string) int {
	known, err := loadKnownFindings(filepath.Join(verif, "known_findings.txt"))
	if err != nil {
		fmt.Printf("ERROR reading known findings: %v\n", err)
	}
	knownByKey := map[string]KnownFinding{}
	for _, k := range known {
		if k.Prop == c.Prop {
			knownByKey[k.Key] = k
		}
	}
	sort.SliceStable(c.Obls, func(i, j int) bool { return c.Obls[i].Key < c.Obls[j].Key })
	var bad []*Obligation
	discharged := 0
	nontrivial := map[string]bool{}
	for _, o := range c.Obls {
		switch o.Status {
		case Discharged:
			discharged++
			if o.Site != "" && o.Site != "-" {
				nontrivial[o.Key] = true
			}
		default:
			if kf, ok := knownByKey[o.Key]; ok && o.Status == Violated {
				o.Known = true
				fmt.Printf("KNOWN-FINDING: property=%s key=%s %s\n", c.Prop, o.Key, kf.Text)
				nontrivial[o.Key] = true
				continue
			}
			bad = append(bad, o)
			nontrivial[o.Key] = true
		}
	}
	var replayFilter map[string]bool
	if replay != "" {
		replayFilter = map[string]bool{}
		if b, err := os.ReadFile(replay); err == nil {
			var rf struct {
				Obligations []*Obligation `json:"obligations"`
			}
			if json.Unmarshal(b, &rf) == nil {
				for _, o := range rf.Obligations {
					replayFilter[o.Key] = true
				}
			}
		}
	}
	cfg := "linux/amd64"
	if goos != "" || goarch != "" {
		cfg = goos + "/" + goarch
	}
	fmt.Printf("property %s (%s) tier=%s config=%s: %d obligations, %d discharged, %d violated/undecided, %d functions analysed, %.1fs\n",
		c.Prop, r.Title, tier, cfg, len(c.Obls), discharged, len(bad), len(c.FnSeen), time.Since(start).Seconds())
	for _, o := range c.Obls {
		if replayFilter != nil && !replayFilter[o.Key] {
			continue
		}
		if o.Status == Discharged && replayFilter == nil {
			continue
		}
		tag := strings.ToUpper(o.Status)
		if o.Known {
			tag = "KNOWN"
		}
		fmt.Printf("  [%s] %s\n      rule: %s\n      site: %s\n", tag, o.Key, o.Rule, o.Site)
		if o.Detail != "" {
			fmt.Printf("      detail: %s\n", strings.ReplaceAll(o.Detail, "\n", "\n        "))
		}
		for _, p := range o.Path {
			fmt.Printf("      path: %s\n", p)
		}
	}
	if jsonOut {
		b, _ := json.Marshal(c.Obls)
		fmt.Printf("JSON %s\n", b)
	}
	replayPath := filepath.Join(verif, "evidence", "replay", c.Prop+".json")
	if !noEvid {
		os.MkdirAll(filepath.Join(verif, "evidence", "replay"), 0755)
		samples := make([]interface{}, 0, len(c.Obls))
		for _, o := range c.Obls {
			samples = append(samples, o)
		}
		ev := Evidence{
			PropertyID: c.Prop, Tier: tier, Seed: seed(), Level: "other",
			Coverage: map[string]interface{}{
				"explanation":         r.Explain + " NOT COVERED: " + r.NotCov,
				"obligations":         len(c.Obls),
				"discharged":          discharged,
				"evaluations":         c.Evals,
				"distinct_nontrivial": len(nontrivial),
				"rule":                "one obligation per (rule, construct) keyed by resolved objects; evaluations counts SSA instructions, call sites, product-graph states and edge cuts examined; an obligation is non-trivial when it is anchored at a concrete site of /repo's current source",
				"samples":             samples,
				"functions_analysed":  sortedKeys(c.FnSeen),
				"packages":            len(c.W.Product),
				"functions_in_scope":  len(c.W.Funcs),
				"build_config":        cfg,
				"checker_cmd":         "bin/notacheck -property " + c.Prop + " -tier " + tier,
				"trusted_base":        r.Trusted,
				"notes":               c.Notes,
				"exhaustive":          false,
			},
			Assumptions: r.Trusted,
			WallS:       time.Since(start).Seconds(),
			Violations:  len(bad),
		}
		for k, v := range c.Extra {
			ev.Coverage[k] = v
		}
		if err := writeJSON(filepath.Join(verif, "evidence", c.Prop+".json"), ev); err != nil {
			fmt.Printf("ERROR writing evidence: %v\n", err)
			return 1
		}
		if len(bad) > 0 {
			writeJSON(replayPath, map[string]interface{}{"property_id": c.Prop, "tier": tier, "config": cfg, "obligations": bad})
		} else {
			os.Remove(replayPath)
		}
	}
	if len(bad) > 0 {
		fmt.Printf("VIOLATION property=%s replay=%s\n", c.Prop, replayPath)
		return 1
	}
	return 0
}

// ---------- debug dump -------------------------------------------------------

func findFn(w *World, spec string) *ssa.Function {
	i := strings.Index(spec, ":")
	if i < 0 {
		return nil
	}
	rel, name := spec[:i], spec[i+1:]
	if strings.HasPrefix(name, "(*") || strings.HasPrefix(name, "(") {
		// (*T).M or (T).M
		j := strings.Index(name, ").")
		tn := strings.TrimPrefix(strings.TrimPrefix(name[:j], "("), "*")
		return w.Method(rel, tn, name[j+2:])
	}
	if k := strings.Index(name, "$"); k >= 0 {
		base := w.Func(rel, name[:k])
		if base == nil {
			return nil
		}
		for _, a := range closuresOf(base) {
			if a.Name() == name {
				return a
			}
		}
		return nil
	}
	return w.Func(rel, name)
}

func doDump(w *World, spec, modeS string) {
	fn := findFn(w, spec)
	if fn == nil {
		fatal(2, "function %s not found", spec)
	}
	mode := Mode{Kind: mErr}
	switch {
	case modeS == "true":
		mode = Mode{Kind: mBool, Want: true}
	case modeS == "false":
		mode = Mode{Kind: mBool, Want: false}
	case strings.HasPrefix(modeS, "obj"):
		k, _ := strconv.Atoi(strings.TrimPrefix(modeS, "obj"))
		mode = Mode{Kind: mObj, K: k}
	}
	if modeS == "ssa" {
		for _, b := range fn.Blocks {
			fmt.Printf("b%d: %s preds=%v\n", b.Index, b.Comment, blockIdx(b.Preds))
			for _, in := range b.Instrs {
				if v, ok := in.(ssa.Value); ok {
					fmt.Printf("    %s = %s    ; %s\n", v.Name(), in, descDepth(v, 4))
				} else {
					fmt.Printf("    %s\n", in)
				}
			}
			if iff, ok := blockTerm(b).(*ssa.If); ok {
				fmt.Printf("    -> b%d: %s\n    -> b%d: %s\n", b.Succs[0].Index, condLabel(iff.Cond, true), b.Succs[1].Index, condLabel(iff.Cond, false))
			} else {
				fmt.Printf("    -> %v\n", blockIdx(b.Succs))
			}
		}
		return
	}
	s := w.Summarize(fn, mode)
	fmt.Printf("== %s mode=%s complete=%v states=%d cells=%d\n", fn, mode, s.Complete, s.States, len(w.Info(fn).cells))
	for _, ex := range s.Exits {
		fmt.Printf("  exit b%d pred=%d %s class=%d tail=%s\n", ex.Ret.Block().Index, ex.Pred, w.InstrPos(ex.Ret), ex.Class, ex.Tail)
		for _, l := range labelList(ex.Checked) {
			fmt.Printf("      %s   @%s\n", l, ex.Checked[l])
		}
	}
	fmt.Println("  ALL:")
	for _, l := range labelList(s.Checked) {
		fmt.Printf("      %s   @%s\n", l, s.Checked[l])
	}
}

func blockIdx(bs []*ssa.BasicBlock) []int {
	var r []int
	for _, b := range bs {
		r = append(r, b.Index)
	}
	return r
}

// explore: ad-hoc inventories used while looking for new rules (never part of a verdict).
func explore(w *World, what string) {
	for _, fn := range w.Funcs {
		fi := w.Info(fn)
		for _, ci := range allCalls(fn) {
			call, ok := ci.(*ssa.Call)
			if !ok {
				continue
			}
			n := calleeName(call)
			switch what {
			case "decoders":
				if n == "encoding/json.Unmarshal" {
					ok, why := freshDecodeTarget(fi, call)
					fmt.Printf("%-8v %s %s  %s\n", ok, w.InstrPos(call), fnName(fn), why)
				}
				if n == "(*encoding/json.Decoder).Decode" {
					fmt.Printf("decoder  %s %s\n", w.InstrPos(call), fnName(fn))
				}
			case "stat":
				if n == "os.Stat" || n == "os.Lstat" || n == "io/fs.Stat" || strings.HasSuffix(n, "DirEntry.Info") || strings.HasSuffix(n, "DirEntry.Type") {
					fmt.Printf("%-28s %s %s\n", n, w.InstrPos(call), fnName(fn))
				}
			case "time":
				if n == "time.Now" {
					fmt.Printf("%s %s\n", w.InstrPos(call), fnName(fn))
				}
			case "errdrop":
				// calls whose error result is never looked at
				var errV ssa.Value
				if isErrorType(call.Type()) {
					errV = call
				}
				if tup, ok := call.Type().(*types.Tuple); ok && tup.Len() > 0 && isErrorType(tup.At(tup.Len()-1).Type()) {
					used := false
					for _, r := range *call.Referrers() {
						if ex, ok := r.(*ssa.Extract); ok && ex.Index == tup.Len()-1 && len(*ex.Referrers()) > 0 {
							used = true
						}
					}
					if !used {
						fmt.Printf("dropped  %s %s  %s\n", w.InstrPos(call), fnName(fn), n)
					}
				}
				if errV != nil && (errV.Referrers() == nil || len(*errV.Referrers()) == 0) {
					fmt.Printf("dropped  %s %s  %s\n", w.InstrPos(call), fnName(fn), n)
				}
			}
		}
	}
}
