package main

import (
	"fmt"
	"regexp"
	"go/token"
	"go/types"
	"strings"

	"golang.org/x/tools/go/ssa"
)

// A local pointer that is nil on one way in is not dereferenced on a way out that the nil way can take (C12; seed C12-7).
//
// The decoded-data and tested-parameter rules of C12 start from values that come from outside. The seeded clean-up of the
// CRL cache reader made its own nil: `var deltaCRL *x509.RevocationList`, assigned behind `len(content.DeltaCRL) > 0`,
// dereferenced behind `content.DeltaCRL != nil` — two guards that agree on everything Set can write and disagree on
// `"deltaCRL":""`. In SSA the pointer is a phi with a nil-constant edge; the dereference is guarded by a fact that does not
// contradict the facts of that edge.
//
// Rule (per pointer-typed phi with a nil-constant edge, in the product packages): no dereference of the phi (field address,
// load through it, element address through a pointer to an array) is reachable from the phi's block on a path that is
// consistent with the facts of the nil edge. Consistency is decided on the engine's labels: the facts that hold on the nil
// edge (must-pass facts of the predecessor, the branch taken into the phi, and "the phi is nil"), and a branch edge is
// excluded when the negation of its label is among the facts collected so far on the path (so `if x != nil {p = …}` …
// `if x != nil {p.f}` is silent: correlated tests of the same quantity). Paths are acyclic; at most 4000 steps per phi edge
// are explored and an exhausted budget is reported as undecided.
func init() {
	alsoRun["C12"] = append(alsoRun["C12"], c12NilPhi)
}

func c12NilPhi(c *Ctx) {
	w := c.W
	rule := "a local pointer that is nil on one way in is not dereferenced on a way out the nil way can take: no dereference of a pointer phi with a nil-constant edge is reachable from that edge on a path consistent with the facts of the edge"
	derefs, phis, searches := 0, 0, 0
	for _, fn := range w.Funcs {
		if !w.IsProductFn(fn) || fn.Blocks == nil {
			continue
		}
		fi := w.Info(fn)
		var bad []string
		undecided := false
		had := false
		for _, b := range fn.Blocks {
			for _, in := range b.Instrs {
				phi, ok := in.(*ssa.Phi)
				if !ok {
					continue
				}
				if _, isPtr := phi.Type().Underlying().(*types.Pointer); !isPtr {
					continue
				}
				nilEdges := []int{}
				for i, e := range phi.Edges {
					if k, isK := e.(*ssa.Const); isK && k.IsNil() {
						nilEdges = append(nilEdges, i)
					}
				}
				if len(nilEdges) == 0 {
					continue
				}
				// dereferences of the phi
				type use struct {
					in ssa.Instruction
				}
				var uses []ssa.Instruction
				if phi.Referrers() != nil {
					for _, r := range *phi.Referrers() {
						switch x := r.(type) {
						case *ssa.FieldAddr:
							if x.X == ssa.Value(phi) {
								uses = append(uses, x)
							}
						case *ssa.UnOp:
							if x.Op == token.MUL && x.X == ssa.Value(phi) {
								uses = append(uses, x)
							}
						case *ssa.IndexAddr:
							if x.X == ssa.Value(phi) {
								uses = append(uses, x)
							}
						case *ssa.Store:
							if x.Addr == ssa.Value(phi) {
								uses = append(uses, x)
							}
						}
					}
				}
				phis++
				if len(uses) == 0 {
					continue
				}
				if proved, recognised := c12SearchAlwaysFinds(w, fi, phi); proved {
					// "not found" cannot happen: see c12SearchAlwaysFinds
					had = true
					derefs += len(uses)
					continue
				} else if !recognised && c12IsSearchPhi(phi) {
					// the result of a search over a collection whose contents this rule cannot see (not a list of a parameter
					// with a closed list of call sites): whether the search can come back empty is an invariant of the data,
					// not of the paths — out of this rule's reach, counted in the inventory
					searches++
					continue
				}
				had = true
				derefs += len(uses)
				c.Evals += len(uses)
				for _, ei := range nilEdges {
					facts := map[string]bool{}
					for l := range c07PhiEdgeGuards(fi, phi, ei) {
						facts[l] = true
					}
					facts["EQ("+desc(phi)+",nil)"] = true
					useBlocks := map[*ssa.BasicBlock]ssa.Instruction{}
					for _, u := range uses {
						if _, dup := useBlocks[u.Block()]; !dup {
							useBlocks[u.Block()] = u
						}
					}
					budget := 4000
					var hit ssa.Instruction
					onPath := map[*ssa.BasicBlock]bool{}
					var dfs func(bb *ssa.BasicBlock, facts map[string]bool) bool
					dfs = func(bb *ssa.BasicBlock, facts map[string]bool) bool {
						if budget <= 0 {
							return false
						}
						budget--
						if u, isUse := useBlocks[bb]; isUse && !(bb == phi.Block() && false) {
							hit = u
							return true
						}
						onPath[bb] = true
						defer delete(onPath, bb)
						iff, isIf := blockTerm(bb).(*ssa.If)
						for j, s := range bb.Succs {
							if onPath[s] {
								continue
							}
							nf := facts
							if isIf && len(bb.Succs) == 2 && bb.Succs[0] != bb.Succs[1] {
								l := condLabel(iff.Cond, j == 0)
								neg := condLabel(iff.Cond, j != 0)
								if facts[neg] {
									continue
								}
								if tw, ok := labelTwin(neg); ok && facts[tw] {
									continue
								}
								if condImpliesNonNil(iff.Cond, j == 0, phi) {
									continue // this edge says the phi is not nil: the nil way does not take it
								}
								nf = map[string]bool{}
								for k := range facts {
									nf[k] = true
								}
								nf[l] = true
								if tw, ok := labelTwin(l); ok {
									nf[tw] = true
								}
							}
							if dfs(s, nf) {
								return true
							}
						}
						return false
					}
					// the phi's own block: a dereference there is reached at once
					if dfs(phi.Block(), facts) {
						bad = append(bad, fmt.Sprintf("%s (nil on the way in from %s) is dereferenced at %s", desc(phi), fi.blockPos(phi.Block().Preds[ei]), w.InstrPos(hit)))
					} else if budget <= 0 {
						undecided = true
					}
				}
			}
		}
		if !had {
			continue
		}
		c.SeenFn(fn.String())
		key := "nilable/local-maybe-nil/" + fnName(fn)
		switch {
		case len(bad) > 0:
			c.Check(false, key, rule, w.FnPos(fn), strings.Join(bad, "; "))
		case undecided:
			c.Unk(key, rule, w.FnPos(fn), "path budget exhausted")
		default:
			c.OK(key, rule, w.FnPos(fn))
		}
	}
	c.OK("nilable/local-maybe-nil#examined", fmt.Sprintf("inventory: %d pointer phis with a nil-constant edge, %d dereferences of them examined, %d results of searches over collections this rule cannot see into left undecided", phis, derefs, searches), "-")
}

var reSearchType = regexp.MustCompile(`^EQ\((.*)\.VerificationResults\[[^\]]*\]\.Type,const:(".*")\)$`)

// c12SearchAlwaysFinds discharges the one shape in which the nil way of a phi is "the search found nothing" and the list
// searched is known to hold what is searched for (DESIGN Appendix A: processPluginResponse looks up the authenticity result):
//
//   - the phi's edges are the nil constant and elements of P.VerificationResults, P a parameter of the function, taken
//     under the test `element.Type == K` (K a constant);
//   - the list of the function's call sites is closed, and at every call site a store
//     `A.VerificationResults = append(A.VerificationResults, r)` — A the argument bound to P — is executed before the call on
//     every path, every origin of r being a validation result created with Type K (a literal of the caller, or the result of
//     a module function that creates one);
//   - results are never removed from the list or overwritten (results/failure-never-erased, C02).
func c12SearchAlwaysFinds(w *World, fi *FnInfo, phi *ssa.Phi) (proved, recognised bool) {
	fn := fi.Fn
	K, base := "", ""
	for i, e := range phi.Edges {
		if k, isK := e.(*ssa.Const); isK && k.IsNil() {
			continue
		}
		if _, isPhi := e.(*ssa.Phi); isPhi && e == ssa.Value(phi) {
			continue
		}
		found := false
		for l := range c07PhiEdgeGuards(fi, phi, i) {
			if m := reSearchType.FindStringSubmatch(l); m != nil && strings.HasPrefix(desc(e), m[1]+".VerificationResults[") {
				if K != "" && (K != m[2] || base != m[1]) {
					return false, false
				}
				K, base, found = m[2], m[1], true
			}
		}
		if !found {
			return false, false
		}
	}
	if K == "" {
		return false, false
	}
	idx := -1
	for i, p := range fn.Params {
		if desc(p) == base {
			idx = i
		}
	}
	sites, closed := c07CallSites(w, fn)
	if idx < 0 || !closed || len(sites) == 0 {
		return false, false
	}
	// madeWithK: every origin of v is a validation result created with Type K — an allocation whose Type field is set to the
	// constant (directly, or from a parameter bound to the constant by the calls walked through), or what a module function
	// returns when every Return of it hands back such an object.
	type binding map[*ssa.Parameter]ssa.Value
	resolve := func(v ssa.Value, bind binding) ssa.Value {
		for n := 0; n < 4; n++ {
			pa, ok := v.(*ssa.Parameter)
			if !ok {
				break
			}
			b, ok := bind[pa]
			if !ok {
				break
			}
			v = b
		}
		return v
	}
	var made func(v ssa.Value, bind binding, depth int) bool
	made = func(v ssa.Value, bind binding, depth int) bool {
		if depth > 5 {
			return false
		}
		enter := func(call *ssa.Call, k int) bool {
			g := staticCallee(call)
			if g == nil || g.Blocks == nil || !w.IsProductFn(g) {
				return false
			}
			nb := binding{}
			for pi, pa := range g.Params {
				if pi < len(call.Call.Args) {
					nb[pa] = resolve(call.Call.Args[pi], bind)
				}
			}
			nret := 0
			for _, gb := range g.Blocks {
				if r, ok := blockTerm(gb).(*ssa.Return); ok {
					nret++
					if k >= len(r.Results) || !made(r.Results[k], nb, depth+1) {
						return false
					}
				}
			}
			return nret > 0
		}
		switch x := loadOrigin(resolve(v, bind)).(type) {
		case *ssa.Phi:
			for _, e := range x.Edges {
				if !made(e, bind, depth+1) {
					return false
				}
			}
			return len(x.Edges) > 0
		case *ssa.Alloc:
			if x.Referrers() == nil {
				return false
			}
			for _, r := range *x.Referrers() {
				if fa, ok := r.(*ssa.FieldAddr); ok && fieldName(fa.X.Type(), fa.Field) == "Type" && fa.Referrers() != nil {
					for _, rr := range *fa.Referrers() {
						if st, ok := rr.(*ssa.Store); ok && st.Addr == ssa.Value(fa) {
							if k, ok := resolve(st.Val, bind).(*ssa.Const); ok && constString(k) == K {
								return true
							}
						}
					}
				}
			}
			return false
		case *ssa.Call:
			return enter(x, 0)
		case *ssa.Extract:
			if call, ok := x.Tuple.(*ssa.Call); ok {
				return enter(call, x.Index)
			}
		}
		return false
	}
	madeWithK := func(v ssa.Value, G *ssa.Function, depth int) bool { return made(v, binding{}, depth) }
	var proveSites func(f *ssa.Function, idx int, depth int) bool
	proveSites = func(f *ssa.Function, idx int, depth int) bool {
		fsites, fclosed := c07CallSites(w, f)
		if !fclosed || len(fsites) == 0 || depth > 3 {
			return false
		}
		for _, site := range fsites {
			if idx >= len(site.Call.Args) {
				return false
			}
			A := site.Call.Args[idx]
			G := site.Parent()
			ok := false
			// appended(F, isList, elemOK): the instructions of F that append a result made with K to the list
			var appended func(F *ssa.Function, isOutcome func(ssa.Value) bool, elemOK func(ssa.Value) bool, depth int) []ssa.Instruction
			appended = func(F *ssa.Function, isOutcome func(ssa.Value) bool, elemOK func(ssa.Value) bool, depth int) []ssa.Instruction {
				var out []ssa.Instruction
				if depth > 2 {
					return nil
				}
				for _, b := range F.Blocks {
					for _, in := range b.Instrs {
						switch x := in.(type) {
						case *ssa.Store:
							fa, isFa := x.Addr.(*ssa.FieldAddr)
							if !isFa || fieldName(fa.X.Type(), fa.Field) != "VerificationResults" || !isOutcome(fa.X) {
								continue
							}
							app, isCall := x.Val.(*ssa.Call)
							if !isCall || len(app.Call.Args) != 2 {
								continue
							}
							if bi, isB := app.Call.Value.(*ssa.Builtin); !isB || bi.Name() != "append" {
								continue
							}
							sl, isSl := app.Call.Args[1].(*ssa.Slice)
							if !isSl {
								continue
							}
							arr, isArr := sl.X.(*ssa.Alloc)
							if !isArr || arr.Referrers() == nil {
								continue
							}
							all, n := true, 0
							for _, r := range *arr.Referrers() {
								if ia, isIa := r.(*ssa.IndexAddr); isIa && ia.Referrers() != nil {
									for _, rr := range *ia.Referrers() {
										if est, isE := rr.(*ssa.Store); isE && est.Addr == ssa.Value(ia) {
											n++
											if !elemOK(est.Val) {
												all = false
											}
										}
									}
								}
							}
							if all && n > 0 {
								out = append(out, in)
							}
						case *ssa.Call:
							// a recording helper or closure that is handed the outcome (or captured it) and the result
							var h *ssa.Function
							var mc *ssa.MakeClosure
							if h = staticCallee(x); h == nil {
								if m, isMC := x.Call.Value.(*ssa.MakeClosure); isMC {
									mc = m
									h, _ = m.Fn.(*ssa.Function)
								} else if ld, isLd := loadOrigin(x.Call.Value).(*ssa.MakeClosure); isLd {
									mc = ld
									h, _ = ld.Fn.(*ssa.Function)
								}
							} else if m, isMC := x.Call.Value.(*ssa.MakeClosure); isMC {
								mc = m
							}
							if h == nil || h.Blocks == nil || !w.IsProductFn(h) {
								continue
							}
							args := x.Call.Args
							hOutcome := func(v ssa.Value) bool {
								v = loadOrigin(v)
								if pa, isP := v.(*ssa.Parameter); isP && pa.Parent() == h {
									if pi := c07ParamIndex(h, pa); pi >= 0 && pi < len(args) {
										return isOutcome(args[pi])
									}
								}
								if un, isUn := v.(*ssa.UnOp); isUn {
									if fv, isFV := un.X.(*ssa.FreeVar); isFV && mc != nil {
										for bi, f := range h.FreeVars {
											if f == fv && bi < len(mc.Bindings) {
												if al, isAl := mc.Bindings[bi].(*ssa.Alloc); isAl {
													if sv := onlyDirectStore(al); sv != nil {
														return isOutcome(sv)
													}
												}
											}
										}
									}
								}
								return false
							}
							hElem := func(v ssa.Value) bool {
								if pa, isP := loadOrigin(v).(*ssa.Parameter); isP && pa.Parent() == h {
									if pi := c07ParamIndex(h, pa); pi >= 0 && pi < len(args) {
										return elemOK(args[pi])
									}
									return false
								}
								return madeWithK(v, h, 0)
							}
							inner := appended(h, hOutcome, hElem, depth+1)
							// the helper appends on every path: some append of it is executed before each of its Returns
							every := len(inner) > 0
							for _, hb := range h.Blocks {
								if r, isRet := blockTerm(hb).(*ssa.Return); isRet {
									okR := false
									for _, ap := range inner {
										if c07Before(ap, r) {
											okR = true
										}
									}
									if !okR {
										every = false
									}
								}
							}
							if every {
								out = append(out, in)
							}
						}
					}
				}
				return out
			}
			for _, ap := range appended(G, func(v ssa.Value) bool { return v == A || desc(v) == desc(A) || loadOrigin(v) == loadOrigin(A) }, func(v ssa.Value) bool { return madeWithK(v, G, 0) }, 0) {
				if c07Before(ap, site) {
					ok = true
				}
			}
			if !ok {
				// the outcome is handed on: the calling function received it itself — decided at its own call sites
				if pa, isParam := A.(*ssa.Parameter); isParam && pa.Parent() == G {
					if pi := c07ParamIndex(G, pa); pi >= 0 && proveSites(G, pi, depth+1) {
						continue
					}
				}
				return false
			}
		}
		return true
	}
	return proveSites(fn, idx, 0), true
}

// c12IsSearchPhi: one of the phi's non-nil edges is an element taken out of a collection (a slice or map element, a range
// value): the nil way is "nothing found".
func c12IsSearchPhi(phi *ssa.Phi) bool {
	for _, e := range phi.Edges {
		switch x := e.(type) {
		case *ssa.UnOp:
			if x.Op == token.MUL {
				if _, ok := x.X.(*ssa.IndexAddr); ok {
					return true
				}
			}
		case *ssa.Lookup:
			return true
		case *ssa.Extract:
			if _, ok := x.Tuple.(*ssa.Next); ok {
				return true
			}
		}
	}
	return false
}
