package main

import (
	"bufio"
	"encoding/json"
	"fmt"
	"os"
	"sort"
	"strings"
)

// Status of an obligation.
const (
	Discharged = "discharged"
	Violated   = "violated"
	Undecided  = "undecided"
)

// Obligation is one structural fact a rule had to establish.
type Obligation struct {
	Key    string   `json:"key"`    // <property>/<rule>/<construct>, stable (no line numbers)
	Rule   string   `json:"rule"`   // the rule applied, in words
	Status string   `json:"status"` // discharged | violated | undecided
	Site   string   `json:"site,omitempty"`
	Detail string   `json:"detail,omitempty"`
	Path   []string `json:"path,omitempty"` // witness path for path rules
	Known  bool     `json:"known_finding,omitempty"`
}

// Ctx collects obligations for one property run.
type Ctx struct {
	W        *World
	Prop     string
	Tier     string
	Obls     []*Obligation
	byKey    map[string]*Obligation
	Evals    int // instructions / call sites / paths examined
	FnSeen   map[string]bool
	Notes    []string
	Trusted  []string
	Explain  string
	NotCover string
	Extra    map[string]interface{}
}

func NewCtx(w *World, prop, tier string) *Ctx {
	return &Ctx{W: w, Prop: prop, Tier: tier, byKey: map[string]*Obligation{}, FnSeen: map[string]bool{}, Extra: map[string]interface{}{}}
}

func (c *Ctx) add(o *Obligation) *Obligation {
	o.Key = c.Prop + "/" + o.Key
	if prev, ok := c.byKey[o.Key]; ok {
		// keep the worst status for a repeated key
		rank := map[string]int{Discharged: 0, Undecided: 1, Violated: 2}
		if rank[o.Status] > rank[prev.Status] {
			*prev = *o
		}
		return prev
	}
	c.byKey[o.Key] = o
	c.Obls = append(c.Obls, o)
	return o
}

// OK records a discharged obligation.
func (c *Ctx) OK(key, rule, site string) {
	c.add(&Obligation{Key: key, Rule: rule, Status: Discharged, Site: site})
}

// Bad records a violated obligation.
func (c *Ctx) Bad(key, rule, site, detail string, path ...string) {
	c.add(&Obligation{Key: key, Rule: rule, Status: Violated, Site: site, Detail: detail, Path: path})
}

// Unk records an undecided obligation (anchor missing, idiom not recognised).
func (c *Ctx) Unk(key, rule, site, detail string) {
	c.add(&Obligation{Key: key, Rule: rule, Status: Undecided, Site: site, Detail: detail})
}

// Check records OK or Bad depending on cond.
func (c *Ctx) Check(cond bool, key, rule, site, detail string, path ...string) bool {
	if cond {
		c.OK(key, rule, site)
	} else {
		c.Bad(key, rule, site, detail, path...)
	}
	return cond
}

// MinCount fails if fewer than n obligations with the given key prefix exist
// (vacuity guard).
func (c *Ctx) MinCount(prefix string, n int, what string) {
	cnt := 0
	for _, o := range c.Obls {
		if strings.HasPrefix(o.Key, c.Prop+"/"+prefix) {
			cnt++
		}
	}
	if cnt < n {
		c.Unk(prefix+"#count", "vacuity guard: at least "+fmt.Sprint(n)+" instances of "+what+" were confirmed by hand on the reference tree", "-",
			fmt.Sprintf("only %d instance(s) found: the rule no longer matches the code it was written for", cnt))
	} else {
		c.OK(prefix+"#count", "vacuity guard: at least "+fmt.Sprint(n)+" instances of "+what, "-")
	}
}

// importObls runs another property's rule set on the same world and records the obligations selected by keep under this
// property, with the given key prefix (a clause that two properties share is decided once, by one rule, and reported for both).
func (c *Ctx) importObls(prop string, run func(*Ctx), prefix string, keep func(key string) bool) {
	sub := NewCtx(c.W, prop, c.Tier)
	run(sub)
	c.Evals += sub.Evals
	for f := range sub.FnSeen {
		c.FnSeen[f] = true
	}
	for _, o := range sub.Obls {
		k := strings.TrimPrefix(o.Key, prop+"/")
		if strings.HasSuffix(k, "#count") || !keep(k) {
			continue
		}
		c.add(&Obligation{Key: prefix + k, Rule: o.Rule + " [rule of " + prop + "]", Status: o.Status, Site: o.Site, Detail: o.Detail, Path: o.Path})
	}
}

func (c *Ctx) SeenFn(name string) { c.FnSeen[name] = true }

// KnownFinding is one line of known_findings.txt.
type KnownFinding struct {
	Prop, Key, Text string
}

func loadKnownFindings(path string) ([]KnownFinding, error) {
	f, err := os.Open(path)
	if err != nil {
		if os.IsNotExist(err) {
			return nil, nil
		}
		return nil, err
	}
	defer f.Close()
	var out []KnownFinding
	sc := bufio.NewScanner(f)
	sc.Buffer(make([]byte, 1<<20), 1<<20)
	for sc.Scan() {
		line := strings.TrimSpace(sc.Text())
		if !strings.HasPrefix(line, "known:") {
			continue
		}
		rest := strings.TrimSpace(strings.TrimPrefix(line, "known:"))
		var kf KnownFinding
		fields := strings.Fields(rest)
		n := 0
		for _, f := range fields {
			if strings.HasPrefix(f, "property=") {
				kf.Prop = strings.TrimPrefix(f, "property=")
				n++
			} else if strings.HasPrefix(f, "key=") {
				kf.Key = strings.TrimPrefix(f, "key=")
				n++
			} else {
				break
			}
		}
		kf.Text = strings.Join(fields[n:], " ")
		if kf.Prop != "" && kf.Key != "" {
			out = append(out, kf)
		}
	}
	return out, sc.Err()
}

// Evidence mirrors EVIDENCE.schema.json.
type Evidence struct {
	PropertyID  string                 `json:"property_id"`
	Tier        string                 `json:"tier"`
	Seed        int64                  `json:"seed"`
	Level       string                 `json:"level"`
	Coverage    map[string]interface{} `json:"coverage"`
	Assumptions []string               `json:"assumptions"`
	WallS       float64                `json:"wall_s"`
	Violations  int                    `json:"violations"`
}

func writeJSON(path string, v interface{}) error {
	b, err := json.MarshalIndent(v, "", " ")
	if err != nil {
		return err
	}
	tmp := path + ".tmp"
	if err := os.WriteFile(tmp, append(b, '\n'), 0644); err != nil {
		return err
	}
	return os.Rename(tmp, path)
}

func sortedKeys(m map[string]bool) []string {
	var r []string
	for k := range m {
		r = append(r, k)
	}
	sort.Strings(r)
	return r
}
