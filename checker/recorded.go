package main

import (
	"fmt"
	"go/token"

	"golang.org/x/tools/go/ssa"
)

// The failure of the native identity check is recorded (C04, found by the second guard-mutant run of DESIGN §8.9).
//
// The identity verifier hands back an error; whether that error counts is decided later, by the level (C02). In between
// stands one statement: `if err != nil { authenticityResult.Error = err }`. It does not leave the flow, so no rule about
// exits sees it, and with it weakened (`if strict && err != nil`) a signing certificate that matches no trusted identity
// is accepted under every level: everything C04 decides about the verifier's inside is then beside the point.
//
// Rule (cut set): from a call of the identity verifier (by role: the function of package verifier that is handed the
// identity list and the certificate chain and returns only an error) every path to a success-capable exit of the calling
// function passes the edge on which that error is nil, or a store of that error into the Error field of a validation
// result. Decided on SSA values: the comparison is one of the call's value with nil in either spelling (or an edge the
// engine labels so, e.g. through a predicate helper); a store in the call's own block (recorded unconditionally) discharges
// at once. What happens to a recorded error is C02's rule (b).
func init() {
	alsoRun["C04"] = append(alsoRun["C04"], c04FailureRecorded)
}

func c04FailureRecorded(c *Ctx) {
	w := c.W
	rule := "the failure of the identity check is recorded: from the call of the identity verifier every path to a success-capable exit of the caller passes the edge on which the verifier's error is nil, or a store of that error into the Error field of a validation result (which the level then judges)"
	n := 0
	for _, V := range w.FuncsOfPkg("verifier") {
		if V.Parent() != nil || V.Blocks == nil {
			continue
		}
		if ce, id := c04Params(V); ce == nil || id == nil {
			continue
		}
		res := V.Signature.Results()
		if res.Len() != 1 || !isErrorType(res.At(0).Type()) {
			continue
		}
		for _, F := range w.Funcs {
			if !w.IsProductFn(F) || F.Blocks == nil {
				continue
			}
			for _, ci := range allCalls(F) {
				call, ok := ci.(*ssa.Call)
				if !ok || staticCallee(call) != V {
					continue
				}
				n++
				c.Evals++
				c.SeenFn(F.String())
				key := fmt.Sprintf("verifier/failure-recorded/%s#%d", fnName(F), n)
				if nres := F.Signature.Results().Len(); nres == 0 || !isErrorType(F.Signature.Results().At(nres-1).Type()) {
					c.Unk(key, rule, w.InstrPos(call), "the caller has no error result: what a success of it is cannot be told")
					continue
				}
				fi := w.Info(F)
				// values that are the verifier's error: the call, and phis all of whose other edges are nil
				isErr := func(v ssa.Value) bool {
					if v == ssa.Value(call) {
						return true
					}
					if p, ok := v.(*ssa.Phi); ok {
						has := false
						for _, e := range p.Edges {
							switch {
							case e == ssa.Value(call):
								has = true
							case isNilConst(e):
							default:
								return false
							}
						}
						return has
					}
					return false
				}
				cut := map[edgeKey]bool{}
				lbl := "EQ(" + desc(call) + ",nil)"
				for _, b := range F.Blocks {
					iff, ok := blockTerm(b).(*ssa.If)
					if !ok {
						continue
					}
					for j := 0; j < 2; j++ {
						if condLabel(iff.Cond, j == 0) == lbl {
							cut[edgeKey{b.Index, j}] = true
						}
					}
					cond, neg := iff.Cond, false
					for {
						u, ok := cond.(*ssa.UnOp)
						if !ok || u.Op != token.NOT {
							break
						}
						cond, neg = u.X, !neg
					}
					if bo, ok := cond.(*ssa.BinOp); ok && (bo.Op == token.EQL || bo.Op == token.NEQ) {
						var o ssa.Value
						if isNilConst(bo.Y) {
							o = bo.X
						} else if isNilConst(bo.X) {
							o = bo.Y
						}
						if o != nil && isErr(o) {
							nilOnTrue := (bo.Op == token.EQL) != neg
							if nilOnTrue {
								cut[edgeKey{b.Index, 0}] = true
							} else {
								cut[edgeKey{b.Index, 1}] = true
							}
						}
					}
				}
				recordedAtOnce := false
				for _, b := range F.Blocks {
					for _, in := range b.Instrs {
						// recorded by a module helper that is handed the result and the error and stores that parameter into
						// the Error field on every path (`recordFailure(result, err)`)
						if hc, isCall := in.(*ssa.Call); isCall && hc != call {
							if g := staticCallee(hc); g != nil && g.Blocks != nil && w.IsProductFn(g) {
								for i, a := range hc.Call.Args {
									if isErr(a) && i < len(g.Params) && c02StoresParamIntoError(g, g.Params[i]) {
										if b == call.Block() {
											recordedAtOnce = true
										} else {
											cutInto(fi, b, cut)
										}
									}
								}
							}
						}
						st, ok := in.(*ssa.Store)
						if !ok || !isErr(st.Val) {
							continue
						}
						fa, ok := st.Addr.(*ssa.FieldAddr)
						if !ok || fieldName(fa.X.Type(), fa.Field) != "Error" || namedOf(fa.X.Type()) != "ngo.ValidationResult" {
							continue
						}
						if b == call.Block() {
							recordedAtOnce = true
						} else {
							cutInto(fi, b, cut)
						}
					}
				}
				if recordedAtOnce {
					c.OK(key, rule, w.InstrPos(call))
					continue
				}
				wit := fi.successWitness(Mode{Kind: mErr}, []state{{call.Block().Index, 0, -1}}, cut)
				c.Check(wit == nil, key, rule, w.InstrPos(call), "a success-capable exit is reachable from the identity check without passing `error == nil` and without recording the error in a validation result: a certificate that matches no trusted identity can be accepted", wit...)
			}
		}
	}
	if n == 0 {
		c.Unk("verifier/failure-recorded#count", "vacuity guard: the identity verifier is called", "-", "no call of a function of package verifier that is handed the identity list and the certificate chain and returns an error")
	}
}
