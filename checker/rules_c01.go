package main

import (
	"go/types"
	"fmt"
	"go/token"
	"regexp"
	"strings"

	"golang.org/x/tools/go/ssa"
)

func init() {
	register(&Rule{
		ID:    "C01",
		Title: "accepted signatures are intact and bound to the artifact",
		Run:   runC01,
		Explain: "E1 must-check/fail-closed on the verifier entry points found by interface ((*verifier).Verify / VerifyBlob, notation.VerifyBlob): " +
			"every success-capable exit that is not behind the level==skip gate is reachable only through the passing edges of " +
			"ParseEnvelope(err==nil), Envelope.Verify(err==nil), payload content type == envelope.MediaTypePayloadV1, json.Unmarshal(Payload.Content -> *envelope.Payload)(err==nil), " +
			"content.Equal(signed target, desc parameter) for OCI; for blobs the algorithm-table lookup keyed by the signature algorithm's hash, the descriptor generator applied to that digest algorithm, " +
			"Digest and Size equality with the signed target and a media-type equality that can be bypassed only by desc.MediaType==\"\"; required user metadata: the metadata check's err==nil edge " +
			"(bypassed only by len(UserMetadata)==0) and, inside it, a per-entry comma-ok lookup and value equality over the caller's map with no early success; " +
			"soft failures are sticky (a later store of a possibly-nil value into outcome.Error re-opens the exit and is reported); " +
			"integrity is 'enforce' in the three non-skip level literals and the custom-level store is cut by type != integrity. " +
			"Checks are located through composition over module-internal calls with labels rewritten into the entry point's frame, so helper names are not anchors.",
		NotCov:  "cryptographic validity of the signature, envelope parsing, content.Equal's body, JSON duplicate-key semantics (trusted: notation-core-go, oras-go, encoding/json).",
		Trusted: []string{"go/types, go/ssa (x/tools v0.29.0)", "notation-core-go signature.ParseEnvelope / Envelope.Verify", "oras-go content.Equal", "encoding/json"},
	})
}

// isSkipLabel: the fact "the applicable verification level is skip".
func isSkipLabel(l string) bool {
	if !(strings.HasPrefix(l, "T(") || strings.HasPrefix(l, "EQ(")) {
		return false
	}
	if !strings.Contains(l, "GetVerificationLevel(") {
		return false
	}
	return strings.Contains(l, "global:ngo/verifier/trustpolicy.LevelSkip") || strings.Contains(l, `const:"skip"`)
}

func skipEdges(fi *FnInfo) map[edgeKey]bool {
	return fi.edgesMatching(func(l string, _ *ssa.If, _ bool) bool { return isSkipLabel(l) })
}

// nonSkipSummary summarises fn with the skip edges removed.
func nonSkipSummary(w *World, fn *ssa.Function) (*Summary, int) {
	fi := w.Info(fn)
	se := skipEdges(fi)
	return fi.summarizeFrom(Mode{Kind: mErr}, entryState(), se), len(se)
}

var reUnmarshalPayload = regexp.MustCompile(`^EQ\(call:encoding/json\.Unmarshal\((.+)\.EnvelopeContent\.Payload\.Content,(alloc:ngo/internal/envelope\.Payload<[^>]*>)\)#err,nil\)$`)

func integrityNeeds(w *World, fn *ssa.Function) []Need {
	pt, _ := w.constString("internal/envelope", "MediaTypePayloadV1")
	q := regexp.QuoteMeta
	sig, opts := q(paramWhere(fn, isByteSlice)), q(paramWhere(fn, hasField("SignatureMediaType")))
	return []Need{
		{Name: "parse-envelope", What: "signature.ParseEnvelope(mediaType, signature bytes) err == nil, applied to the entry point's signature and media-type parameters",
			Re: regexp.MustCompile(`^EQ\(call:core/signature\.ParseEnvelope\(` + opts + `\.SignatureMediaType,` + sig + `\)#err,nil\)$`)},
		{Name: "envelope-verify", What: "Envelope.Verify() err == nil on the envelope that was parsed",
			Re: regexp.MustCompile(`^EQ\(call:invoke:core/signature\.Envelope\.Verify\(call:core/signature\.ParseEnvelope\(` + opts + `\.SignatureMediaType,` + sig + `\)#0\)#err,nil\)$`)},
		{Name: "payload-type", What: "content type of the verified payload == envelope.MediaTypePayloadV1",
			Re: regexp.MustCompile(`^EQ\(call:invoke:core/signature\.Envelope\.Verify\(.*\)#0\.Payload\.ContentType,const:` + regexp.QuoteMeta(fmt.Sprintf("%q", pt)) + `\)$`)},
	}
}

func runC01(c *Ctx) {
	w := c.W
	// ---- OCI ---------------------------------------------------------------
	ocis := w.implementers("", "Verifier", "Verify")
	if len(ocis) == 0 {
		c.Unk("oci/entry", "anchor: a product type implementing notation.Verifier", "-", "no implementation of notation.Verifier found")
	}
	for _, fn := range ocis {
		c01Entry(c, fn, "oci")
	}
	// ---- blob --------------------------------------------------------------
	blobs := w.implementers("", "BlobVerifier", "VerifyBlob")
	if len(blobs) == 0 {
		c.Unk("blob/entry", "anchor: a product type implementing notation.BlobVerifier", "-", "no implementation of notation.BlobVerifier found")
	}
	for _, fn := range blobs {
		c01Entry(c, fn, "blob")
	}
	// ---- wrapper -----------------------------------------------------------
	if fn := w.Func("", "VerifyBlob"); fn != nil {
		s := w.Summarize(fn, Mode{Kind: mErr})
		c.requireOnExits("wrapper/notation.VerifyBlob", fn, s.Exits, []Need{
			{Name: "verifier-success", What: "BlobVerifier.VerifyBlob(...) err == nil (the wrapper adds no success of its own)",
				Subs: []string{"EQ(call:invoke:ngo.BlobVerifier.VerifyBlob(", "#err,nil)"}},
		})
	} else {
		c.Unk("wrapper/notation.VerifyBlob", "anchor: notation.VerifyBlob", "-", "function not found")
	}
	// ---- the caller's requirement maps are never modified --------------------
	{
		var entries []*ssa.Function
		entries = append(entries, ocis...)
		entries = append(entries, blobs...)
		for _, n := range []string{"Verify", "VerifyBlob"} {
			if fn := w.Func("", n); fn != nil {
				entries = append(entries, fn)
			}
		}
		rule := "ownership: no map update, delete or clear on the verification call tree targets a map that belongs to the caller (required user metadata, plugin config): the requirement checked for one signature is the requirement checked for the next"
		_, nw := ownershipWrites(c, entries, rule, true)
		c.Extra["verification_map_writes"] = nw
	}
	c01Levels(c)
	c.MinCount("oci/", 8, "OCI binding obligations")
	c.MinCount("blob/", 12, "blob binding obligations")
}

func c01Entry(c *Ctx, fn *ssa.Function, kind string) {
	w := c.W
	fi := w.Info(fn)
	c.SeenFn(fn.String())
	sum, nskip := nonSkipSummary(w, fn)
	c.Evals += sum.States
	pre := kind
	if nskip == 0 {
		c.Notes = append(c.Notes, fnName(fn)+": no level==skip gate recognised; every success exit is treated as non-skip")
	}
	c.requireOnExits(pre, fn, sum.Exits, integrityNeeds(w, fn))

	// payload decode: Unmarshal(outcome.EnvelopeContent.Payload.Content, *envelope.Payload)
	var payloadAlloc, outcomeDesc string
	okDecode := len(sum.Exits) > 0
	for _, ex := range sum.Exits {
		found := false
		for _, l := range labelList(ex.Checked) {
			if m := reUnmarshalPayload.FindStringSubmatch(l); m != nil {
				found = true
				if payloadAlloc == "" {
					outcomeDesc, payloadAlloc = m[1], m[2]
				} else if payloadAlloc != m[2] {
					found = false
				}
			}
		}
		if !found {
			okDecode = false
			c.Bad(pre+"/payload-decode", "must-check: json.Unmarshal(outcome.EnvelopeContent.Payload.Content, *envelope.Payload) err == nil on every non-skip success exit",
				w.InstrPos(ex.Ret), "exit reachable without decoding the verified payload into envelope.Payload; facts: "+summarizeLabels(ex.Checked, 10))
			break
		}
	}
	if okDecode {
		c.OK(pre+"/payload-decode", "must-check: json.Unmarshal(outcome.EnvelopeContent.Payload.Content, *envelope.Payload) err == nil on every non-skip success exit", w.FnPos(fn))
	}
	if payloadAlloc == "" {
		c.Unk(pre+"/binding", "binding comparisons need the decoded payload object", w.FnPos(fn), "payload decode not recognised")
		return
	}
	// the outcome whose content is decoded is the one handed to the signature processing and returned
	retOutcomeOK := true
	for _, ex := range sum.Exits {
		if len(ex.Ret.Results) < 1 || desc(ex.Ret.Results[0]) != outcomeDesc {
			retOutcomeOK = false
		}
		okProc := false
		reProc := regexp.MustCompile(`^EQ\(call:\(?\*?ngo/[^(]*\((.*,)?` + regexp.QuoteMeta(outcomeDesc) + `(,.*)?\)#(err|\d+\.Error),nil\)$`)
		for l := range ex.Checked {
			if reProc.MatchString(l) {
				okProc = true
			}
		}
		if !okProc {
			retOutcomeOK = false
		}
	}
	c.Check(retOutcomeOK, pre+"/same-outcome", "provenance: the payload decoded is the content of the outcome object that went through integrity verification, and that object is returned",
		w.FnPos(fn), "the decoded payload does not belong to the outcome that was verified/returned ("+outcomeDesc+")")

	ta := payloadAlloc + ".TargetArtifact"
	if kind == "oci" {
		q := regexp.QuoteMeta
		pd := q(paramWhere(fn, isNamed("ocispec.Descriptor")))
		reEq := regexp.MustCompile(`^T\(call:oras/content\.Equal\((` + q(ta) + `,` + pd + `|` + pd + `,` + q(ta) + `)\)\)$`)
		pdRaw := paramWhere(fn, isNamed("ocispec.Descriptor"))
		// content.Equal compares exactly media type, digest and size: the three field equalities are the same check
		var viaFields []*ExitSum
		var viaCall []*ExitSum
		for _, ex := range sum.Exits {
			three := true
			for _, f := range []string{"MediaType", "Digest", "Size"} {
				if !labelHas(ex.Checked, "EQ("+ta+"."+f+","+pdRaw+"."+f+")") {
					three = false
				}
			}
			if three {
				viaFields = append(viaFields, ex)
			} else {
				viaCall = append(viaCall, ex)
			}
		}
		if len(viaFields) > 0 && len(viaCall) == 0 {
			c.OK(pre+"/descriptor-equal", "must-check: every success-capable exit of "+fnName(fn)+" is reachable only through the passing edge of: media type, digest and size of the signed payload target each equal to those of the desc parameter (what content.Equal compares)", w.FnPos(fn))
		} else {
			c.requireOnExits(pre, fn, viaCall, []Need{
				{Name: "descriptor-equal", What: "content.Equal(signed payload target, desc parameter) == true (or the three field equalities)", Re: reEq},
			})
		}
	} else {
		c01BlobBinding(c, fn, fi, sum, ta, outcomeDesc)
	}
	c01Metadata(c, fn, fi, payloadAlloc, pre)
}

func c01BlobBinding(c *Ctx, fn *ssa.Function, fi *FnInfo, sum *Summary, ta, outcomeDesc string) {
	w := c.W
	q := regexp.QuoteMeta
	hash := `call:\(core/internal/algorithm\.Algorithm\)\.Hash\((` + q(outcomeDesc) + `\.EnvelopeContent\.SignerInfo\.SignatureAlgorithm|…)\)`
	lookup := `global:ngo/verifier\.` + q(w.globalWhere("verifier", isHashDigestMap)) + `\[` + hash + `\]`
	gen := `call:dyn:` + q(paramWhere(fn, isFuncType)) + `\(` + lookup + `\)`
	both := func(a, b string) string { return `(` + a + `,` + b + `|` + b + `,` + a + `)` }
	c.requireOnExits("blob", fn, sum.Exits, []Need{
		{Name: "algorithm-lookup", What: "digest algorithm = algorithms[hash of the signature algorithm of the verified envelope], lookup miss fail-closed",
			Re: regexp.MustCompile(`^T\(ok\(` + lookup + `\)\)$`)},
		{Name: "generator", What: "descriptor generator applied to that digest algorithm, err == nil",
			Re: regexp.MustCompile(`^EQ\(` + gen + `#err,nil\)$`)},
		{Name: "digest-equal", What: "generated descriptor Digest == signed target Digest",
			Re: regexp.MustCompile(`^EQ\(` + both(gen+`#0\.Digest`, q(ta)+`\.Digest`) + `\)$`)},
		{Name: "size-equal", What: "generated descriptor Size == signed target Size",
			Re: regexp.MustCompile(`^EQ\(` + both(gen+`#0\.Size`, q(ta)+`\.Size`) + `\)$`)},
	})
	// media type: pass = (desc.MediaType == "") or (desc.MediaType == target.MediaType)
	reMT := regexp.MustCompile(`^EQ\(` + both(gen+`#0\.MediaType`, q(ta)+`\.MediaType`) + `\)$`)
	reEmpty := regexp.MustCompile(`^EQ\(` + both(gen+`#0\.MediaType`, `const:""`) + `\)$`)
	cut := skipEdges(fi)
	nMT, nEmpty := 0, 0
	// a disjunction of the two facts (the value of `mt != "" && mt != signed` tested as one condition)
	isOrOfBoth := func(l string) bool {
		op, alts := splitTopArgs(l)
		if op != "OR" || len(alts) == 0 {
			return false
		}
		hasMT := false
		for _, a := range alts {
			if reMT.MatchString(a) {
				hasMT = true
			} else if !reEmpty.MatchString(a) {
				return false
			}
		}
		return hasMT
	}
	for e := range fi.edgesMatching(func(l string, _ *ssa.If, _ bool) bool { return reMT.MatchString(l) || isOrOfBoth(l) }) {
		cut[e] = true
		nMT++
	}
	for e := range fi.edgesMatching(func(l string, _ *ssa.If, _ bool) bool { return reEmpty.MatchString(l) }) {
		cut[e] = true
		nEmpty++
	}
	rule := "must-check (disjunctive): every non-skip success exit passes desc.MediaType == signed MediaType, bypassable only by desc.MediaType == \"\""
	if nMT == 0 {
		// the comparison may live in a boolean helper whose answer gates success: then every exit of the helper with
		// that answer must carry one of the two facts
		okHelper := false
		for _, ci := range allCalls(fn) {
			call, isC := ci.(*ssa.Call)
			if !isC {
				continue
			}
			b, isB := call.Type().Underlying().(*types.Basic)
			if !isB || b.Kind() != types.Bool || staticCallee(call) == nil || !w.IsProductFn(staticCallee(call)) {
				continue
			}
			for _, want := range []bool{false, true} {
				lbl := "F(" + desc(call) + ")"
				if want {
					lbl = "T(" + desc(call) + ")"
				}
				onAll := len(sum.Exits) > 0
				for _, ex := range sum.Exits {
					if _, h := ex.Checked[lbl]; !h {
						onAll = false
					}
				}
				if !onAll {
					continue
				}
				exits := w.exitLabelsOfCall(call, Mode{Kind: mBool, Want: want})
				good := len(exits) > 0
				for _, m := range exits {
					has := false
					for l := range m {
						if reMT.MatchString(l) || reEmpty.MatchString(l) {
							has = true
						}
						// a disjunction all of whose alternatives are one of the two facts
						if op, alts := splitTopArgs(l); op == "OR" && len(alts) > 0 {
							all := true
							for _, a := range alts {
								if !reMT.MatchString(a) && !reEmpty.MatchString(a) {
									all = false
								}
							}
							if all {
								has = true
							}
						}
					}
					if !has {
						good = false
					}
				}
				if good {
					okHelper = true
				}
			}
		}
		c.Evals++
		if okHelper {
			c.OK("blob/mediatype-equal", rule+" (decided inside a boolean helper whose answer gates every non-skip success exit)", w.FnPos(fn))
			return
		}
		c.Bad("blob/mediatype-equal", rule, w.FnPos(fn), "no comparison between the generated descriptor's MediaType and the signed target's MediaType exists")
		return
	}
	if path := fi.successWitness(Mode{Kind: mErr}, entryState(), cut); path != nil {
		c.Bad("blob/mediatype-equal", rule, w.FnPos(fn), "a non-skip success exit is reachable without the media type comparison", path...)
	} else {
		c.OK("blob/mediatype-equal", rule, w.FnPos(fn))
	}
	c.Evals += 2
}

// c01Metadata: required user metadata. Recursive path obligation: on every
// non-skip success path of fn, either the required-metadata map is empty, or a
// metadata verifier M (a function whose loop over that map passes the
// per-entry gates against the signed payload's annotations) returned nil, or a
// module callee that received the map satisfies the same obligation.
func c01Metadata(c *Ctx, fn *ssa.Function, fi *FnInfo, payloadAlloc, pre string) {
	w := c.W
	rule := "path obligation (recursive through module calls): on every non-skip success path the required-metadata check over the signed payload's annotations returned nil, bypassable only by len(UserMetadata) == 0"
	memo := map[string]bool{}
	var verifiers []string
	ok, wit, site := c01MetaHolds(c, fn, paramWhere(fn, hasField("UserMetadata"))+".UserMetadata", map[string]string{payloadAlloc: "payload"}, true, 0, memo, &verifiers, pre)
	c.Evals++
	if ok {
		c.OK(pre+"/metadata-gate", rule, site)
	} else {
		c.Bad(pre+"/metadata-gate", rule, site, "a non-skip success exit is reachable although the metadata check failed or was not made on that path (e.g. its result is stored unconditionally and overwrites an earlier failure, or an early return bypasses it)", wit...)
	}
	if len(verifiers) == 0 {
		c.Bad(pre+"/metadata-loop", "per-entry gate: a loop over the required metadata with comma-ok lookup and value equality against the signed annotations", w.FnPos(fn), "no function on the call tree checks the required metadata entry by entry against the signed payload")
	}
}

// c01MetaHolds decides the path obligation for fn. payloads maps descriptions
// (in fn's frame) of values known to be the decoded signed payload
// ("payload") or the verified signature.Payload / EnvelopeContent ("raw").
func c01MetaHolds(c *Ctx, fn *ssa.Function, metaDesc string, payloads map[string]string, nonSkip bool, depth int, memo map[string]bool, verifiers *[]string, pre string) (bool, []string, string) {
	w := c.W
	fi := w.Info(fn)
	c.SeenFn(fn.String())
	site := w.FnPos(fn)
	if depth > 4 {
		return false, nil, site
	}
	cut := map[edgeKey]bool{}
	if nonSkip {
		cut = skipEdges(fi)
	}
	for e := range fi.edgesMatching(func(l string, _ *ssa.If, _ bool) bool {
		return l == "LE(len("+metaDesc+"),const:0)" || l == "EQ(len("+metaDesc+"),const:0)" || l == "LT(len("+metaDesc+"),const:1)" || l == "EQ("+metaDesc+",nil)"
	}) {
		cut[e] = true
	}
	// the function itself may be a verifier (loop over metaDesc)
	if annD, ok := c01FindPayloadAnnotations(w, fn, payloads); ok {
		if c01MetadataLoop(c, fn, metaDesc, annD, pre, false) {
			*verifiers = append(*verifiers, fnName(fn))
			c01MetadataLoop(c, fn, metaDesc, annD, pre, true)
			return true, nil, site
		}
	}
	goodTail := map[*ssa.Call]bool{}
	for _, ci := range allCalls(fn) {
		call, ok := ci.(*ssa.Call)
		if !ok {
			continue
		}
		g := staticCallee(call)
		if g == nil || g.Blocks == nil || !w.IsProductFn(g) || len(call.Call.Args) != len(g.Params) {
			continue
		}
		mp := ""
		sub := map[string]string{}
		for i, a := range call.Call.Args {
			d := desc(a)
			if d == metaDesc {
				mp = "param:" + g.Params[i].Name()
			}
			if kind, ok := payloads[d]; ok {
				sub["param:"+g.Params[i].Name()] = kind
			}
			// the verified outcome / envelope content handed down
			if strings.HasSuffix(d, ".EnvelopeContent.Payload") || strings.HasSuffix(d, ".EnvelopeContent") {
				sub["param:"+g.Params[i].Name()] = "raw:" + strings.TrimPrefix(d[strings.LastIndex(d, ".EnvelopeContent"):], ".EnvelopeContent")
			}
			if namedOf(a.Type()) == "ngo.VerificationOutcome" {
				sub["param:"+g.Params[i].Name()] = "outcome"
			}
		}
		if mp == "" {
			continue
		}
		k := fnName(g) + "|" + mp
		res, done := memo[k]
		if !done {
			memo[k] = false
			res, _, _ = c01MetaHolds(c, g, mp, sub, false, depth+1, memo, verifiers, pre)
			memo[k] = res
		}
		if !res {
			continue
		}
		site = w.InstrPos(call)
		lbl := "EQ(" + descTailErr(call) + ",nil)"
		for e := range fi.edgesMatching(func(l string, _ *ssa.If, _ bool) bool { return l == lbl }) {
			cut[e] = true
		}
		goodTail[call] = true
	}
	fi.ignoreTail = goodTail
	wit := fi.successWitness(Mode{Kind: mErr}, entryState(), cut)
	fi.ignoreTail = nil
	return wit == nil, wit, site
}

// c01FindPayloadAnnotations returns the description, in fn's frame, of the
// signed payload's annotations map: <payload>.TargetArtifact.Annotations where
// <payload> is a known decoded payload, or a local envelope.Payload decoded in
// fn (json.Unmarshal, error checked on every success path) from the verified
// payload content.
func c01FindPayloadAnnotations(w *World, fn *ssa.Function, payloads map[string]string) (string, bool) {
	for d, kind := range payloads {
		if kind == "payload" {
			return d + ".TargetArtifact.Annotations", true
		}
	}
	s := w.Summarize(fn, Mode{Kind: mErr})
	for l := range s.Checked {
		m := reUnmarshalAny.FindStringSubmatch(l)
		if m == nil {
			continue
		}
		src, dst := m[1], m[2]
		for d, kind := range payloads {
			switch {
			case strings.HasPrefix(kind, "raw:") && src == d+strings.TrimPrefix(".Payload.Content", strings.TrimPrefix(kind, "raw:")):
				return dst + ".TargetArtifact.Annotations", true
			case kind == "outcome" && src == d+".EnvelopeContent.Payload.Content":
				return dst + ".TargetArtifact.Annotations", true
			}
		}
	}
	return "", false
}

var reUnmarshalAny = regexp.MustCompile(`^EQ\(call:encoding/json\.Unmarshal\((.+),(alloc:ngo/internal/envelope\.Payload<[^>]*>)\)#err,nil\)$`)

// c01MetadataLoop: in fn, a range loop over metaDesc whose every completed
// iteration passes ok(annDesc[key]) and value equality; success only after the loop.
func c01MetadataLoop(c *Ctx, fn *ssa.Function, metaDesc, annDesc, pre string, report bool) bool {
	w := c.W
	fi := w.Info(fn)
	c.SeenFn(fn.String())
	if !report {
		// dry run: decide without recording obligations
		saved := c.Obls
		savedKeys := map[string]*Obligation{}
		for k, v := range c.byKey {
			savedKeys[k] = v
		}
		res := c01MetadataLoop(c, fn, metaDesc, annDesc, pre, true)
		c.Obls = saved
		c.byKey = savedKeys
		return res
	}
	rule := "per-entry gate: the loop ranges over the caller's required metadata; every completed iteration passes the comma-ok lookup in the signed annotations and the value equality; no success exit is reachable from inside the body"
	var loop *rangeLoop
	for _, rl := range rangeLoops(fn) {
		rl := rl
		if desc(rl.X) == metaDesc {
			loop = &rl
		}
	}
	if loop == nil {
		c.Bad(pre+"/metadata-loop", rule, w.FnPos(fn), "no range loop over the required metadata map ("+metaDesc+") in "+fnName(fn))
		return false
	}
	labels, ok := fi.mustPassBetween([]int{loop.Body.Index}, map[int]bool{loop.Header.Index: true})
	c.Evals++
	key := "rangekey(" + metaDesc + ")"
	val := "rangeval(" + metaDesc + ")"
	lookup := annDesc + "[" + key + "]"
	if !ok {
		c.Unk(pre+"/metadata-loop", rule, w.InstrPos(loop.Next), "loop body never returns to the loop header: shape not recognised")
		return false
	}
	_, okLookup := labels["T(ok("+lookup+"))"]
	_, okEq1 := labels["EQ("+lookup+","+val+")"]
	_, okEq2 := labels["EQ("+val+","+lookup+")"]
	if !okLookup || !(okEq1 || okEq2) {
		c.Bad(pre+"/metadata-loop", rule, w.InstrPos(loop.Next), "an iteration can complete without T(ok("+lookup+")) and EQ("+lookup+","+val+"); facts on every completed iteration: "+summarizeLabels(labels, 8))
		return false
	}
	// no success exit from inside the body without going through the header
	cut := map[edgeKey]bool{}
	for _, p := range loop.Header.Preds {
		for j, s := range p.Succs {
			if s == loop.Header && loopBlocks(loop.Header)[p.Index] && p != loop.Header {
				cut[edgeKey{p.Index, j}] = true
			}
		}
	}
	if path := fi.successWitness(Mode{Kind: mErr}, []state{{loop.Body.Index, 0, -1}}, cut); path != nil {
		c.Bad(pre+"/metadata-loop", rule, w.InstrPos(loop.Next), "a success exit is reachable from inside the loop body (early success before all pairs are checked)", path...)
		return false
	}
	c.OK(pre+"/metadata-loop", rule, w.InstrPos(loop.Next))
	return true
}

// c01Levels: integrity is enforce in every non-skip level and cannot be overridden.
func c01Levels(c *Ctx) {
	w := c.W
	ti, _ := w.constString("verifier/trustpolicy", "TypeIntegrity")
	ae, _ := w.constString("verifier/trustpolicy", "ActionEnforce")
	for _, lv := range []string{"LevelStrict", "LevelPermissive", "LevelAudit"} {
		key := "levels/" + lv + "/integrity-enforce"
		rule := "constant table: the Enforcement map literal of " + lv + " maps TypeIntegrity to ActionEnforce"
		e, p := w.pkgVarInit("verifier/trustpolicy", lv)
		if e == nil {
			c.Unk(key, rule, "-", "variable not found")
			continue
		}
		m, ok := mapLiteral(p, structLitField(e, "Enforcement"))
		if !ok {
			c.Unk(key, rule, w.Pos(e.Pos()), "Enforcement is not a constant map literal")
			continue
		}
		c.Check(m[ti] == ae, key, rule, w.Pos(e.Pos()), fmt.Sprintf("Enforcement[%q] = %q, want %q", ti, m[ti], ae))
	}
	// the custom level: every MapUpdate into a map that becomes the Enforcement of the returned level
	// is cut by key != TypeIntegrity, except the copy loop from the base level.
	fn := w.Method("verifier/trustpolicy", "SignatureVerification", "GetVerificationLevel")
	if fn == nil {
		c.Unk("levels/custom/integrity-not-overridable", "anchor: (*SignatureVerification).GetVerificationLevel", "-", "method not found")
		return
	}
	fi := w.Info(fn)
	c.SeenFn(fn.String())
	rule := "effect-site gate: a store of an override action into the custom enforcement map is reachable only through type != TypeIntegrity"
	n := 0
	for _, b := range fn.Blocks {
		for _, in := range b.Instrs {
			mu, ok := in.(*ssa.MapUpdate)
			if !ok {
				continue
			}
			kd, vd := desc(mu.Key), desc(mu.Value)
			if strings.Contains(kd, ".Enforcement)") && strings.Contains(vd, ".Enforcement)") {
				continue // copy of the base level: rangekey/rangeval over <base>.Enforcement
			}
			n++
			g := fi.GuardsOf(mu)
			c.Evals++
			_, ok1 := hasLabel(g, "NE(", kd, fmt.Sprintf("const:%q", ti))
			if ok1 {
				c.OK("levels/custom/integrity-not-overridable", rule, w.InstrPos(mu))
			} else {
				c.Bad("levels/custom/integrity-not-overridable", rule, w.InstrPos(mu), "the store of "+vd+" under key "+kd+" is reachable with key == TypeIntegrity; guards: "+summarizeLabels(g, 10))
			}
		}
	}
	if n == 0 {
		c.Unk("levels/custom/integrity-not-overridable", rule, w.FnPos(fn), "no override store found in GetVerificationLevel")
	}
	_ = token.NoPos
}
