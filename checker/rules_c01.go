package main

import (
	"fmt"
	"go/token"
	"regexp"
	"strings"

	"golang.org/x/tools/go/ssa"
)

func init() {
	register(&Rule{
		ID:    "C01",
		Title: "accepted signatures are intact and bound to the artifact",
		Run:   runC01,
		Explain: "E1 must-check/fail-closed on the verifier entry points found by interface ((*verifier).Verify / VerifyBlob, notation.VerifyBlob): " +
			"every success-capable exit that is not behind the level==skip gate is reachable only through the passing edges of " +
			"ParseEnvelope(err==nil), Envelope.Verify(err==nil), payload content type == envelope.MediaTypePayloadV1, json.Unmarshal(Payload.Content -> *envelope.Payload)(err==nil), " +
			"content.Equal(signed target, desc parameter) for OCI; for blobs the algorithm-table lookup keyed by the signature algorithm's hash (the package-level map, or a module function recognised as such a table by what its passing returns deliver — extra_c01.go, algTable), the descriptor generator applied to that digest algorithm, " +
			"Digest and Size equality with the signed target and a media-type equality that can be bypassed only by desc.MediaType==\"\"; required user metadata: the metadata check's err==nil edge " +
			"(bypassed only by len(UserMetadata)==0) and, inside it, a per-entry comma-ok lookup and value equality over the caller's map with no early success; " +
			"soft failures are sticky (a later store of a possibly-nil value into outcome.Error re-opens the exit and is reported); " +
			"integrity is 'enforce' in the three non-skip level literals and the custom-level store is cut by type != integrity. " +
			"Checks are located through composition over module-internal calls with labels rewritten into the entry point's frame, so helper names are not anchors. " +
			"Exits that hand back the result of a verdict forwarder (a result constructor newResult(…, err), a failure exit failed(err) that records and returns its argument, an error wrapper) " +
			"are classified by the forwarded argument at the call site (extra_c01.go); the media-type disjunction and the metadata obligation are decided by the cut argument across helper " +
			"boundaries with the helpers' parameters rewritten to the arguments (a helper's own allocations are kept apart from the entry point's), whatever the helper is handed or answers (error / bool / the error cell of the outcome it is handed: a step without a verdict among its results, c01mCell). " +
			"The signature bytes may be read back from a single-assignment field of the outcome literal (c01ParamAliases); the signed target may be that of a payload a helper decodes itself from the verified content (c01DecodedHere).",
		NotCov:  "cryptographic validity of the signature, envelope parsing, content.Equal's body, JSON duplicate-key semantics (trusted: notation-core-go, oras-go, encoding/json).",
		Trusted: []string{"go/types, go/ssa (x/tools v0.29.0)", "notation-core-go signature.ParseEnvelope / Envelope.Verify", "oras-go content.Equal", "encoding/json"},
	})
}

// isSkipLabel: the fact "the applicable verification level is skip".
func isSkipLabel(l string) bool {
	if !(strings.HasPrefix(l, "T(") || strings.HasPrefix(l, "EQ(")) {
		return false
	}
	if !strings.Contains(l, "GetVerificationLevel(") {
		return false
	}
	return strings.Contains(l, "global:ngo/verifier/trustpolicy.LevelSkip") || strings.Contains(l, `const:"skip"`)
}

// skipEdges: the level == skip test itself, or the sentinel (a nil payload, a `skipped` flag) through which a helper that
// made the test tells its caller so (extra_c01.go, sentinelSkipEdges).
func skipEdges(fi *FnInfo) map[edgeKey]bool { return c01SkipEdges(fi, 0) }

// nonSkipSummary summarises fn with the skip edges removed.
func nonSkipSummary(w *World, fn *ssa.Function) (*Summary, int) {
	fi := w.Info(fn)
	se := skipEdges(fi)
	return c01Engine(w).summarizeFrom(fi, Mode{Kind: mErr}, entryState(), se), len(se)
}

var reUnmarshalPayload = regexp.MustCompile(`^EQ\(call:encoding/json\.Unmarshal\((.+)\.EnvelopeContent\.Payload\.Content,(alloc:ngo/internal/envelope\.Payload<[^>]*>)\)#err,nil\)$`)

func integrityNeeds(w *World, fn *ssa.Function) []Need {
	pt, _ := w.constString("internal/envelope", "MediaTypePayloadV1")
	q := regexp.QuoteMeta
	sig, opts := q(paramWhere(fn, isByteSlice)), q(paramWhere(fn, hasField("SignatureMediaType")))
	// the signature bytes may be read back from the one object the entry point stored them in (extra_c01.go,
	// c01ParamAliases: a single-assignment field of the outcome literal): that description names the parameter too
	for _, al := range c01ParamAliases(w, fn, isByteSlice) {
		sig += "|" + q(al)
	}
	sig = "(?:" + sig + ")"
	return []Need{
		{Name: "parse-envelope", What: "signature.ParseEnvelope(mediaType, signature bytes) err == nil, applied to the entry point's signature and media-type parameters",
			Re: regexp.MustCompile(`^EQ\(call:core/signature\.ParseEnvelope\(` + opts + `\.SignatureMediaType,` + sig + `\)#err,nil\)$`)},
		{Name: "envelope-verify", What: "Envelope.Verify() err == nil on the envelope that was parsed",
			Re: regexp.MustCompile(`^EQ\(call:invoke:core/signature\.Envelope\.Verify\(call:core/signature\.ParseEnvelope\(` + opts + `\.SignatureMediaType,` + sig + `\)#0\)#err,nil\)$`)},
		{Name: "payload-type", What: "content type of the verified payload == envelope.MediaTypePayloadV1",
			Re: regexp.MustCompile(`^EQ\(call:invoke:core/signature\.Envelope\.Verify\(.*\)#0\.Payload\.ContentType,const:` + regexp.QuoteMeta(fmt.Sprintf("%q", pt)) + `\)$`)},
	}
}

func runC01(c *Ctx) {
	w := c.W
	// ---- OCI ---------------------------------------------------------------
	ocis := w.implementers("", "Verifier", "Verify")
	if len(ocis) == 0 {
		c.Unk("oci/entry", "anchor: a product type implementing notation.Verifier", "-", "no implementation of notation.Verifier found")
	}
	for _, fn := range ocis {
		c01Entry(c, fn, "oci")
	}
	// ---- blob --------------------------------------------------------------
	blobs := w.implementers("", "BlobVerifier", "VerifyBlob")
	if len(blobs) == 0 {
		c.Unk("blob/entry", "anchor: a product type implementing notation.BlobVerifier", "-", "no implementation of notation.BlobVerifier found")
	}
	for _, fn := range blobs {
		c01Entry(c, fn, "blob")
	}
	// ---- wrapper -----------------------------------------------------------
	if fn := w.Func("", "VerifyBlob"); fn != nil {
		s := c01Engine(w).Summarize(fn, Mode{Kind: mErr})
		c.requireOnExits("wrapper/notation.VerifyBlob", fn, s.Exits, []Need{
			{Name: "verifier-success", What: "BlobVerifier.VerifyBlob(...) err == nil (the wrapper adds no success of its own)",
				Subs: []string{"EQ(call:invoke:ngo.BlobVerifier.VerifyBlob(", "#err,nil)"}},
		})
	} else {
		c.Unk("wrapper/notation.VerifyBlob", "anchor: notation.VerifyBlob", "-", "function not found")
	}
	// ---- the caller's requirement maps are never modified --------------------
	{
		var entries []*ssa.Function
		entries = append(entries, ocis...)
		entries = append(entries, blobs...)
		for _, n := range []string{"Verify", "VerifyBlob"} {
			if fn := w.Func("", n); fn != nil {
				entries = append(entries, fn)
			}
		}
		rule := "ownership: no map update, delete or clear on the verification call tree targets a map that belongs to the caller (required user metadata, plugin config): the requirement checked for one signature is the requirement checked for the next"
		_, nw := ownershipWrites(c, entries, rule, true)
		c.Extra["verification_map_writes"] = nw
	}
	c01Levels(c)
	c.MinCount("oci/", 8, "OCI binding obligations")
	c.MinCount("blob/", 12, "blob binding obligations")
}

func c01Entry(c *Ctx, fn *ssa.Function, kind string) {
	w := c.W
	fi := w.Info(fn)
	c.SeenFn(fn.String())
	sum, nskip := nonSkipSummary(w, fn)
	c.Evals += sum.States
	pre := kind
	if nskip == 0 {
		c.Notes = append(c.Notes, fnName(fn)+": no level==skip gate recognised; every success exit is treated as non-skip")
	}
	c.requireOnExits(pre, fn, sum.Exits, integrityNeeds(w, fn))

	// payload decode: Unmarshal(outcome.EnvelopeContent.Payload.Content, *envelope.Payload)
	var payloadAlloc, outcomeDesc string
	okDecode := len(sum.Exits) > 0
	for _, ex := range sum.Exits {
		found := false
		for _, l := range labelList(ex.Checked) {
			if m := reUnmarshalPayload.FindStringSubmatch(l); m != nil {
				found = true
				if payloadAlloc == "" {
					outcomeDesc, payloadAlloc = m[1], m[2]
				} else if payloadAlloc != m[2] {
					found = false
				}
			}
		}
		if !found {
			okDecode = false
			c.Bad(pre+"/payload-decode", "must-check: json.Unmarshal(outcome.EnvelopeContent.Payload.Content, *envelope.Payload) err == nil on every non-skip success exit",
				w.InstrPos(ex.Ret), "exit reachable without decoding the verified payload into envelope.Payload; facts: "+summarizeLabels(ex.Checked, 10))
			break
		}
	}
	if okDecode {
		c.OK(pre+"/payload-decode", "must-check: json.Unmarshal(outcome.EnvelopeContent.Payload.Content, *envelope.Payload) err == nil on every non-skip success exit", w.FnPos(fn))
	}
	if payloadAlloc == "" {
		c.Unk(pre+"/binding", "binding comparisons need the decoded payload object", w.FnPos(fn), "payload decode not recognised")
		return
	}
	// the outcome whose content is decoded is the one handed to the signature processing and returned
	retOutcomeOK := true
	for _, ex := range sum.Exits {
		if len(ex.Ret.Results) < 1 || c01Engine(w).canon(fn)(desc(ex.Ret.Results[0])) != outcomeDesc {
			retOutcomeOK = false
		}
		okProc := false
		reProc := regexp.MustCompile(`^EQ\(call:\(?\*?ngo/[^(]*\((.*,)?` + regexp.QuoteMeta(outcomeDesc) + `(,.*)?\)#(err|\d+\.Error),nil\)$`)
		for l := range ex.Checked {
			if reProc.MatchString(l) {
				okProc = true
			}
		}
		if !okProc {
			retOutcomeOK = false
		}
	}
	c.Check(retOutcomeOK, pre+"/same-outcome", "provenance: the payload decoded is the content of the outcome object that went through integrity verification, and that object is returned",
		w.FnPos(fn), "the decoded payload does not belong to the outcome that was verified/returned ("+outcomeDesc+")")

	ta := payloadAlloc + ".TargetArtifact"
	if kind == "oci" {
		q := regexp.QuoteMeta
		pd := q(paramWhere(fn, isNamed("ocispec.Descriptor")))
		reEq := regexp.MustCompile(`^T\(call:oras/content\.Equal\((` + q(ta) + `,` + pd + `|` + pd + `,` + q(ta) + `)\)\)$`)
		pdRaw := paramWhere(fn, isNamed("ocispec.Descriptor"))
		// content.Equal compares exactly media type, digest and size: the three field equalities are the same check
		var viaFields []*ExitSum
		var viaCall []*ExitSum
		for _, ex := range sum.Exits {
			three := true
			for _, f := range []string{"MediaType", "Digest", "Size"} {
				if !labelHas(ex.Checked, "EQ("+ta+"."+f+","+pdRaw+"."+f+")") {
					three = false
				}
			}
			if three {
				viaFields = append(viaFields, ex)
			} else {
				viaCall = append(viaCall, ex)
			}
		}
		if len(viaFields) > 0 && len(viaCall) == 0 {
			c.OK(pre+"/descriptor-equal", "must-check: every success-capable exit of "+fnName(fn)+" is reachable only through the passing edge of: media type, digest and size of the signed payload target each equal to those of the desc parameter (what content.Equal compares)", w.FnPos(fn))
		} else {
			c.requireOnExits(pre, fn, viaCall, []Need{
				{Name: "descriptor-equal", What: "content.Equal(signed payload target, desc parameter) == true (or the three field equalities)", Re: reEq},
			})
		}
	} else {
		c01BlobBinding(c, fn, fi, sum, ta, outcomeDesc)
	}
	c01Metadata(c, fn, payloadAlloc, outcomeDesc, pre)
}

func c01BlobBinding(c *Ctx, fn *ssa.Function, fi *FnInfo, sum *Summary, ta, outcomeDesc string) {
	w := c.W
	q := regexp.QuoteMeta
	hash := `call:\(core/internal/algorithm\.Algorithm\)\.Hash\((` + q(outcomeDesc) + `\.EnvelopeContent\.SignerInfo\.SignatureAlgorithm|…)\)`
	both := func(a, b string) string { return `(` + a + `,` + b + `|` + b + `,` + a + `)` }
	// The ways in which the digest algorithm may be obtained from that hash (extra_c01.go): the package-level table indexed
	// here (or through a helper that only returns the lookup), or a module function that is such a table. Each way names
	// the value and the fact "the table knew the hash"; all obligations below are stated on one and the same way.
	mapLookup := `global:` + c01HashDigestMaps(w) + `\[` + hash + `\]`
	var mapPass []string
	for _, l := range append(c01TruthLabels("ok(\x00)"), "NE(\x00,const:\"\")") {
		mapPass = append(mapPass, strings.ReplaceAll(q(l), "\x00", mapLookup))
	}
	derivs := []c01Deriv{{value: mapLookup, pass: strings.Join(mapPass, "|"),
		what: "digest algorithm = algorithms[hash of the signature algorithm of the verified envelope], lookup miss fail-closed"}}
	// (a table function's key must read as that hash in full: an abbreviated description is not accepted there)
	hashExact := `^call:\(core/internal/algorithm\.Algorithm\)\.Hash\(` + q(outcomeDesc) + `\.EnvelopeContent\.SignerInfo\.SignatureAlgorithm\)$`
	derivs = append(derivs, c01Engine(w).derivations(fn, sum, regexp.MustCompile(hashExact))...)
	needsOf := func(d c01Deriv) []Need {
		gen := `call:dyn:` + q(paramWhere(fn, isFuncType)) + `\(` + d.value + `\)`
		return []Need{
			{Name: "algorithm-lookup", What: d.what, Re: regexp.MustCompile(`^(` + d.pass + `)$`)},
			{Name: "generator", What: "descriptor generator applied to that digest algorithm, err == nil",
				Re: regexp.MustCompile(`^EQ\(` + gen + `#err,nil\)$`)},
			{Name: "digest-equal", What: "generated descriptor Digest == signed target Digest",
				Re: regexp.MustCompile(`^EQ\(` + both(gen+`#0\.Digest`, q(ta)+`\.Digest`) + `\)$`)},
			{Name: "size-equal", What: "generated descriptor Size == signed target Size",
				Re: regexp.MustCompile(`^EQ\(` + both(gen+`#0\.Size`, q(ta)+`\.Size`) + `\)$`)},
		}
	}
	chosen, best := derivs[0], -1
	for _, d := range derivs {
		n := 0
		for _, need := range needsOf(d) {
			all := len(sum.Exits) > 0
			for _, ex := range sum.Exits {
				if _, ok := need.match(ex.Checked); !ok {
					all = false
				}
			}
			if all {
				n++
			}
		}
		if n > best {
			chosen, best = d, n
		}
	}
	gen := `call:dyn:` + q(paramWhere(fn, isFuncType)) + `\(` + chosen.value + `\)`
	c.requireOnExits("blob", fn, sum.Exits, needsOf(chosen))
	// media type: pass = (desc.MediaType == "") or (desc.MediaType == target.MediaType)
	// (the signed target: that of the payload the entry point decodes, or of a payload that a helper on the way decodes
	// itself from the verified content of the same outcome — extra_c01.go, c01DecodedHere; tas grows while gateHolds descends)
	tas := []string{ta}
	var reMT *regexp.Regexp
	mkMT := func() {
		var alts []string
		for _, t := range tas {
			alts = append(alts, q(t))
		}
		reMT = regexp.MustCompile(`^EQ\(` + both(gen+`#0\.MediaType`, `(?:`+strings.Join(alts, "|")+`)\.MediaType`) + `\)$`)
	}
	mkMT()
	onFrame := func(gfi *FnInfo, gm Mode, fr c01Frame, cut map[edgeKey]bool) {
		if gfi.Fn == fn {
			return
		}
		for _, p := range c01Engine(w).c01DecodedHere(gfi, gm, fr, cut, outcomeDesc+".EnvelopeContent.Payload.Content") {
			tas = append(tas, p+".TargetArtifact")
		}
		mkMT()
	}
	reEmpty := regexp.MustCompile(`^EQ\(` + both(gen+`#0\.MediaType`, `const:""`) + `\)$`)
	// a disjunction of the two facts (the value of `mt != "" && mt != signed` tested as one condition)
	isOrOfBoth := func(l string) bool {
		op, alts := splitTopArgs(l)
		if op != "OR" || len(alts) == 0 {
			return false
		}
		hasMT := false
		for _, a := range alts {
			if reMT.MatchString(a) {
				hasMT = true
			} else if !reEmpty.MatchString(a) {
				return false
			}
		}
		return hasMT
	}
	// The obligation is decided by the cut argument over the call tree (gateHolds): with every edge removed on which one of
	// the two facts holds — in VerifyBlob itself, or inside a module helper whose passing answer VerifyBlob tests or forwards,
	// the helper's parameters replaced by the arguments — no non-skip success exit may remain reachable. Where the
	// comparison is written (inline, in a variable, in a predicate with one exit per alternative, as the value a predicate
	// returns) does not matter; what the facts are about does: they are matched after rewriting into VerifyBlob's frame, so
	// they must relate the generated descriptor's media type to the signed target's (or to "").
	nMT := 0
	fact := func(l string) bool {
		if reMT.MatchString(l) || isOrOfBoth(l) {
			nMT++
			return true
		}
		return reEmpty.MatchString(l)
	}
	rule := "must-check (disjunctive): every non-skip success exit passes desc.MediaType == signed MediaType, bypassable only by desc.MediaType == \"\""
	nFact := 0
	holds, path := c01Engine(w).gateHolds(fn, Mode{Kind: mErr}, c01Frame{canon: c01Engine(w).canon(fn)}, skipEdges(fi), fact, 0, &nFact, onFrame)
	c.Evals += 2
	switch {
	case nMT == 0:
		c.Bad("blob/mediatype-equal", rule, w.FnPos(fn), "no comparison between the generated descriptor's MediaType and the signed target's MediaType exists")
	case !holds:
		c.Bad("blob/mediatype-equal", rule, w.FnPos(fn), "a non-skip success exit is reachable without the media type comparison", path...)
	default:
		c.OK("blob/mediatype-equal", rule, w.FnPos(fn))
	}
}

// the metadata obligation (c01Metadata) lives in extra_c01.go

// c01Levels: integrity is enforce in every non-skip level and cannot be overridden.
func c01Levels(c *Ctx) {
	w := c.W
	ti, _ := w.constString("verifier/trustpolicy", "TypeIntegrity")
	ae, _ := w.constString("verifier/trustpolicy", "ActionEnforce")
	for _, lv := range []string{"LevelStrict", "LevelPermissive", "LevelAudit"} {
		key := "levels/" + lv + "/integrity-enforce"
		rule := "constant table: the Enforcement map literal of " + lv + " maps TypeIntegrity to ActionEnforce"
		e, p := w.pkgVarInit("verifier/trustpolicy", lv)
		if e == nil {
			c.Unk(key, rule, "-", "variable not found")
			continue
		}
		m, ok := mapLiteral(p, structLitField(e, "Enforcement"))
		if !ok {
			c.Unk(key, rule, w.Pos(e.Pos()), "Enforcement is not a constant map literal")
			continue
		}
		c.Check(m[ti] == ae, key, rule, w.Pos(e.Pos()), fmt.Sprintf("Enforcement[%q] = %q, want %q", ti, m[ti], ae))
	}
	// the custom level: a store of an override action is reachable only through type != TypeIntegrity. This is C02's
	// `custom/integrity`, which follows the store into setters, constructors and helper-applied overrides (the first
	// formulation here looked for the MapUpdate in GetVerificationLevel itself and raised false alarms on C02's benign
	// variants — cross-property sweep, DESIGN 8.8); it is re-decided on the same world and recorded under C01's key.
	{
		sub := NewCtx(w, "C02", c.Tier)
		runC02(sub)
		c.Evals += sub.Evals
		found := false
		for _, o := range sub.Obls {
			if o.Key == "C02/custom/integrity" {
				found = true
				c.add(&Obligation{Key: "levels/custom/integrity-not-overridable", Rule: o.Rule + " [rule of C02]", Status: o.Status, Site: o.Site, Detail: o.Detail, Path: o.Path})
			}
		}
		if !found {
			c.Unk("levels/custom/integrity-not-overridable", "anchor: the override store of the custom level (C02 custom/integrity)", "-", "the rule of C02 produced no obligation")
		}
	}
	_ = token.NoPos
}
