package main

import (
	"fmt"
	"go/ast"
	"go/token"
	"go/types"
	"strings"

	"golang.org/x/tools/go/ssa"
)

func init() {
	register(&Rule{
		ID:    "C02",
		Title: "the verification level alone decides which failed validations reject",
		Run:   runC02,
		Explain: "(a) the critical-failure predicate (found by type func(*ValidationResult) bool) is exactly Action==enforce && Error!=nil (true- and false-summaries); " +
			"(b) typestate: every *ValidationResult appended to the outcome, and every later store to its Error, is followed on all paths to a success-capable exit by the predicate applied to that object (or a direct Error!=nil gate); " +
			"(c) every ValidationResult allocation stores a constant Type T and Action = <level>.Enforcement[T] with the same T; " +
			"(d) who-may-read inventory of VerificationLevel.Enforcement and ValidationResult.Action; " +
			"(e) custom levels: overrides are stored only into a fresh map, cut by the unsupported-type/action, integrity and non-revocation-skip gates; " +
			"(f) when the signature names a plugin: manager nil, Get, GetMetadata, semver validity, min-version (argument order and Compare != -1), no capability, plugin execution error, missing verdict are fail-closed; " +
			"(g) routing: native identity check iff the plugin lacks the trusted-identity capability, native revocation iff not skipped and not owned by the plugin, revocation omitted from the plugin request under skip, plugin executed iff the request is non-empty; " +
			"(h) critical extended attributes are accounted for on every success path: no plugin named (h1), plugin executed (h2), plugin named but not executed (h3, known finding). " +
			"(i) the level literals are point-wise ordered strict >= permissive >= audit.",
		NotCov:  "the full decision table as enumerated values (implied clause-wise, not enumerated); behaviour of concrete plugins.",
		Trusted: []string{"go/types, go/ssa", "notation-plugin-framework-go constants and types", "x/mod semver.Compare"},
	})
}

const vrType = "ngo.ValidationResult"

func isVRPtr(t types.Type) bool {
	_, ok := t.Underlying().(*types.Pointer)
	return ok && namedOf(t) == vrType
}

func runC02(c *Ctx) {
	preds := c02Predicate(c)
	c02Gating(c, preds)
	c02Pairing(c)
	c02Inventory(c, preds)
	c02Custom(c)
	c02Tables(c)
	// the roles of the plugin code: L looks the plugin up (it calls plugin.Manager.Get), P processes the signature (routing,
	// plugin execution, accounting). They coincide unless the lookup was extracted into a helper (extra_c02.go).
	ro := c02FindRoles(c)
	if ro == nil {
		return
	}
	c.SeenFn(ro.P.String())
	c.SeenFn(ro.L.String())
	c02Plugin(c, ro) // the lookup gates, on L
	if c02Boundary(c, ro) {
		c02Execution(c, ro)
		c02Routing(c, ro)
		c02Critical(c, ro)
		c02ExecutedWhenRequested(c, ro)
	}
	c.MinCount("gated/", 7, "gated validation results")
	c.MinCount("pairing/", 5, "ValidationResult allocations")
	c.MinCount("plugin/", 9, "plugin fail-closed gates")
}

// ---- (a) predicate ----------------------------------------------------------

func c02Predicate(c *Ctx) []*ssa.Function {
	w := c.W
	var preds []*ssa.Function
	for _, fn := range w.FuncsOfPkg("verifier") {
		sig := fn.Signature
		if fn.Parent() != nil || sig.Recv() != nil || sig.Params().Len() != 1 || sig.Results().Len() != 1 {
			continue
		}
		if !isVRPtr(sig.Params().At(0).Type()) {
			continue
		}
		if b, ok := sig.Results().At(0).Type().Underlying().(*types.Basic); !ok || b.Kind() != types.Bool {
			continue
		}
		// a predicate about enforcement looks at the result's Action or Error; one that reads neither (a selector by Type, say)
		// decides nothing about failure
		reads := false
		for _, b := range fn.Blocks {
			for _, in := range b.Instrs {
				if fa, ok := in.(*ssa.FieldAddr); ok && fa.X == ssa.Value(fn.Params[0]) {
					if f := fieldName(fa.X.Type(), fa.Field); f == "Action" || f == "Error" {
						reads = true
					}
				}
			}
		}
		if !reads {
			continue
		}
		preds = append(preds, fn)
	}
	ae, _ := w.constString("verifier/trustpolicy", "ActionEnforce")
	rule := "finite decision table: the critical-failure predicate is true exactly when Action == enforce and Error != nil"
	if len(preds) == 0 {
		c.Unk("predicate", rule, "-", "no function of type func(*notation.ValidationResult) bool in package verifier")
		return nil
	}
	for _, p := range preds {
		c.SeenFn(p.String())
		pn := p.Params[0].Name()
		lAct := fmt.Sprintf("EQ(param:%s.Action,const:%q)", pn, ae)
		lErr := fmt.Sprintf("NE(param:%s.Error,nil)", pn)
		nAct := fmt.Sprintf("NE(param:%s.Action,const:%q)", pn, ae)
		nErr := fmt.Sprintf("EQ(param:%s.Error,nil)", pn)
		st := w.Summarize(p, Mode{Kind: mBool, Want: true})
		sf := w.Summarize(p, Mode{Kind: mBool, Want: false})
		c.Evals += st.States + sf.States
		ok := len(st.Exits) > 0
		_, a1 := st.Checked[lAct]
		_, a2 := st.Checked[lErr]
		detail := ""
		if !a1 || !a2 {
			ok = false
			detail = "a true result does not imply both " + lAct + " and " + lErr + "; implied: " + summarizeLabels(st.Checked, 8)
		}
		for _, ex := range sf.Exits {
			_, b1 := ex.Checked[nAct]
			_, b2 := ex.Checked[nErr]
			if !b1 && !b2 {
				ok = false
				detail = "a false result is possible with Action == enforce and Error != nil (exit " + w.InstrPos(ex.Ret) + "); facts: " + summarizeLabels(ex.Checked, 8)
			}
		}
		c.Check(ok, "predicate/"+p.Name(), rule, w.FnPos(p), detail)
	}
	return preds
}

// ---- (b) gating ------------------------------------------------------------

// fwdPhis returns v and every phi v flows into.
func fwdPhis(v ssa.Value) map[ssa.Value]bool {
	out := map[ssa.Value]bool{v: true}
	work := []ssa.Value{v}
	for len(work) > 0 {
		x := work[len(work)-1]
		work = work[:len(work)-1]
		refs := x.Referrers()
		if refs == nil {
			continue
		}
		for _, r := range *refs {
			if p, ok := r.(*ssa.Phi); ok && !out[p] {
				out[p] = true
				work = append(work, p)
			}
		}
	}
	return out
}

func c02Gating(c *Ctx, preds []*ssa.Function) {
	w := c.W
	isPred := map[*ssa.Function]bool{}
	for _, p := range preds {
		isPred[p] = true
	}
	rule := "typestate: after a *ValidationResult is appended to the outcome, and after every later store to its Error field, every path to a success-capable exit passes the false edge of the critical-failure predicate applied to that object (or a direct Error == nil gate)"
	type event struct {
		in   ssa.Instruction
		base ssa.Value
		what string
	}
	hasErr := func(fn *ssa.Function) bool {
		n := fn.Signature.Results().Len()
		return n > 0 && isErrorType(fn.Signature.Results().At(n-1).Type())
	}
	// A helper that appends its PARAMETER to the outcome (`record(result)`: a closure, a method, a function): the append is an
	// event of every caller, on the argument it hands in.
	//   appendsParam[g][i]: g appends parameter i (gating may be left to the caller, by the ordinary gates);
	//   gatesParam[g][i]:   g has an error result and g's own obligation for that append holds — on g's graph every
	//                       success-capable exit behind the append passes the false edge of the predicate on the parameter.
	//                       g answers nil only if the object handed in is not a critical failure: in a caller, the edge
	//                       "the error of g(x) is nil" IS a false edge of the predicate on x (for the append made by g and
	//                       for any earlier store to x.Error), and an exit that hands g's error on is not a success of its own.
	appendsParam := map[*ssa.Function]map[int]bool{}
	gatesParam := map[*ssa.Function]map[int]bool{}
	paramIndex := func(fn *ssa.Function, v ssa.Value) int {
		for i, q := range fn.Params {
			if ssa.Value(q) == v {
				return i
			}
		}
		return -1
	}
	// witness: a path from the event to a success-capable exit of fn that passes no gate of the object
	witness := func(fn *ssa.Function, ev event) []string {
		fi := w.Info(fn)
		accept := fwdPhis(ev.base)
		after := func(in ssa.Instruction) bool { // not before the event in the event's own block
			return in.Block() != ev.in.Block() || instrIndex(in) >= instrIndex(ev.in)
		}
		cut := fi.edgesMatching(func(l string, iff *ssa.If, truth bool) bool {
			cond := iff.Cond
			neg := false
			for {
				u, ok := cond.(*ssa.UnOp)
				if !ok || u.Op != token.NOT {
					break
				}
				neg = !neg
				cond = u.X
			}
			t := truth != neg
			switch x := cond.(type) {
			case *ssa.Call:
				g := staticCallee(x)
				if g != nil && isPred[g] && len(x.Call.Args) == 1 && accept[x.Call.Args[0]] && !t {
					// the predicate call must come after the event when in the same block
					return after(x)
				}
			case *ssa.BinOp:
				var o ssa.Value
				if isNilConst(x.Y) {
					o = x.X
				} else if isNilConst(x.X) {
					o = x.Y
				} else {
					return false
				}
				isNil := (x.Op == token.EQL && t) || (x.Op == token.NEQ && !t)
				if !isNil {
					return false
				}
				if u, ok := o.(*ssa.UnOp); ok && u.Op == token.MUL {
					if fa, ok := u.X.(*ssa.FieldAddr); ok && accept[fa.X] && fieldName(fa.X.Type(), fa.Field) == "Error" {
						return after(u)
					}
				}
			}
			return false
		})
		// gates made by a gating helper the object is handed to
		tails := map[*ssa.Call]bool{}
		for _, ci := range allCalls(fn) {
			call, ok := ci.(*ssa.Call)
			if !ok || !after(call) {
				continue
			}
			g := staticCallee(call)
			if g == nil || len(gatesParam[g]) == 0 || len(call.Call.Args) != len(g.Params) {
				continue
			}
			for i := range g.Params {
				if gatesParam[g][i] && accept[call.Call.Args[i]] {
					tails[call] = true
					d := "EQ(" + descTailErr(call) + ",nil)"
					for e := range fi.edgesMatching(func(l string, _ *ssa.If, _ bool) bool { return l == d }) {
						cut[e] = true
					}
				}
			}
		}
		saved := fi.ignoreTail
		if len(tails) > 0 {
			fi.ignoreTail = tails
		}
		c.Evals++
		path := fi.successWitness(Mode{Kind: mErr}, []state{{ev.in.Block().Index, 0, -1}}, cut)
		fi.ignoreTail = saved
		return path
	}
	// One obligation per EVENT. The key spells the object by its printed form, and two events can print alike: four
	// validations that each build their result in one literal at their single exit are four "append of
	// alloc:ValidationResult<complit>" (a helper that only returns an expression prints as that expression). Each of them
	// is decided on its own; a repeated spelling gets an ordinal, so that the obligations (and the vacuity count, which is
	// a count of gated events) do not merge by accident of spelling.
	keyUsed := map[string]int{}
	check := func(fn *ssa.Function, ev event) {
		key := fmt.Sprintf("gated/%s/%s/%s", fnName(fn), descDepth(ev.base, 3), strings.ReplaceAll(ev.what, " ", "-"))
		keyUsed[key]++
		if n := keyUsed[key]; n > 1 {
			key += fmt.Sprintf("#%d", n)
		}
		if path := witness(fn, ev); path != nil {
			c.Bad(key, rule, w.InstrPos(ev.in), "after this "+ev.what+" of "+desc(ev.base)+" a success-capable exit is reachable without gating the result", path...)
		} else {
			c.OK(key, rule, w.InstrPos(ev.in))
		}
	}
	fns := w.FuncsOfPkg("verifier")
	events := map[*ssa.Function][]event{}
	for _, fn := range fns {
		// returned values are the caller's responsibility
		returned := map[ssa.Value]bool{}
		for _, b := range fn.Blocks {
			if r, ok := blockTerm(b).(*ssa.Return); ok {
				for _, x := range r.Results {
					returned[x] = true
				}
			}
		}
		add := func(ev event) {
			for v := range fwdPhis(ev.base) {
				if returned[v] {
					return
				}
			}
			events[fn] = append(events[fn], ev)
		}
		for _, b := range fn.Blocks {
			for _, in := range b.Instrs {
				switch x := in.(type) {
				case *ssa.Store:
					fa, ok := x.Addr.(*ssa.FieldAddr)
					if !ok || !isVRPtr(fa.X.Type()) || fieldName(fa.X.Type(), fa.Field) != "Error" {
						continue
					}
					if isNilConst(x.Val) {
						continue
					}
					add(event{in, fa.X, "store to Error"})
				case *ssa.Call:
					// append(outcome.VerificationResults, r)
					if bi, ok := x.Call.Value.(*ssa.Builtin); !ok || bi.Name() != "append" || len(x.Call.Args) != 2 {
						continue
					}
					if !strings.HasSuffix(desc(x.Call.Args[0]), ".VerificationResults") {
						continue
					}
					for _, el := range appendedElems(x.Call.Args[1]) {
						if isVRPtr(el.Type()) {
							add(event{in, el, "append to VerificationResults"})
							if i := paramIndex(fn, el); i >= 0 {
								if appendsParam[fn] == nil {
									appendsParam[fn] = map[int]bool{}
								}
								appendsParam[fn][i] = true
							}
						}
					}
				}
			}
		}
	}
	// which helpers gate the parameter they append (decided on the helper's own graph, with the ordinary gates only)
	for _, fn := range fns {
		if !hasErr(fn) {
			continue
		}
		for _, ev := range events[fn] {
			if i := paramIndex(fn, ev.base); i >= 0 && strings.HasPrefix(ev.what, "append") && witness(fn, ev) == nil {
				if gatesParam[fn] == nil {
					gatesParam[fn] = map[int]bool{}
				}
				gatesParam[fn][i] = true
			}
		}
	}
	for _, fn := range fns {
		if !hasErr(fn) {
			continue // no error result: reports through an object, its caller gates the result
		}
		evs := events[fn]
		// the calls of appending helpers: an append event of this function, on the argument
		for _, ci := range allCalls(fn) {
			call, ok := ci.(*ssa.Call)
			if !ok {
				continue
			}
			g := staticCallee(call)
			if g == nil || len(appendsParam[g]) == 0 || len(call.Call.Args) != len(g.Params) {
				continue
			}
			for i := range g.Params {
				if appendsParam[g][i] {
					evs = append(evs, event{call, call.Call.Args[i], "append to VerificationResults by " + fnName(g)})
				}
			}
		}
		if len(evs) == 0 {
			continue
		}
		c.SeenFn(fn.String())
		for _, ev := range evs {
			check(fn, ev)
		}
	}
}

// appendedElems returns the elements of the variadic slice built for append.
func appendedElems(v ssa.Value) []ssa.Value {
	sl, ok := v.(*ssa.Slice)
	if !ok {
		return nil
	}
	al, ok := sl.X.(*ssa.Alloc)
	if !ok {
		return nil
	}
	var out []ssa.Value
	for _, r := range *al.Referrers() {
		ia, ok := r.(*ssa.IndexAddr)
		if !ok {
			continue
		}
		for _, rr := range *ia.Referrers() {
			if st, ok := rr.(*ssa.Store); ok && st.Addr == ia {
				out = append(out, st.Val)
			}
		}
	}
	return out
}

// ---- (c) pairing -----------------------------------------------------------

func c02Pairing(c *Ctx) {
	w := c.W
	rule := "every notation.ValidationResult allocation stores a constant Type T and Action = <outcome>.VerificationLevel.Enforcement[T] with the same T"
	seenTypes := map[string]bool{}
	for _, fn := range w.Funcs {
		for _, b := range fn.Blocks {
			for _, in := range b.Instrs {
				al, ok := in.(*ssa.Alloc)
				if !ok || namedOf(al.Type()) != vrType {
					continue
				}
				if _, isPtr := al.Type().Underlying().(*types.Pointer); !isPtr {
					continue
				}
				c.Evals++
				var typ, act ssa.Value
				for _, r := range *al.Referrers() {
					fa, ok := r.(*ssa.FieldAddr)
					if !ok {
						continue
					}
					for _, rr := range *fa.Referrers() {
						if st, ok := rr.(*ssa.Store); ok && st.Addr == fa {
							switch fieldName(al.Type(), fa.Field) {
							case "Type":
								typ = st.Val
							case "Action":
								act = st.Val
							}
						}
					}
				}
				key := fmt.Sprintf("pairing/%s#%d", fnName(fn), ordinalIn(fn, al))
				if typ == nil {
					c.Bad(key, rule, w.InstrPos(al), "Type is not a constant (or not set): "+desc(typ))
					continue
				}
				tc, isConst := typ.(*ssa.Const)
				if isConst && tc.Value == nil {
					c.Bad(key, rule, w.InstrPos(al), "Type is not a constant (or not set): "+desc(typ))
					continue
				}
				lk, ok2 := act.(*ssa.Lookup)
				if !ok2 || lk.CommaOk {
					if !isConst {
						c.Bad(key, rule, w.InstrPos(al), "Type is not a constant (or not set): "+desc(typ))
						continue
					}
					c.Bad(key, rule, w.InstrPos(al), "Action is not a plain lookup in the enforcement map: "+desc(act))
					continue
				}
				// "the same T": two constants of equal value, or — in a constructor of results — one and the same SSA value
				// stored as Type and used as the key of the lookup (whatever T is at run time, the Action is the level's entry
				// for exactly that T)
				same := false
				if isConst {
					kc, ok3 := lk.Index.(*ssa.Const)
					same = ok3 && constString(kc) == constString(tc)
				} else {
					same = c02Unconv(typ) == c02Unconv(lk.Index)
				}
				if !same {
					c.Bad(key, rule, w.InstrPos(al), fmt.Sprintf("Action is looked up under %s but Type is %s", desc(lk.Index), desc(typ)))
					continue
				}
				md := desc(lk.X)
				if isConst {
					if !strings.HasSuffix(md, ".VerificationLevel.Enforcement") {
						c.Bad(key, rule, w.InstrPos(al), "Action is not taken from the outcome's VerificationLevel.Enforcement but from "+md)
						continue
					}
					seenTypes[constString(tc)] = true
					c.OK(key, rule, w.InstrPos(al))
					continue
				}
				// "a constant T": the allocation sits in a constructor that is handed T. The clause is decided where T is
				// chosen: at every call of the constructor (all of them known: c05CallSites) the argument is a constant, and
				// the level the constructor reads is the outcome's there. One obligation per call.
				uses, why := c02TypeUses(w, fn, typ, md, 0)
				if why != "" {
					c.Bad(key, rule, w.InstrPos(al), "Type is not a constant (or not set): "+desc(typ)+" ("+why+")")
					continue
				}
				c.OK(key, rule, w.InstrPos(al))
				for _, u := range uses {
					c.Evals++
					ukey := fmt.Sprintf("pairing/%s/via/%s#%d", fnName(u.site.Parent()), fnName(fn), c02CallOrdinal(u.site))
					if !strings.HasSuffix(u.md, ".VerificationLevel.Enforcement") {
						c.Bad(ukey, rule, w.InstrPos(u.site), "Action is not taken from the outcome's VerificationLevel.Enforcement but from "+u.md)
						continue
					}
					seenTypes[constString(u.k)] = true
					c.OK(ukey, rule, w.InstrPos(u.site))
				}
			}
		}
	}
	// vacuity guard by meaning, not by site count: every validation type has at least one well-paired result
	var missing []string
	for _, name := range []string{"TypeIntegrity", "TypeAuthenticity", "TypeAuthenticTimestamp", "TypeExpiry", "TypeRevocation"} {
		v, _ := w.constString("verifier/trustpolicy", name)
		if v == "" || !seenTypes[fmt.Sprintf("%q", v)] {
			missing = append(missing, name)
		}
	}
	if len(missing) > 0 {
		c.Unk("pairing/#types", "vacuity guard: each of the five validation types has at least one ValidationResult allocation with the paired action", "-", "no well-paired result for: "+strings.Join(missing, ", "))
	}
}

func ordinalIn(fn *ssa.Function, target ssa.Instruction) int {
	n := 0
	for _, b := range fn.Blocks {
		for _, in := range b.Instrs {
			if _, ok := in.(*ssa.Alloc); ok {
				if in == target {
					return n
				}
				if a := in.(*ssa.Alloc); namedOf(a.Type()) == namedOf(target.(*ssa.Alloc).Type()) {
					n++
				}
			}
		}
	}
	return n
}

// ---- (d) inventory ---------------------------------------------------------

func c02Inventory(c *Ctx, preds []*ssa.Function) {
	w := c.W
	isPred := map[*ssa.Function]bool{}
	for _, p := range preds {
		isPred[p] = true
	}
	as, _ := w.constString("verifier/trustpolicy", "ActionSkip")
	tr, _ := w.constString("verifier/trustpolicy", "TypeRevocation")
	ruleE := "who-may-read: VerificationLevel.Enforcement is read only to fill ValidationResult.Action, to compare the revocation action with skip, or to seed a custom level"
	ruleA := "who-may-read: ValidationResult.Action is read only by the critical-failure predicate, by result-less logging helpers, or merely compared with constants (it is never copied, stored or passed on)"
	nE, nA := 0, 0
	kinds := map[string]bool{}
	for _, fn := range w.Funcs {
		for _, b := range fn.Blocks {
			for _, in := range b.Instrs {
				fa, ok := in.(*ssa.FieldAddr)
				if !ok {
					continue
				}
				tn := namedOf(fa.X.Type())
				fname := fieldName(fa.X.Type(), fa.Field)
				if tn == "ngo/verifier/trustpolicy.VerificationLevel" && fname == "Enforcement" {
					for _, r := range *fa.Referrers() {
						ld, ok := r.(*ssa.UnOp)
						if !ok {
							continue // store (initialisation)
						}
						for _, u := range *ld.Referrers() {
							nE++
							c.Evals++
							key := fmt.Sprintf("enforcement-read/%s/%s", fnName(fn), useKind(u))
							switch x := u.(type) {
							case *ssa.Lookup:
								if useIsActionStore(x) {
									kinds["filling ValidationResult.Action"] = true
									// a constructor of results reads the map once for all its callers: each call is a read
									if par, isPar := c02Unconv(x.Index).(*ssa.Parameter); isPar && par.Parent() == fn {
										if sites, closed := c05CallSites(w, fn); closed && len(sites) > 1 {
											nE += len(sites) - 1
										}
									}
									c.OK(key, ruleE, w.InstrPos(x))
									continue
								}
								if kc, ok := x.Index.(*ssa.Const); ok && constString(kc) == fmt.Sprintf("%q", tr) && onlyComparedWith(x, fmt.Sprintf("%q", as)) {
									kinds["comparing the revocation action with skip"] = true
									c.OK(key, ruleE, w.InstrPos(x))
									continue
								}
								c.Bad(key, ruleE, w.InstrPos(x), "the enforcement map is consulted for another purpose: "+desc(x))
							case *ssa.Range:
								if fnName(fn) == "(*ngo/verifier/trustpolicy.SignatureVerification).GetVerificationLevel" || fnPkg(fn).Path() == modPath+"/verifier/trustpolicy" {
									kinds["seeding a custom level in package trustpolicy"] = true
									c.OK(key, ruleE, w.InstrPos(x))
								} else {
									c.Bad(key, ruleE, w.InstrPos(x), "the enforcement map is iterated outside the trust policy package")
								}
							case *ssa.MapUpdate:
								// handled by the custom-level rule
							case *ssa.DebugRef:
							case *ssa.Call:
								// maps.Clone / maps.Copy of the base level's map inside the trust policy package: seeding a custom level
								if n := calleeName(x); (n == "maps.Clone" || n == "maps.Copy" || n == "builtin:len") && fnPkg(fn).Path() == modPath+"/verifier/trustpolicy" {
									if n != "builtin:len" {
										kinds["seeding a custom level in package trustpolicy"] = true
									}
									c.OK(key, ruleE, w.InstrPos(x))
								} else if isFormattingCall(x) {
									c.OK(key, ruleE, w.InstrPos(x))
								} else if g := staticCallee(x); g != nil && g.Blocks != nil && fnPkg(fn).Path() == modPath+"/verifier/trustpolicy" && fnPkg(g) == fnPkg(fn) && freshMap(ld, 0) {
									// the map of a level under construction (made in this function, never one of the levels in force)
									// handed to a helper of the trust policy package that fills it: building a custom level. What the
									// helper stores is held to the custom-level rules (every store into an enforcement map of the
									// package is)
									kinds["seeding a custom level in package trustpolicy"] = true
									c.OK(key, ruleE, w.InstrPos(x))
								} else {
									c.Bad(key, ruleE, w.InstrPos(u), "unexpected use of the enforcement map: handed to "+n)
								}
							default:
								c.Bad(key, ruleE, w.InstrPos(u), fmt.Sprintf("unexpected use of the enforcement map: %T", u))
							}
						}
					}
				}
				if tn == vrType && fname == "Action" {
					for _, r := range *fa.Referrers() {
						if _, ok := r.(*ssa.UnOp); !ok {
							continue
						}
						nA++
						c.Evals++
						key := "action-read/" + fnName(fn)
						if isPred[fn] || (fn.Signature.Results().Len() == 0 && !hasStores(fn)) || onlyComparedWithConsts(r.(*ssa.UnOp)) {
							c.OK(key, ruleA, w.InstrPos(r))
						} else {
							c.Bad(key, ruleA, w.InstrPos(r), "ValidationResult.Action is read by a function that can influence the verdict")
						}
					}
				}
			}
		}
	}
	// vacuity guard: the inventory has found each of the three legitimate kinds of read, and at least 8 reads in all (a
	// constructor of results reads the map in one place for all its callers: counted once per call)
	var missing []string
	for _, k := range []string{"filling ValidationResult.Action", "comparing the revocation action with skip", "seeding a custom level in package trustpolicy"} {
		if !kinds[k] {
			missing = append(missing, k)
		}
	}
	if len(missing) > 0 || nE < 8 {
		c.Unk("enforcement-read#count", ruleE, "-", fmt.Sprintf("%d reads of the enforcement map found, none for: %s", nE, strings.Join(missing, "; ")))
	}
}

func useKind(u ssa.Instruction) string {
	switch x := u.(type) {
	case *ssa.Lookup:
		return "lookup[" + descDepth(x.Index, 2) + "]"
	case *ssa.Range:
		return "range"
	case *ssa.MapUpdate:
		return "update"
	}
	return fmt.Sprintf("%T", u)
}

func useIsActionStore(l *ssa.Lookup) bool {
	refs := l.Referrers()
	if refs == nil || len(*refs) == 0 {
		return false
	}
	for _, r := range *refs {
		st, ok := r.(*ssa.Store)
		if !ok {
			if _, dbg := r.(*ssa.DebugRef); dbg {
				continue
			}
			return false
		}
		fa, ok := st.Addr.(*ssa.FieldAddr)
		if !ok || namedOf(fa.X.Type()) != vrType || fieldName(fa.X.Type(), fa.Field) != "Action" {
			return false
		}
	}
	return true
}

func onlyComparedWith(v ssa.Value, konst string) bool {
	refs := v.Referrers()
	if refs == nil || len(*refs) == 0 {
		return false
	}
	for _, r := range *refs {
		bo, ok := r.(*ssa.BinOp)
		if !ok {
			if _, dbg := r.(*ssa.DebugRef); dbg {
				continue
			}
			return false
		}
		if bo.Op != token.EQL && bo.Op != token.NEQ {
			return false
		}
		other := bo.Y
		if other == v {
			other = bo.X
		}
		kc, ok := other.(*ssa.Const)
		if !ok || constString(kc) != konst {
			return false
		}
	}
	return true
}

// hasStores: the function writes memory that is not a local allocation of its own.
// onlyComparedWithConsts: every use of v is an (in)equality with a constant.
func onlyComparedWithConsts(v ssa.Value) bool {
	refs := v.Referrers()
	if refs == nil {
		return true
	}
	for _, r := range *refs {
		switch x := r.(type) {
		case *ssa.DebugRef:
		case *ssa.BinOp:
			if x.Op != token.EQL && x.Op != token.NEQ {
				return false
			}
			o := x.Y
			if o == v {
				o = x.X
			}
			if _, ok := o.(*ssa.Const); !ok {
				return false
			}
		default:
			return false
		}
	}
	return true
}

func hasStores(fn *ssa.Function) bool {
	for _, b := range fn.Blocks {
		for _, in := range b.Instrs {
			switch x := in.(type) {
			case *ssa.MapUpdate:
				return true
			case *ssa.Store:
				a := x.Addr
				for {
					switch y := a.(type) {
					case *ssa.FieldAddr:
						a = y.X
						continue
					case *ssa.IndexAddr:
						a = y.X
						continue
					}
					break
				}
				if _, local := a.(*ssa.Alloc); !local {
					return true
				}
			}
		}
	}
	return false
}

// ---- (e) custom levels ----------------------------------------------------

func c02Custom(c *Ctx) {
	w := c.W
	fn := w.Method("verifier/trustpolicy", "SignatureVerification", "GetVerificationLevel")
	if fn == nil {
		c.Unk("custom/anchor", "anchor: GetVerificationLevel", "-", "method not found")
		return
	}
	c.SeenFn(fn.String())
	tr, _ := w.constString("verifier/trustpolicy", "TypeRevocation")
	ti, _ := w.constString("verifier/trustpolicy", "TypeIntegrity")
	as, _ := w.constString("verifier/trustpolicy", "ActionSkip")
	// every MapUpdate on an enforcement-typed map in the trust policy package targets a fresh map
	ruleFresh := "ownership: enforcement maps are written only when freshly made in the same function (never a map reachable from the package-level levels)"
	for _, f := range w.FuncsOfPkg("verifier/trustpolicy") {
		if f.Name() == "init" {
			continue
		}
		for _, b := range f.Blocks {
			for _, in := range b.Instrs {
				mu, ok := in.(*ssa.MapUpdate)
				if !ok {
					continue
				}
				if abbrev(types.TypeString(mu.Map.Type(), nil)) != "map[ngo/verifier/trustpolicy.ValidationType]ngo/verifier/trustpolicy.ValidationAction" {
					continue
				}
				c.Evals++
				key := "custom/fresh-map/" + fnName(f)
				if c02FreshMapAt(w, mu.Map, 0) {
					c.OK(key, ruleFresh, w.InstrPos(mu))
				} else {
					c.Bad(key, ruleFresh, w.InstrPos(mu), "store into an enforcement map that is not freshly made here: "+desc(mu.Map))
				}
			}
		}
	}
	// the override store and its gates. The store is looked for in GetVerificationLevel itself and, failing that, in the
	// functions on its call tree (the loop over the overrides, or the store alone, moved into a helper): the gates are then
	// the facts on every path from the entry of GetVerificationLevel to the store — those inside the helper and those on
	// the way to its single call site — all spelled in the frame of GetVerificationLevel (c18Frame, the substitution the
	// engine applies when it composes summaries).
	fr := newC18Frame(w, fn)
	const enfMap = "map[ngo/verifier/trustpolicy.ValidationType]ngo/verifier/trustpolicy.ValidationAction"
	var ov *ssa.MapUpdate
	for _, f := range fr.tree {
		if ov != nil && f != fn {
			break
		}
		if f != fn && (f.Pkg != fn.Pkg || f.Name() == "init" || f.Parent() != nil) {
			continue
		}
		for _, b := range f.Blocks {
			for _, in := range b.Instrs {
				if mu, ok := in.(*ssa.MapUpdate); ok {
					if f != fn && abbrev(types.TypeString(mu.Map.Type(), nil)) != enfMap {
						continue
					}
					// the seeding copy of the base level's map is not an override (in a helper: what the helper ranges over is
					// what its caller handed in)
					kd, vd := fr.val(mu.Key), fr.val(mu.Value)
					if strings.Contains(kd, ".Enforcement)") && strings.Contains(vd, ".Enforcement)") {
						continue
					}
					ov = mu
				}
			}
		}
	}
	if ov == nil {
		c.Unk("custom/override-store", "anchor: the store of an override into the custom level", w.FnPos(fn), "not found")
		return
	}
	ovFn := ov.Parent()
	if ovFn != fn {
		c.SeenFn(ovFn.String())
	}
	g := fr.guards(ov)
	kd, vd := fr.val(ov.Key), fr.val(ov.Value)
	c.Evals++
	// "supported": not the empty answer of the search through the table of supported values, or found in that table by the
	// library search — the table IS the definition of supported
	inTable := func(table, d string) bool {
		return labelHas(g, "T(call:slices.Contains(global:ngo/verifier/trustpolicy."+table+","+d+"))")
	}
	c.Check(labelHas(g, "NE("+kd+`,const:"")`) || inTable("ValidationTypes", kd), "custom/unsupported-type", "effect-site gate: the override store is reachable only for a supported validation type", w.InstrPos(ov),
		"override stored although the type matched no supported type; guards: "+summarizeLabels(g, 10))
	c.Check(labelHas(g, "NE("+vd+`,const:"")`) || inTable("ValidationActions", vd), "custom/unsupported-action", "effect-site gate: the override store is reachable only for a supported action", w.InstrPos(ov),
		"override stored although the action matched no supported action; guards: "+summarizeLabels(g, 10))
	c.Check(labelHas(g, "NE("+kd+fmt.Sprintf(",const:%q)", ti)), "custom/integrity", "effect-site gate: the override store is reachable only for type != integrity", w.InstrPos(ov),
		"integrity can be overridden; guards: "+summarizeLabels(g, 10))
	// skip only for revocation: cutting every edge that can be passed only if {type == revocation or action != skip} must
	// disconnect the store. Which edges those are is decided by c02SkipGateCut: the tests themselves, and the "went well"
	// edges of a validator / predicate helper that is handed the pair and answers well only behind such tests.
	skipCut := func(ffi *FnInfo, kd, vd string) map[edgeKey]bool {
		return c02SkipGateCut(w, ffi.Fn, kd, vd, tr, as, 0)
	}
	// decided where the store is; if the store's own function does not gate it, at the call site of that function, with
	// the pair spelled as the arguments, and so on up to GetVerificationLevel
	okSkip := false
	{
		var at ssa.Instruction = ov
		fkd, fvd := desc(ov.Key), desc(ov.Value)
		for depth := 0; depth < 4 && !okSkip; depth++ {
			f := at.Parent()
			ffi := w.Info(f)
			cut := skipCut(ffi, fkd, fvd)
			c.Evals++
			if len(cut) > 0 && !ffi.reachHit(entryState(), cut, blocksOf(at)) {
				okSkip = true
				break
			}
			if f == fn || !fr.subst(f).ok {
				break
			}
			call := fr.sites[f][0]
			var names, descs []string
			for i, q := range f.Params {
				names = append(names, q.Name())
				descs = append(descs, desc(call.Call.Args[i]))
			}
			fkd, fvd = substParams(fkd, names, descs), substParams(fvd, names, descs)
			at = call
		}
	}
	if !okSkip && ovFn == fn {
		// the pair (type, action) is resolved by an unexported helper whose success the store requires: the same disjunctive gate
		// on the helper's own exits, for the values it hands back
		ke, kok := ov.Key.(*ssa.Extract)
		ve, vok := ov.Value.(*ssa.Extract)
		if kok && vok && ke.Tuple == ve.Tuple {
			if call, ok := ke.Tuple.(*ssa.Call); ok && labelHas(g, "EQ("+descTailErr(call)+",nil)") {
				if H := staticCallee(call); H != nil && H.Blocks != nil && w.IsProductFn(H) {
					hfi := w.Info(H)
					c.SeenFn(H.String())
					hs := w.Summarize(H, Mode{Kind: mErr})
					okSkip = len(hs.Exits) > 0
					hcut := map[edgeKey]bool{}
					for _, ex := range hs.Exits {
						if ke.Index >= len(ex.Ret.Results) || ve.Index >= len(ex.Ret.Results) {
							okSkip = false
							continue
						}
						ec := skipCut(hfi, desc(ex.Ret.Results[ke.Index]), desc(ex.Ret.Results[ve.Index]))
						if len(ec) == 0 {
							okSkip = false
						}
						for e := range ec {
							hcut[e] = true
						}
					}
					if okSkip && hfi.successWitness(Mode{Kind: mErr}, entryState(), hcut) != nil {
						okSkip = false
					}
				}
			}
		}
	}
	c.Check(okSkip, "custom/skip-only-revocation", "effect-site gate (disjunctive): the override store is reachable only if type == revocation or action != skip", w.InstrPos(ov),
		"an override to skip can be stored for a type other than revocation")
	// base level skip cannot be customised; empty override returns the base level
	s := w.Summarize(fn, Mode{Kind: mErr})
	c.Evals += s.States
	var customExit *ExitSum
	// the exits that hand back a level made on the spot (by GetVerificationLevel or by a constructor / helper it calls), as
	// opposed to one of the package-level levels: what the result can be, followed across helper boundaries (c02Leaves)
	var customExits []*ExitSum
	for _, ex := range s.Exits {
		if len(ex.Ret.Results) > 0 {
			leaves, _ := c02Leaves(w, c02ExitResults(ex)[0])
			for _, l := range leaves {
				if _, isAlloc := l.(*ssa.Alloc); isAlloc {
					customExit = ex
				}
			}
			if customExit == ex {
				customExits = append(customExits, ex)
			}
		}
	}
	if customExit == nil {
		c.Unk("custom/skip-base", "anchor: the exit returning the custom level", w.FnPos(fn), "not found")
	} else {
		ok := true
		for _, ex := range customExits {
			if _, h := hasLabel(ex.Checked, "NE(", "global:ngo/verifier/trustpolicy.LevelSkip"); !h {
				ok, customExit = false, ex
			}
		}
		c.Check(ok, "custom/skip-base", "must-check: a custom level is returned only when the base level is not skip", w.InstrPos(customExit.Ret),
			"a custom level can be derived from skip; facts: "+summarizeLabels(customExit.Checked, 10))
	}
}

func labelHas(m map[string]string, l string) bool {
	_, ok := m[l]
	return ok
}

// freshMap: the map value was made in this function.
func freshMap(v ssa.Value, depth int) bool {
	if depth > 4 {
		return false
	}
	switch x := v.(type) {
	case *ssa.MakeMap:
		return true
	case *ssa.Phi:
		for _, e := range x.Edges {
			if !freshMap(e, depth+1) {
				return false
			}
		}
		return len(x.Edges) > 0
	case *ssa.UnOp:
		if x.Op != token.MUL {
			return false
		}
		fa, ok := x.X.(*ssa.FieldAddr)
		if !ok {
			if al, ok := x.X.(*ssa.Alloc); ok {
				if sv := singleStore(al); sv != nil {
					return freshMap(sv, depth+1)
				}
			}
			return false
		}
		al, ok := fa.X.(*ssa.Alloc)
		if !ok {
			return false
		}
		// every store into this field of this alloc stores a fresh map
		n := 0
		for _, r := range *al.Referrers() {
			fa2, ok := r.(*ssa.FieldAddr)
			if !ok || fa2.Field != fa.Field {
				continue
			}
			for _, rr := range *fa2.Referrers() {
				if st, ok := rr.(*ssa.Store); ok && st.Addr == fa2 {
					n++
					if !freshMap(st.Val, depth+1) {
						return false
					}
				}
			}
		}
		return n > 0
	case *ssa.ChangeType:
		return freshMap(x.X, depth+1)
	case *ssa.Call:
		// a module constructor all of whose exits return a fresh map
		g := staticCallee(x)
		if g == nil || g.Blocks == nil {
			return false
		}
		for _, b := range g.Blocks {
			if r, ok := blockTerm(b).(*ssa.Return); ok {
				if len(r.Results) != 1 || !freshMap(r.Results[0], depth+1) {
					return false
				}
			}
		}
		return true
	}
	return false
}

// ---- (i) tables -------------------------------------------------------------

func c02Tables(c *Ctx) {
	w := c.W
	rank := map[string]int{}
	for i, n := range []string{"ActionSkip", "ActionLog", "ActionEnforce"} {
		v, _ := w.constString("verifier/trustpolicy", n)
		rank[v] = i
	}
	var types_ []string
	for _, n := range []string{"TypeIntegrity", "TypeAuthenticity", "TypeAuthenticTimestamp", "TypeExpiry", "TypeRevocation"} {
		v, _ := w.constString("verifier/trustpolicy", n)
		types_ = append(types_, v)
	}
	get := func(name string) (map[string]string, string) {
		e, p := w.pkgVarInit("verifier/trustpolicy", name)
		if e == nil {
			return nil, "-"
		}
		m, _ := mapLiteral(p, structLitField(e, "Enforcement"))
		return m, w.Pos(e.Pos())
	}
	strict, ps := get("LevelStrict")
	perm, _ := get("LevelPermissive")
	audit, _ := get("LevelAudit")
	skip, _ := get("LevelSkip")
	rule := "constant tables: the four level literals are total over the five validation types and point-wise ordered strict >= permissive >= audit >= skip"
	if strict == nil || perm == nil || audit == nil || skip == nil {
		c.Unk("tables/order", rule, ps, "a level literal is not a constant map")
		return
	}
	ok := true
	detail := ""
	for _, t := range types_ {
		for _, m := range []map[string]string{strict, perm, audit, skip} {
			if _, has := m[t]; !has {
				ok = false
				detail = "type " + t + " missing in a level"
			}
		}
		if !(rank[strict[t]] >= rank[perm[t]] && rank[perm[t]] >= rank[audit[t]] && rank[audit[t]] >= rank[skip[t]]) {
			ok = false
			detail = fmt.Sprintf("type %s: strict=%s permissive=%s audit=%s skip=%s is not monotone", t, strict[t], perm[t], audit[t], skip[t])
		}
	}
	c.Evals += 20
	c.Check(ok, "tables/order", rule, ps, detail)
}

// ---- (f) plugin situations ---------------------------------------------------

func c02Plugin(c *Ctx, ro *c02Roles) {
	w := c.W
	// ---- the lookup gates: decided on the graph of L, the function that calls Manager.Get. When L is a helper of the
	// processing function P, c02Boundary establishes (separately) that P succeeds only if L did (plugin/lookup-error) and that L's
	// success exits on the name != "" side are the executions on which P sees a plugin (plugin/lookup-results): a gate
	// that every such exit of L passes is a gate of every success of P with a plugin named — the clause as stated on P.
	F, getCall := ro.L, ro.getCall
	fi := w.Info(F)
	// the plugin name handed to Manager.Get
	nameV := getCall.Call.Args[1]
	nameD := desc(nameV)
	// "the signature names a plugin" is decided by a test of the name or, where the reader of the name ties its error to
	// the name, by a test of that error (c02NameFacts)
	nf := c02NameFactsOf(ro)
	named := nf.namedEdges(fi)
	unnamed := nf.unnamedEdges(fi)
	// the lookup helper may be the BODY of the named branch: the test is then in P, on the argument P hands in as the name,
	// and guards the call (c02NamedEntry): L runs with a plugin named only, all its success exits are exits "with a plugin named"
	entry := c02NamedEntry(ro)
	if len(named) == 0 && entry == nil {
		c.Unk("plugin/precondition", "anchor: the branch on 'the signature names a verification plugin' (name != \"\")", w.InstrPos(getCall), "no test of "+nameD+" against \"\"")
		return
	}
	// paths on which a plugin is named: cut the unnamed edges
	s := fi.summarizeFrom(Mode{Kind: mErr}, entryState(), unnamed)
	c.Evals += s.States
	getD := desc(getCall)
	// GetMetadata is found by dataflow (an invoke of that method on the object Manager.Get returned), not by the static
	// interface type of the variable the object is kept in: `p, err := mgr.Get()` (plugin.Plugin) and
	// `var p VerifyPlugin; p, err = mgr.Get()` dispatch to the same method of the same dynamic value
	var mdErr, mdSemver, mdMin [][]string
	for _, md := range ro.mdCalls {
		mdD := desc(md)
		mdErr = append(mdErr, []string{"EQ(" + mdD + "#err,nil)"})
		mdSemver = append(mdSemver, []string{"T(call:ngo/internal/semver.IsValid(" + mdD + "#0.Version))"})
		// Compare answers -1, 0 or +1: `!= -1`, `>= 0` and `> -1` are the same test
		mdMin = append(mdMin,
			[]string{`NE(call:xsemver.Compare((const:"v" + ` + mdD + `#0.Version),(const:"v" + `, `),const:-1)`},
			[]string{`GE(call:xsemver.Compare((const:"v" + ` + mdD + `#0.Version),(const:"v" + `, `),const:0)`},
			[]string{`GT(call:xsemver.Compare((const:"v" + ` + mdD + `#0.Version),(const:"v" + `, `),const:-1)`})
	}
	if len(ro.mdCalls) == 0 {
		// no such call: the three needs cannot be met (an impossible label keeps them failing, with the facts that do hold)
		mdErr = [][]string{{"\x00no GetMetadata call on the object returned by Manager.Get"}}
		mdSemver, mdMin = mdErr, mdErr
	}
	needs := []Need{
		{Name: "manager-nil", What: "the plugin manager is non-nil", Subs: []string{"NE(" + desc(getCall.Call.Value) + ",nil)"}},
		{Name: "get-error", What: "Manager.Get(name) err == nil", Subs: []string{"EQ(" + getD + "#err,nil)"}},
		{Name: "metadata-error", What: "plugin.GetMetadata err == nil", Alt: mdErr},
		{Name: "version-semver", What: "the plugin version is valid semver", Alt: mdSemver},
		{Name: "min-version", What: "semver.Compare(\"v\"+pluginVersion, \"v\"+minVersion) != -1 (plugin version first)", Alt: mdMin},
		{Name: "min-version-attr", What: "the minimum version attribute is absent or well-formed (error other than not-exist is fail-closed)",
			Alt: [][]string{{"EQ(", "MinVersion", "#err,global:ngo/verifier.errExtendedAttributeNotExist)"}, {"EQ(", "MinVersion", "#err,nil)"}}},
	}
	c.requireOnExits("plugin", F, s.Exits, needs[:5])
	// min-version attribute: error other than errExtendedAttributeNotExist fail-closed (disjunctive: err==nil or err==sentinel)
	{
		rule := "must-check (disjunctive): with a plugin named, success requires the min-version attribute lookup to return nil or the not-exist sentinel"
		var mv *ssa.Call
		findReader := func(f *ssa.Function) {
			for _, ci := range allCalls(f) {
				if call, ok := ci.(*ssa.Call); ok {
					// the reader of the attribute: (…) -> (string, error), the first one on the way (later calls such as the plugin execution may mention the constant too)
					if g := staticCallee(call); g != nil && w.IsProductFn(g) && g != ro.L && mv == nil && g.Signature.Results().Len() == 2 && g.Signature.Results().At(0).Type().String() == "string" && isErrorType(g.Signature.Results().At(1).Type()) && mentionsConst(w, g, "io.cncf.notary.verificationPluginMinVersion") {
						mv = call
					}
				}
			}
		}
		findReader(F)
		mfi, mvUnnamed := fi, unnamed
		if mv == nil && entry != nil {
			// the helper is the body of the named branch, cut behind the reading of the attribute: the reader is called by P and
			// handed in. The obligation is the same sentence on P's graph: every success of P that does not take a "no plugin
			// named" edge passes `err == nil` or `err == sentinel` of the reader
			findReader(ro.P)
			if mv != nil {
				mfi, mvUnnamed = w.Info(ro.P), entry.unnamed
			}
		}
		if mv == nil {
			c.Unk("plugin/min-version-attr", rule, w.FnPos(F), "no call reading the verificationPluginMinVersion attribute found")
		} else {
			d := desc(mv) + "#err"
			// the not-exist sentinel: the package-level error the attribute reader returns
			sentinels := errorGlobalsReturnedBy(w, staticCallee(mv))
			isSent := func(l, d string) bool {
				for _, sg := range sentinels {
					if l == "EQ("+d+","+sg+")" || l == "T(call:errors.Is("+d+","+sg+"))" {
						return true
					}
				}
				return false
			}
			cut := mfi.edgesMatching(func(l string, _ *ssa.If, _ bool) bool {
				return l == "EQ("+d+",nil)" || isSent(l, d)
			})
			nGate := len(cut)
			for e := range mvUnnamed {
				cut[e] = true
			}
			c.Evals++
			if path := mfi.successWitness(Mode{Kind: mErr}, entryState(), cut); path != nil || nGate == 0 {
				c.Bad("plugin/min-version-attr", rule, w.InstrPos(mv), "a malformed minimum-version attribute does not fail verification", path...)
			} else {
				c.OK("plugin/min-version-attr", rule, w.InstrPos(mv))
			}
			c02MinVersionWellFormed(c, mfi, mv, mvUnnamed, isSent)
			// the same for the plugin name attribute itself (all paths)
			nc := callOf(nameV)
			nfi := fi
			if nc == nil && ro.L != ro.P && ro.lcall != nil {
				// the name is a parameter of the lookup helper: the attribute is read by the caller, and it is the caller's
				// success that must require the reader's error to be nil or the sentinel (the same obligation, on P's graph)
				if par, isPar := c02Unconv(nameV).(*ssa.Parameter); isPar && par.Parent() == ro.L {
					for i, q := range ro.L.Params {
						if q == par && i < len(ro.lcall.Call.Args) {
							if pc := callOf(c02Unconv(ro.lcall.Call.Args[i])); pc != nil && pc.Parent() == ro.P {
								nc, nfi = pc, w.Info(ro.P)
							}
						}
					}
				}
			}
			if nc != nil {
				dn := desc(nc) + "#err"
				cut2 := nfi.edgesMatching(func(l string, _ *ssa.If, _ bool) bool {
					return l == "EQ("+dn+",nil)" || isSent(l, dn)
				})
				if path := nfi.successWitness(Mode{Kind: mErr}, entryState(), cut2); path != nil || len(cut2) == 0 {
					c.Bad("plugin/name-attr", "must-check (disjunctive): success requires the plugin-name attribute lookup to return nil or the not-exist sentinel", w.InstrPos(nc), "a malformed plugin-name attribute does not fail verification", path...)
				} else {
					c.OK("plugin/name-attr", "must-check (disjunctive): success requires the plugin-name attribute lookup to return nil or the not-exist sentinel", w.InstrPos(nc))
				}
			}
		}
	}
	// no verifier capability: with a plugin named, the filtered capability list must be non-empty
	{
		rule := "must-check: with a plugin named, success requires a non-empty list of verification capabilities"
		ok := false
		for _, ex := range s.Exits {
			_ = ex
		}
		if len(s.Exits) > 0 {
			ok = true
			for _, ex := range s.Exits {
				if _, h := hasLabel(ex.Checked, "NE(len(", "),const:0)"); !h {
					if _, h2 := hasLabel(ex.Checked, "GT(len(", "),const:0)"); !h2 {
						ok = false
					}
				}
			}
		}
		c.Check(ok, "plugin/no-capability", rule, w.FnPos(F), "a plugin without verification capabilities does not fail verification")
	}
}

// c02Execution: the plugin execution in the processing function P: error fail-closed; verdicts.
func c02Execution(c *Ctx, ro *c02Roles) {
	w := c.W
	F := ro.P
	fi := w.Info(F)
	var exec *ssa.Call
	for _, f := range w.moduleCallees(F) {
		for _, ci := range allCalls(f) {
			if call, ok := ci.(*ssa.Call); ok && calleeName(call) == c02VerifyName {
				exec = call
			}
		}
	}
	if exec == nil {
		c.Unk("plugin/execute", "anchor: the call of VerifyPlugin.VerifySignature", w.FnPos(F), "not found")
		return
	}
	// in F: the call (direct or through a module helper) whose success leads on
	var execInF *ssa.Call
	for _, ci := range allCalls(F) {
		call, ok := ci.(*ssa.Call)
		if !ok {
			continue
		}
		if call == exec {
			execInF = call
			continue
		}
		if g := staticCallee(call); g != nil && w.IsProductFn(g) {
			for _, f := range w.moduleCallees(g) {
				if f == exec.Parent() {
					execInF = call
				}
			}
		}
	}
	if execInF == nil {
		c.Unk("plugin/execute", "anchor: the plugin execution in the processing function", w.FnPos(F), "not found")
		return
	}
	// from the block after the execution, success requires err == nil
	sx := fi.summarizeFrom(Mode{Kind: mErr}, []state{{execInF.Block().Index, 0, -1}}, nil)
	c.Evals += sx.States
	c.requireOnExits("plugin", F, sx.Exits, []Need{
		{Name: "execute-error", What: "plugin execution err == nil", Subs: []string{"EQ(" + descTailErr(execInF) + ",nil)"}},
		{Name: "verify-signature-error", What: "VerifyPlugin.VerifySignature err == nil", Subs: []string{"EQ(call:invoke:pfw/plugin.VerifyPlugin.VerifySignature(", "#err,nil)"}},
	})
	// missing verdict: in the response processing, per capability iteration: result != nil
	c02Verdicts(c, F, execInF)
}

func mentionsConst(w *World, fn *ssa.Function, s string) bool {
	q := fmt.Sprintf("%q", s)
	for _, f := range w.moduleCallees(fn) {
		for _, b := range f.Blocks {
			for _, in := range b.Instrs {
				for _, op := range in.Operands(nil) {
					if op == nil || *op == nil {
						continue
					}
					if k, ok := (*op).(*ssa.Const); ok && constString(k) == q {
						return true
					}
				}
			}
		}
	}
	return false
}

// c02Verdicts: the function that consumes the plugin response.
func c02Verdicts(c *Ctx, F *ssa.Function, execInF *ssa.Call) {
	w := c.W
	// the response value: result 0 of the execution; find the module function receiving it (or F itself). The hand-over may
	// happen in F or in a helper on F's tree that wraps execution and response processing: wherever a call that leads to the
	// plugin execution has its result 0 passed to a module function, that function consumes the response.
	var R *ssa.Function
	var respD string
	for _, f := range w.moduleCallees(F) {
		if R != nil {
			break
		}
		for _, ci := range allCalls(f) {
			call, ok := ci.(*ssa.Call)
			if !ok {
				continue
			}
			g := staticCallee(call)
			if g == nil || !w.IsProductFn(g) || len(call.Call.Args) != len(g.Params) {
				continue
			}
			for i, a := range call.Call.Args {
				e, ok := a.(*ssa.Extract)
				if !ok || e.Index != 0 {
					continue
				}
				xc, ok := e.Tuple.(*ssa.Call)
				if !ok {
					continue
				}
				if xc == execInF || calleeName(xc) == c02VerifyName || (staticCallee(xc) != nil && c02ReachesExec(w, staticCallee(xc))) {
					R = g
					respD = "param:" + g.Params[i].Name()
				}
			}
		}
	}
	if R == nil {
		R = F
		respD = desc(execInF) + "#0"
	}
	c.SeenFn(R.String())
	fi := w.Info(R)
	rule := "per-capability gate: every completed iteration over the requested capabilities passes response.VerificationResults[capability] != nil (a missing verdict fails verification)"
	found := false
	capHeaders := map[int]bool{}
	for _, sl := range sliceLoops(R) {
		labels, ok := fi.mustPassBetween([]int{sl.Body.Index}, map[int]bool{sl.Header.Index: true})
		if !ok {
			continue
		}
		if _, h := hasLabel(labels, "NE("+respD+".VerificationResults[", ",nil)"); h {
			found = true
			capHeaders[sl.Header.Index] = true
			// success exits inside the loop body must also pass it
			cut := fi.edgesMatching(func(l string, _ *ssa.If, _ bool) bool {
				return strings.HasPrefix(l, "NE("+respD+".VerificationResults[") && strings.HasSuffix(l, ",nil)")
			})
			c.Evals++
			if path := fi.successWitness(Mode{Kind: mErr}, []state{{sl.Body.Index, 0, -1}}, cut); path != nil {
				c.Bad("plugin/missing-verdict", rule, w.InstrPos(blockTerm(sl.Header)), "a success exit is reachable from the loop body without the verdict test", path...)
			} else {
				c.OK("plugin/missing-verdict", rule, w.InstrPos(blockTerm(sl.Header)))
			}
			// the loop ranges over the capabilities that were requested
			c.Check(strings.HasPrefix(desc(sl.X), "param:") || strings.Contains(desc(sl.X), "append"), "plugin/verdict-loop-range", "provenance: the verdict loop ranges over the requested capability list", w.InstrPos(blockTerm(sl.Header)), "ranges over "+desc(sl.X))
		}
	}
	if !found {
		c.Bad("plugin/missing-verdict", rule, w.FnPos(R), "no loop in "+fnName(R)+" requires a non-nil verdict for each requested capability")
	}
	// plugin verdicts gate: failure of the plugin's verdict sets Error (covered by gating rule b) —
	// here: the Success flag is consulted for both capabilities
	ti, _ := w.depConstString("github.com/notaryproject/notation-plugin-framework-go/plugin", "CapabilityTrustedIdentityVerifier")
	rv, _ := w.depConstString("github.com/notaryproject/notation-plugin-framework-go/plugin", "CapabilityRevocationCheckVerifier")
	for _, cap := range []struct{ name, val string }{{"trusted-identity", ti}, {"revocation", rv}} {
		c02VerdictEveryPath(c, R, fi, capHeaders, cap.name, cap.val)
		rule := "plugin verdict: under capability " + cap.val + " every path from a verdict with Success == false to the next iteration or to a success exit stores a non-nil Error into a validation result (which rule b then gates)"
		// blocks that store a non-nil Error into a ValidationResult
		cut := map[edgeKey]bool{}
		nStores := c02ErrorStores(w, fi, R, cut)
		// the failing-verdict edges under this capability
		var starts []state
		headers := capHeaders
		for _, b := range R.Blocks {
			iff, ok := blockTerm(b).(*ssa.If)
			if !ok {
				continue
			}
			for j := 0; j < 2; j++ {
				l := condLabel(iff.Cond, j == 0)
				if c02FailedVerdictEdge(l, iff.Cond, j == 0, respD) {
					g := fi.GuardsOf(iff)
					if _, h := hasLabel(g, "EQ(", fmt.Sprintf("const:%q)", cap.val)); h {
						if cut[edgeKey{b.Index, j}] {
							continue // the edge leads straight into a storing block
						}
						starts = append(starts, state{b.Succs[j].Index, 0, -1})
					}
				}
			}
		}
		c.Evals++
		key := "plugin/verdict-" + cap.name
		// a failing-verdict edge that leads directly into a storing block is fine; count them
		direct := 0
		for _, b := range R.Blocks {
			iff, ok := blockTerm(b).(*ssa.If)
			if !ok {
				continue
			}
			for j := 0; j < 2; j++ {
				l := condLabel(iff.Cond, j == 0)
				if c02FailedVerdictEdge(l, iff.Cond, j == 0, respD) && cut[edgeKey{b.Index, j}] {
					if _, h := hasLabel(fi.GuardsOf(iff), "EQ(", fmt.Sprintf("const:%q)", cap.val)); h {
						direct++
					}
				}
			}
		}
		if len(starts) == 0 && direct == 0 {
			c.Bad(key, rule, w.FnPos(R), "no test of the plugin verdict's Success flag under capability == "+cap.val+" in "+fnName(R))
			continue
		}
		bad := false
		var path []string
		if len(starts) > 0 {
			if fi.reachHit(starts, cut, headers) {
				bad = true
			}
			if p := fi.successWitness(Mode{Kind: mErr}, starts, cut); p != nil {
				bad = true
				path = p
			}
		}
		c.Check(!bad && nStores > 0, key, rule, w.FnPos(R), "a failed plugin verdict can be passed over without recording an error", path...)
	}
}

// ---- (g) routing -------------------------------------------------------------

func c02Routing(c *Ctx, ro *c02Roles) {
	w := c.W
	F := ro.P // routing is decided by the processing function
	fi := w.Info(F)
	ti, _ := w.depConstString("github.com/notaryproject/notation-plugin-framework-go/plugin", "CapabilityTrustedIdentityVerifier")
	rv, _ := w.depConstString("github.com/notaryproject/notation-plugin-framework-go/plugin", "CapabilityRevocationCheckVerifier")
	as, _ := w.constString("verifier/trustpolicy", "ActionSkip")
	tr, _ := w.constString("verifier/trustpolicy", "TypeRevocation")
	skipRev := fmt.Sprintf(".VerificationLevel.Enforcement[const:%q],const:%q)", tr, as)

	// native identity check: module callee receiving trustedIdentities and the certificate chain
	var idCall, revCall *ssa.Call
	tiParam := w.paramFedBy(F, ".TrustedIdentities")
	for _, ci := range allCalls(F) {
		call, ok := ci.(*ssa.Call)
		if !ok {
			continue
		}
		g := staticCallee(call)
		if g == nil || !w.IsProductFn(g) {
			continue
		}
		hasTI, hasChain := false, false
		for _, a := range call.Call.Args {
			d := desc(a)
			if d == tiParam || c02FedBy(w, a, ".TrustedIdentities") {
				hasTI = true
			}
			if strings.HasSuffix(d, ".SignerInfo.CertificateChain") {
				hasChain = true
			}
		}
		if hasTI && hasChain && isErrorType(call.Type()) {
			idCall = call
		}
		// the native revocation check: it hands back the validation result of type revocation (allocated by itself or by a
		// constructor of results it calls with that type)
		if g.Signature.Results().Len() == 1 && isVRPtr(g.Signature.Results().At(0).Type()) && c02ReturnsType(w, g, fmt.Sprintf("%q", tr)) {
			revCall = call
		}
	}
	// A native check may be written as a "stage" helper of F (the check, the store of its error into the result, the gate):
	// the anchor is then the call of the stage in F, the check itself is the inner call (c02StageCall states what makes
	// the stage stand for the check)
	var idInner *ssa.Call
	if idCall == nil || revCall == nil {
		for _, f := range w.moduleCallees(F) {
			if f == F || f.Parent() != nil {
				continue
			}
			fti := w.paramFedBy(f, ".TrustedIdentities")
			for _, ci := range allCalls(f) {
				call, ok := ci.(*ssa.Call)
				if !ok {
					continue
				}
				g := staticCallee(call)
				if g == nil || !w.IsProductFn(g) {
					continue
				}
				hasTI, hasChain := false, false
				for _, a := range call.Call.Args {
					d := desc(a)
					if d == fti || c02FedBy(w, a, ".TrustedIdentities") {
						hasTI = true
					}
					if strings.HasSuffix(d, ".SignerInfo.CertificateChain") {
						hasChain = true
					}
				}
				if idCall == nil && hasTI && hasChain && isErrorType(call.Type()) {
					if site := c02StageCall(ro, call); site != nil {
						idCall, idInner = site, call
					}
				}
				if revCall == nil && g.Signature.Results().Len() == 1 && isVRPtr(g.Signature.Results().At(0).Type()) && c02ReturnsType(w, g, fmt.Sprintf("%q", tr)) {
					if site := c02StageCall(ro, call); site != nil {
						revCall = site
					}
				}
			}
		}
	}
	// "capability X is on the plugin's declared list": the edges of F on which the answer is known, whether F asks
	// slices.Contains(list, X) on the spot or tests a flag that was set while the list was built (c02Ownership)
	flagMemo := map[ssa.Value]*c02Flag{}
	ownTI := c02Ownership(ro, ti, []string{rv, ti}, flagMemo)
	ownRV := c02Ownership(ro, rv, []string{rv, ti}, flagMemo)
	ownWhy := func(o *c02Own) string {
		if o.why == "" {
			return ""
		}
		return "; a capability flag was found but not followed: " + o.why
	}
	// identity
	{
		rule := "routing: the native trusted-identity check runs iff the plugin does not declare the trusted-identity capability"
		if idCall == nil {
			c.Unk("routing/identity", rule, w.FnPos(F), "native identity check call not recognised")
		} else {
			g := fi.GuardsOf(idCall)
			_, guarded := hasLabel(g, "F(call:slices.Contains(", fmt.Sprintf(",const:%q))", ti))
			// the same on the edge sets of the ownership answer (Contains form or flag form, c02Ownership): the native check
			// cannot be reached without passing an edge on which "trusted identity is not on the declared list" is known
			if !guarded && len(ownTI.f) > 0 && !fi.reachHit(entryState(), ownTI.f, blocksOf(idCall)) {
				guarded = true
			}
			// completeness: cutting {plugin owns identity} and the edges into the native check disconnects success
			cut := map[edgeKey]bool{}
			for e := range ownTI.t {
				cut[e] = true
			}
			cutInto(fi, idCall.Block(), cut)
			// only paths after the authenticity stage matter: start at entry
			path := fi.successWitness(Mode{Kind: mErr}, entryState(), cut)
			c.Evals += 2
			// the capability list tested is the plugin's declared one
			c.Check(guarded && path == nil, "routing/identity", rule, w.InstrPos(idCall),
				fmt.Sprintf("guarded-by-capability=%v; a success path that skips the native check without the plugin owning it exists=%v%s", guarded, path != nil, ownWhy(ownTI)), path...)
			// its failure sets the authenticity result's Error (then gated by rule b)
			errD := descTailErr(idCall)
			sf, sfi := F, fi
			if idInner != nil {
				// the check is made inside the stage helper: so is the store of its error
				errD = descTailErr(idInner)
				sf = idInner.Parent()
				sfi = w.Info(sf)
			}
			okStore := false
			for _, b := range sf.Blocks {
				for _, in := range b.Instrs {
					if st, ok := in.(*ssa.Store); ok {
						if fa, ok := st.Addr.(*ssa.FieldAddr); ok && isVRPtr(fa.X.Type()) && fieldName(fa.X.Type(), fa.Field) == "Error" && desc(st.Val) == errD {
							gg := sfi.GuardsOf(st)
							if labelHas(gg, "NE("+errD+",nil)") {
								okStore = true
							}
						}
					}
					// the store made by a module helper that is handed the result and the error (`recordFailure(result, err)`): the
					// helper stores that very parameter into the Error field of a validation result on every path
					if call, ok := in.(*ssa.Call); ok && labelHas(sfi.GuardsOf(call), "NE("+errD+",nil)") {
						if g := staticCallee(call); g != nil && g.Blocks != nil && w.IsProductFn(g) {
							for i, a := range call.Call.Args {
								if desc(a) == errD && i < len(g.Params) && c02StoresParamIntoError(g, g.Params[i]) {
									okStore = true
								}
							}
						}
					}
				}
			}
			c.Check(okStore, "routing/identity-result", "the native identity check's error is stored into the authenticity result (then gated)", w.InstrPos(idCall), "the error of the native identity check is dropped")
		}
	}
	// revocation
	{
		rule := "routing: the native revocation check runs iff revocation is not skipped by the level and the plugin does not declare the revocation capability"
		if revCall == nil {
			c.Unk("routing/revocation", rule, w.FnPos(F), "native revocation call not recognised")
		} else {
			g := fi.GuardsOf(revCall)
			_, g1 := hasLabel(g, "NE(", skipRev)
			_, g2 := hasLabel(g, "F(call:slices.Contains(", fmt.Sprintf(",const:%q))", rv))
			if !g2 && len(ownRV.f) > 0 && !fi.reachHit(entryState(), ownRV.f, blocksOf(revCall)) {
				g2 = true
			}
			cut := map[edgeKey]bool{}
			for e := range ownRV.t {
				cut[e] = true
			}
			for e := range fi.edgesMatching(func(l string, _ *ssa.If, _ bool) bool {
				return strings.HasPrefix(l, "EQ(") && strings.HasSuffix(l, skipRev)
			}) {
				cut[e] = true
			}
			cutInto(fi, revCall.Block(), cut)
			path := fi.successWitness(Mode{Kind: mErr}, entryState(), cut)
			c.Evals += 2
			c.Check(g1 && g2 && path == nil, "routing/revocation", rule, w.InstrPos(revCall),
				fmt.Sprintf("guarded-by-not-skip=%v guarded-by-capability=%v; success path skipping native revocation without skip/plugin ownership=%v%s", g1, g2, path != nil, ownWhy(ownRV)), path...)
		}
	}
	// the capability list: declared capabilities filtered to the two verification capabilities
	var capsDeclared ssa.Value // argument of Contains
	for _, ci := range allCalls(F) {
		call, ok := ci.(*ssa.Call)
		if !ok {
			continue
		}
		if calleeName(call) == "slices.Contains" && len(call.Call.Args) == 2 {
			if k, ok := call.Call.Args[1].(*ssa.Const); ok && constString(k) == fmt.Sprintf("%q", ti) {
				capsDeclared = call.Call.Args[0]
			}
		}
	}
	// no Contains call: the list the capability flags speak about (the one built in the loop that sets them, or scanned)
	if capsDeclared == nil && len(ownTI.lists) > 0 {
		capsDeclared = ownTI.lists[0]
	}
	// The two capability lists are followed on SSA values across helper boundaries (c02Leaves): the list a helper hands
	// back is what its success exits return, the list a helper ranges over is the argument of its call site. Where the code
	// that builds a list lives (P, the lookup helper, a filter helper) does not matter; what every value the list can be was
	// built from does.
	{
		rule := "routing: the plugin's capability list tested by the routing is built from metadata.Capabilities of the plugin that was looked up, keeping only the two verification capabilities"
		lst := &c02Lists{ro: ro, rv: rv, ti: ti, seen: map[*ssa.Call]bool{}}
		ok := capsDeclared != nil && lst.declared(capsDeclared) && lst.nApp > 0
		c.Evals++
		detail := "the capability list used for routing is not the filtered metadata.Capabilities of the installed plugin"
		if lst.why != "" {
			detail += ": " + lst.why
		}
		// every ownership answer (both capabilities, every place it is asked or kept) is about that list: the same origins
		for _, l := range append(append([]ssa.Value{}, ownTI.lists...), ownRV.lists...) {
			if ok && l != capsDeclared && !(c02SubsetOf(w, l, capsDeclared) && c02SubsetOf(w, capsDeclared, l)) {
				ok = false
				detail = "the routing asks about a capability list other than the declared one: " + desc(l)
			}
		}
		c.Check(ok, "routing/declared-capabilities", rule, w.FnPos(F), detail)
	}
	// the request list: omits revocation under skip
	{
		rule := "routing: a capability is put on the plugin request only if it is not (revocation while the level skips revocation)"
		// the request: the capability list handed to the plugin execution
		var reqV ssa.Value
		var reqCall *ssa.Call
		for _, ci := range allCalls(F) {
			call, ok := ci.(*ssa.Call)
			if !ok {
				continue
			}
			g := staticCallee(call)
			if g == nil || !c02ReachesExec(w, g) {
				continue
			}
			for _, a := range call.Call.Args {
				if c02IsCapsType(a.Type()) {
					reqV, reqCall = a, call
				}
			}
		}
		lst := &c02Lists{ro: ro, rv: rv, ti: ti, seen: map[*ssa.Call]bool{}}
		var reqApps []*ssa.Call
		var reuse []c02Pos
		if reqV == nil || !lst.requestSources(reqV, c02Pos{F, reqCall.Block(), -1}, capsDeclared, &reqApps, &reuse) || len(reqApps)+len(reuse) == 0 {
			c.Unk("routing/request-omits-skipped-revocation", rule, w.FnPos(F), "the construction of the plugin request capability list was not recognised "+lst.why)
		} else {
			okGate, okFrom := true, true
			site, from := w.FnPos(F), ""
			if len(reqApps) > 0 {
				site = w.InstrPos(reqApps[0])
			}
			// the declared list used as the request as it is: only where the level does not skip revocation
			for _, pos := range reuse {
				f := pos.fn
				cut := w.Info(f).edgesMatching(ro.lift(f, func(l string, _ *ssa.If, _ bool) bool {
					return strings.HasPrefix(l, "NE(") && strings.HasSuffix(l, skipRev)
				}))
				c.Evals++
				if len(cut) == 0 || !c02PosBlocked(w, pos, cut) {
					okGate = false
					site = w.InstrPos(blockTerm(pos.b))
				}
			}
			for _, a := range reqApps {
				f := a.Parent()
				ffi := w.Info(f)
				elems := appendedElems(a.Call.Args[1])
				if len(elems) == 0 {
					okGate, okFrom = false, false
					site = w.InstrPos(a)
					continue
				}
				for _, el := range elems {
					d := desc(el)
					// the level's revocation action is spelled in P's frame (a helper reads it from the level it was handed)
					cut := ffi.edgesMatching(ro.lift(f, func(l string, _ *ssa.If, _ bool) bool {
						return (strings.HasPrefix(l, "NE(") && strings.HasSuffix(l, skipRev)) || l == "NE("+ro.fr.str(f, d)+fmt.Sprintf(",const:%q)", rv)
					}))
					c.Evals++
					if len(cut) < 2 || ffi.reachHit(entryState(), cut, blocksOf(a)) {
						okGate = false
						site = w.InstrPos(a)
					}
					// the request list is built from the declared list
					base := c02ElemBase(el)
					if !(capsDeclared != nil && base != nil && (elemOf(el, capsDeclared) || c02SubsetOf(w, base, capsDeclared))) {
						okFrom = false
						from = d
					}
				}
			}
			c.Check(okGate, "routing/request-omits-skipped-revocation", rule, site, "the revocation capability can be sent to the plugin although the level skips revocation")
			c.Check(okFrom, "routing/request-from-declared", "provenance: the request list is a subset of the declared verification capabilities", site, "request elements come from "+from)
		}
	}
	// executed iff non-empty
	{
		rule := "routing: the plugin is executed only with a non-empty request and a plugin object; with a non-empty request it is always executed"
		var exec *ssa.Call
		for _, ci := range allCalls(F) {
			call, ok := ci.(*ssa.Call)
			if !ok {
				continue
			}
			if calleeName(call) == "invoke:pfw/plugin.VerifyPlugin.VerifySignature" {
				exec = call
			}
			if g := staticCallee(call); g != nil && c02ReachesExec(w, g) {
				exec = call
			}
		}
		if exec == nil {
			c.Unk("routing/executed-iff-requested", rule, w.FnPos(F), "plugin execution not found")
		} else {
			g := fi.GuardsOf(exec)
			_, h := hasLabel(g, "GT(len(", "),const:0)")
			if !h {
				_, h = hasLabel(g, "NE(len(", "),const:0)")
			}
			c.Evals++
			c.Check(h, "routing/executed-iff-requested", rule, w.InstrPos(exec), "the plugin can be executed with an empty capability request; guards: "+summarizeLabels(g, 8))
		}
	}
}

// elemOf: v is an element (Index/IndexAddr load) of slice s (through phis).
func elemOf(v ssa.Value, s ssa.Value) bool {
	u, ok := v.(*ssa.UnOp)
	if !ok || u.Op != token.MUL {
		return false
	}
	ia, ok := u.X.(*ssa.IndexAddr)
	if !ok {
		return false
	}
	return ia.X == s || fwdPhis(s)[ia.X] || fwdPhis(ia.X)[s]
}

func cutInto(fi *FnInfo, b *ssa.BasicBlock, cut map[edgeKey]bool) {
	for _, p := range b.Preds {
		for j, s := range p.Succs {
			if s == b {
				cut[edgeKey{p.Index, j}] = true
			}
		}
	}
}

// allocatesType: g allocates a ValidationResult whose Type is the constant.
func allocatesType(w *World, g *ssa.Function, konst string) bool {
	for _, b := range g.Blocks {
		for _, in := range b.Instrs {
			st, ok := in.(*ssa.Store)
			if !ok {
				continue
			}
			fa, ok := st.Addr.(*ssa.FieldAddr)
			if !ok || namedOf(fa.X.Type()) != vrType || fieldName(fa.X.Type(), fa.Field) != "Type" {
				continue
			}
			if k, ok := st.Val.(*ssa.Const); ok && constString(k) == konst {
				return true
			}
		}
	}
	return false
}

// ---- (h) critical attributes -------------------------------------------------

func c02Critical(c *Ctx, ro *c02Roles) {
	w := c.W
	F := ro.P
	fi := w.Info(F)
	// "a plugin is named" on P's graph: the name test itself, or — when the lookup is a helper — the tests of what the helper
	// hands back (c02Boundary)
	named, unnamed := ro.named, ro.unnamed
	// accounting in F: loops over ...ExtendedAttributes with a fail-closed Critical gate per iteration (header blocks) …
	acct := map[int]bool{}
	for _, sl := range c02AccountingLoops(ro, F) {
		acct[sl.Header.Index] = true
	}
	// … and calls of a helper all of whose success exits lie behind such a loop over the same signer info: behind the call P
	// is accounted for iff it requires the helper's error to be nil, so the call's `err == nil` edges are cut and an exit that
	// returns the helper's error is not a success of its own (a path that drops the error stays open and is reported)
	acctCalls := c02AccountingCalls(ro)
	witness := func(cut map[edgeKey]bool) []string {
		saved := fi.ignoreTail
		fi.ignoreTail = c02CutAccounting(ro, fi, acctCalls, cut)
		defer func() { fi.ignoreTail = saved }()
		return fi.successWitness(Mode{Kind: mErr}, entryState(), cut)
	}
	// h1: no plugin named
	{
		rule := "critical-attribute accounting (no plugin named): every success path traverses a loop over SignedAttributes.ExtendedAttributes whose critical edge is fail-closed"
		cut := map[edgeKey]bool{}
		for e := range named {
			cut[e] = true
		}
		for h := range acct {
			cutInto(fi, F.Blocks[h], cut)
		}
		c.Evals++
		if len(named) == 0 {
			c.Unk("critical-attr-accounting/no-plugin-named", rule, w.FnPos(F), "precondition edge not found")
		} else if path := witness(cut); path != nil {
			c.Bad("critical-attr-accounting/no-plugin-named", rule, w.FnPos(F), "a signature that names no plugin but carries a critical extended attribute is accepted: nothing accounts for the attribute on this path", path...)
		} else {
			c.OK("critical-attr-accounting/no-plugin-named", rule, w.FnPos(F))
		}
	}
	// h0: the enumerator of attributes the plugin must process drops an attribute only for being one of the two plugin headers
	c02Enumerator(c, F)
	// h2: plugin executed — in the response consumer: per unprocessed-critical attribute, ProcessedAttributes must contain its key
	{
		rule := "critical-attribute accounting (plugin executed): every success exit of the response processing passes, for each critical extended attribute that is not a plugin header, ContainsAny(response.ProcessedAttributes, key)"
		ok := false
		site := w.FnPos(F)
		for _, f := range w.moduleCallees(F) {
			ffi := w.Info(f)
			for _, sl := range sliceLoops(f) {
				xd := desc(sl.X)
				if !(strings.Contains(xd, "ExtendedAttributes") || c02RangesExtended(w, sl.X)) {
					continue
				}
				labels, lok := ffi.mustPassBetween([]int{sl.Body.Index}, map[int]bool{sl.Header.Index: true})
				if !lok {
					continue
				}
				if _, h := hasLabel(labels, "T(call:slices.Contains(", ".ProcessedAttributes,", ".Key))"); h {
					// the loop is on every success path of f from entry
					cut := map[edgeKey]bool{}
					cutInto(ffi, sl.Header, cut)
					if ffi.successWitness(Mode{Kind: mErr}, entryState(), cut) == nil {
						ok = true
						site = w.InstrPos(blockTerm(sl.Header))
						// and f's success is required after plugin execution in F (tail or gate): checked by plugin/execute-error + composition
					}
				}
			}
		}
		c.Evals++
		c.Check(ok, "critical-attr-accounting/plugin-executed", rule, site, "no loop requires every critical extended attribute to appear in response.ProcessedAttributes")
	}
	// h3: plugin named but not executed
	{
		rule := "critical-attribute accounting (plugin named, not executed): a success path on which a plugin is named but never executed still accounts for critical extended attributes"
		// paths: named edge taken, execution block avoided
		cut := map[edgeKey]bool{}
		for e := range unnamed {
			cut[e] = true
		}
		for _, ci := range allCalls(F) {
			call, ok := ci.(*ssa.Call)
			if !ok {
				continue
			}
			isExec := calleeName(call) == "invoke:pfw/plugin.VerifyPlugin.VerifySignature"
			if g := staticCallee(call); g != nil && c02ReachesExec(w, g) {
				isExec = true
			}
			if isExec {
				cutInto(fi, call.Block(), cut)
			}
		}
		for h := range acct {
			cutInto(fi, F.Blocks[h], cut)
		}
		c.Evals++
		if path := witness(cut); path != nil {
			c.Bad("critical-attr-accounting/plugin-named-not-executed", rule, w.FnPos(F), "with a plugin named but not executed (every capability it declares is skipped by policy) the signature is accepted and its critical extended attributes were processed by nothing", path...)
		} else {
			c.OK("critical-attr-accounting/plugin-named-not-executed", rule, w.FnPos(F))
		}
	}
}

// c02RangesExtended: the slice value is produced by a module function that
// ranges over SignedAttributes.ExtendedAttributes.
func c02RangesExtended(w *World, v ssa.Value) bool {
	c := callOf(v)
	if c == nil {
		return false
	}
	g := staticCallee(c)
	if g == nil || !w.IsProductFn(g) {
		return false
	}
	for _, sl := range sliceLoops(g) {
		if strings.HasSuffix(desc(sl.X), ".SignedAttributes.ExtendedAttributes") {
			return true
		}
	}
	return false
}

// c02Enumerator: exactness of the filter that decides which extended attributes must be processed by the plugin.
func c02Enumerator(c *Ctx, F *ssa.Function) {
	w := c.W
	h1, _ := w.constString("verifier", "HeaderVerificationPlugin")
	h2, _ := w.constString("verifier", "HeaderVerificationPluginMinVersion")
	// globals that hold exactly the two header constants and are never modified
	headerLists := map[string]bool{}
	if p := w.Pkg("verifier"); p != nil {
		for _, n := range p.Pkg.Scope().Names() {
			v, ok := p.Pkg.Scope().Lookup(n).(*types.Var)
			if !ok {
				continue
			}
			e, pk := w.pkgVarInit("verifier", n)
			cl, ok := e.(*ast.CompositeLit)
			if !ok || len(cl.Elts) != 2 {
				continue
			}
			vals := map[string]bool{}
			for _, el := range cl.Elts {
				if s, ok := constOfExpr(pk, el); ok {
					vals[s] = true
				}
			}
			if !(vals[h1] && vals[h2]) {
				continue
			}
			gname := "global:ngo/verifier." + v.Name()
			mutated := false
			for _, fn := range w.Funcs {
				if fn.Name() == "init" {
					continue
				}
				for _, b := range fn.Blocks {
					for _, in := range b.Instrs {
						if st, ok := in.(*ssa.Store); ok && strings.HasPrefix(desc(st.Addr), gname) {
							mutated = true
						}
					}
				}
			}
			if !mutated {
				headerLists[gname] = true
			}
		}
	}
	n := 0
	for _, E := range w.moduleCallees(F) {
		if E.Signature.Results().Len() != 1 || !strings.HasSuffix(E.Signature.Results().At(0).Type().String(), "signature.Attribute") {
			continue
		}
		efi := w.Info(E)
		for _, sl := range sliceLoops(E) {
			xd := desc(sl.X)
			if !strings.HasSuffix(xd, ".SignedAttributes.ExtendedAttributes") {
				continue
			}
			n++
			c.SeenFn(E.String())
			// the append of the current element
			var app *ssa.BasicBlock
			lb := loopBlocks(sl.Header)
			for bi := range lb {
				for _, in := range E.Blocks[bi].Instrs {
					if cc, ok := in.(*ssa.Call); ok {
						if bi2, ok := cc.Call.Value.(*ssa.Builtin); ok && bi2.Name() == "append" && strings.Contains(desc(cc.Call.Args[1]), xd+"[") {
							app = E.Blocks[bi]
						}
					}
				}
			}
			rule := "enumerator exactness: an extended attribute is left out of the list the plugin must process only if its key is one of the two verification-plugin header constants (membership in the constant list or equality), never by a weaker test"
			if app == nil {
				c.Bad("critical-attr-accounting/enumerator-exact/"+fnName(E), rule, w.FnPos(E), "the loop does not append its element")
				continue
			}
			isHeaderEdge := func(l string, _ *ssa.If, _ bool) bool {
				if strings.HasPrefix(l, "T(call:slices.Contains(") {
					for g := range headerLists {
						if strings.HasPrefix(l, "T(call:slices.Contains("+g+",") && strings.Contains(l, xd+"[") {
							return true
						}
					}
				}
				for _, h := range []string{h1, h2} {
					if strings.HasPrefix(l, "EQ(") && strings.Contains(l, xd+"[") && strings.Contains(l, fmt.Sprintf("const:%q", h)) {
						return true
					}
				}
				return false
			}
			isNonString := func(l string, _ *ssa.If, _ bool) bool {
				return strings.HasPrefix(l, "F(ok(assert("+xd+"[") && strings.HasSuffix(l, ".Key,string)))")
			}
			cut := efi.edgesMatching(isHeaderEdge)
			nHeader := len(cut)
			cutInto(efi, app, cut)
			for e := range efi.edgesMatching(isNonString) {
				cut[e] = true
			}
			start := []state{{sl.Body.Index, 0, -1}}
			c.Evals += 2
			if efi.reachHit(start, cut, map[int]bool{sl.Header.Index: true}) || nHeader == 0 {
				c.Bad("critical-attr-accounting/enumerator-exact/"+fnName(E), rule, w.InstrPos(blockTerm(sl.Header)), "an attribute can be dropped without its key being one of the two plugin header constants (e.g. by a prefix or case-insensitive test)")
			} else {
				c.OK("critical-attr-accounting/enumerator-exact/"+fnName(E), rule, w.InstrPos(blockTerm(sl.Header)))
			}
			// are attributes with a non-string key dropped?
			cut2 := efi.edgesMatching(isHeaderEdge)
			cutInto(efi, app, cut2)
			dropsNonString := efi.reachHit(start, cut2, map[int]bool{sl.Header.Index: true})
			rule2 := "critical attributes with a non-text key (COSE integer labels) are accounted for: the enumerator keeps them, or every consumer of the plugin response fails on a critical attribute whose key is not a string"
			if !dropsNonString {
				c.OK("critical-attr-accounting/non-string-key", rule2+" (kept by the enumerator)", w.FnPos(E))
				continue
			}
			// consumers: functions with the ProcessedAttributes loop
			okAll, nCons := true, 0
			site := w.FnPos(E)
			for _, f := range w.moduleCallees(F) {
				ffi := w.Info(f)
				consumer := false
				for _, sl2 := range sliceLoops(f) {
					if c02RangesExtendedVia(w, sl2.X, E) {
						labels, _ := ffi.mustPassBetween([]int{sl2.Body.Index}, map[int]bool{sl2.Header.Index: true})
						if _, h := hasLabel(labels, "T(call:slices.Contains(", ".ProcessedAttributes,"); h {
							consumer = true
						}
					}
				}
				if !consumer {
					continue
				}
				nCons++
				site = w.FnPos(f)
				found := false
				for _, sl2 := range sliceLoops(f) {
					x2 := desc(sl2.X)
					if !strings.HasSuffix(x2, ".SignedAttributes.ExtendedAttributes") {
						continue
					}
					sel := func(l string, _ *ssa.If, _ bool) bool {
						return (strings.HasPrefix(l, "T(ok(assert("+x2+"[") && strings.HasSuffix(l, ".Key,string)))")) ||
							(strings.HasPrefix(l, "F("+x2+"[") && strings.HasSuffix(l, ".Critical)"))
					}
					lr := loopRef{Header: sl2.Header, Body: sl2.Body, Exit: sl2.Exit, X: sl2.X}
					blocked, ne := iterBlocked(ffi, &lr, Mode{Kind: mErr}, sel)
					cutH := map[edgeKey]bool{}
					cutInto(ffi, sl2.Header, cutH)
					c.Evals += 2
					if blocked && ne >= 2 && ffi.successWitness(Mode{Kind: mErr}, entryState(), cutH) == nil {
						found = true
					}
				}
				if !found {
					okAll = false
				}
			}
			if nCons == 0 {
				okAll = false
			}
			c.Check(okAll, "critical-attr-accounting/non-string-key", rule2, site, "the enumerator leaves out attributes whose key is not a string and the response consumer does not fail on a critical one: a COSE signature with a critical integer-labelled attribute that names an executed plugin is accepted with the attribute processed by nothing")
		}
	}
	if n == 0 {
		c.Unk("critical-attr-accounting/enumerator-exact", "anchor: the function listing the extended attributes the plugin must process", w.FnPos(F), "not found")
	}
}

// c02RangesExtendedVia: v is the result of a call of E.
func c02RangesExtendedVia(w *World, v ssa.Value, E *ssa.Function) bool {
	c := callOf(v)
	return c != nil && staticCallee(c) == E
}

// c02StoresParamIntoError: g stores its parameter p into the Error field of a validation result, in a block every path
// through g passes (the entry block, or one that dominates every Return).
func c02StoresParamIntoError(g *ssa.Function, p *ssa.Parameter) bool {
	for _, b := range g.Blocks {
		for _, in := range b.Instrs {
			st, ok := in.(*ssa.Store)
			if !ok || st.Val != ssa.Value(p) {
				continue
			}
			fa, ok := st.Addr.(*ssa.FieldAddr)
			if !ok || !isVRPtr(fa.X.Type()) || fieldName(fa.X.Type(), fa.Field) != "Error" {
				continue
			}
			all := true
			for _, rb := range g.Blocks {
				if _, isRet := blockTerm(rb).(*ssa.Return); isRet && !(b == rb || b.Dominates(rb)) {
					all = false
				}
			}
			if all {
				return true
			}
		}
	}
	return false
}
