package main

import (
	"go/token"
	"fmt"
	"regexp"
	"strings"

	"golang.org/x/tools/go/ssa"
)

func init() {
	register(&Rule{
		ID:    "C03",
		Title: "trust comes only from the stores the applicable policy names, typed by scheme",
		Run:   runC03All,
		Explain: "(a) who-may-call: X509TrustStore.GetCertificates is invoked at exactly one product site; (b) at that site the type argument is the loader's type parameter, the name is the part after ':' of an element of the trustStores parameter, " +
			"the call is cut by separator-found and by wanted type == prefix (mismatch never reaches the call), a load error leaves the iteration only through failing exits, failing exits return a nil slice, and the result slice is appended only from those calls; " +
			"(c) scheme -> store type: ca iff notary.x509, signingAuthority iff notary.x509.signingAuthority, anything else fail-closed; tsa only for notary.x509 and only from the timestamp path; the scheme is the verified envelope's; " +
			"(d) the name, stores, identities and signatureVerification handed to the signature processing are fields of the one statement returned by the selection function, and the loader receives that stores parameter; " +
			"(e) signature.VerifyAuthenticity receives exactly the loader's certificates, an empty set and a verification error are failing results, a loader error becomes the authenticity result's Error; " +
			"(f) store/*: the store implementation returns, for (type, name), exactly what it just read from the directory of that type and name (the exact-set and known-type obligations of C13, re-decided here: a cache keyed by name alone hands a ca store to a signingAuthority signature); " +
			"(g) applicable/*: the statement whose stores are used is the one selected for the artifact (the selection obligations of C08, re-decided here: stores listed only by other statements never confer trust).",
		NotCov:  "certificate identity (x509.Certificate.Equal inside notation-core-go's VerifyAuthenticity), the trust store's per-file validity rules (C13).",
		Trusted: []string{"go/types, go/ssa", "notation-core-go signature.VerifyAuthenticity", "strings.Cut"},
	})
}

// runC03All: the loader / mapping / authenticity obligations, plus the two neighbouring clauses the statement names explicitly
// ("typed by scheme": the store implementation is keyed by type and name; "the applicable policy statement": selection), which
// are decided by the rules of C13 and C08 and recorded here under C03 keys so that a change that breaks them is reported for C03 too.
func runC03All(c *Ctx) {
	runC03(c)
	c.importObls("C13", runC13, "store/", func(k string) bool {
		return strings.HasPrefix(k, "exact-set/") || strings.HasPrefix(k, "gate/known-type") || strings.HasPrefix(k, "anchor")
	})
	c.importObls("C08", runC08, "applicable/", func(k string) bool {
		for _, p := range []string{"oci/anchor", "oci/loop", "oci/no-early-exit", "oci/selection-predicate", "oci/precedence", "blob/by-name", "blob/global", "blob/not-found/"} {
			if strings.HasPrefix(k, p) {
				return true
			}
		}
		return false
	})
	c.MinCount("store/", 4, "store implementation obligations")
	c.MinCount("applicable/", 5, "statement selection obligations")
}

const getCertsName = "invoke:ngo/verifier/truststore.X509TrustStore.GetCertificates"

func runC03(c *Ctx) {
	w := c.W
	// (a) who may call
	type site struct {
		fn   *ssa.Function
		call *ssa.Call
	}
	var sites []site
	for _, fn := range w.Funcs {
		for _, ci := range allCalls(fn) {
			call, ok := ci.(*ssa.Call)
			if !ok {
				continue
			}
			n := calleeName(call)
			if n == getCertsName || (strings.HasSuffix(n, ").GetCertificates") && strings.HasPrefix(n, "(*ngo/verifier/truststore.")) {
				sites = append(sites, site{fn, call})
			}
			c.Evals++
		}
	}
	ruleA := "who-may-call: truststore.X509TrustStore.GetCertificates is invoked from exactly one product function (the typed loader)"
	if len(sites) != 1 {
		var ss []string
		for _, s := range sites {
			ss = append(ss, w.InstrPos(s.call))
		}
		c.Bad("who-may-call/GetCertificates", ruleA, strings.Join(ss, ", "), fmt.Sprintf("%d call sites found: %v", len(sites), ss))
		if len(sites) == 0 {
			return
		}
	} else {
		c.OK("who-may-call/GetCertificates", ruleA, w.InstrPos(sites[0].call))
	}
	G, L := sites[0].fn, sites[0].call
	c.SeenFn(G.String())
	fi := w.Info(G)
	args := callArgs(L) // recv, ctx, type, name
	if len(args) != 4 {
		c.Unk("loader/shape", "anchor: GetCertificates(ctx, type, name)", w.InstrPos(L), "unexpected arity")
		return
	}
	typeD, nameD := desc(args[2]), desc(args[3])
	reName := regexp.MustCompile(`^call:strings\.Cut\((param:[A-Za-z0-9_]+)\[.*\],const:":"\)#1$`)
	m := reName.FindStringSubmatch(nameD)
	okType := strings.HasPrefix(typeD, "param:")
	c.Check(okType, "loader/type-argument", "provenance: the store type passed to GetCertificates is the loader's wanted-type parameter", w.InstrPos(L), "type argument is "+typeD)
	c.Check(m != nil, "loader/name-argument", "provenance: the store name passed to GetCertificates is strings.Cut(element of the trustStores parameter, \":\") part 2", w.InstrPos(L), "name argument is "+nameD)
	if m == nil || !okType {
		return
	}
	storesParam := m[1]
	cutBase := strings.TrimSuffix(nameD, "#1")
	g := fi.GuardsOf(L)
	c.Evals++
	c.Check(labelHas(g, "T("+cutBase+"#2)"), "loader/separator", "effect-site gate: GetCertificates is reached only when the separator was found", w.InstrPos(L), "guards: "+summarizeLabels(g, 8))
	c.Check(labelHas(g, "EQ("+typeD+","+cutBase+"#0)") || labelHas(g, "EQ("+cutBase+"#0,"+typeD+")"), "loader/type-filter",
		"effect-site gate: GetCertificates is reached only when the wanted type equals the prefix of the listed store (stores of another type are never loaded)", w.InstrPos(L), "guards: "+summarizeLabels(g, 8))
	// every failing exit returns a nil slice; success exits return the accumulated slice
	okNil := true
	var badRet string
	for _, b := range G.Blocks {
		r, ok := blockTerm(b).(*ssa.Return)
		if !ok || len(r.Results) != 2 {
			continue
		}
		cl, _, _, _ := fi.classify(r, state{b.Index, 0, -1}, Mode{Kind: mErr})
		c.Evals++
		if cl == clFail && !isNilConst(r.Results[0]) {
			okNil = false
			badRet = w.InstrPos(r)
		}
	}
	c.Check(okNil, "loader/no-partial-set", "every failing exit of the loader returns a nil certificate slice", w.FnPos(G), "a failing exit returns certificates: "+badRet)
	// load error: from the call block, the loop header and success exits are reachable only through err == nil
	errD := desc(L) + "#err"
	var header *ssa.BasicBlock
	for _, sl := range sliceLoops(G) {
		if desc(sl.X) == storesParam {
			header = sl.Header
		}
	}
	for _, rl := range rangeLoops(G) {
		if desc(rl.X) == storesParam {
			header = rl.Header
		}
	}
	if header == nil {
		c.Bad("loader/range", "the loader ranges over its trustStores parameter", w.FnPos(G), "no loop over "+storesParam)
		return
	}
	c.OK("loader/range", "the loader ranges over its trustStores parameter", w.InstrPos(blockTerm(header)))
	cut := fi.edgesMatching(func(l string, _ *ssa.If, _ bool) bool { return l == "EQ("+errD+",nil)" })
	hit := fi.reachHit([]state{{L.Block().Index, 0, -1}}, cut, map[int]bool{header.Index: true})
	wit := fi.successWitness(Mode{Kind: mErr}, []state{{L.Block().Index, 0, -1}}, cut)
	c.Evals += 2
	c.Check(len(cut) > 0 && !hit && wit == nil, "loader/load-error-fail-closed", "a GetCertificates error leaves the iteration only through failing exits (a listed store that cannot be loaded is never skipped)", w.InstrPos(L),
		"after a load error the loop continues or the loader succeeds", wit...)
	// appended only from GetCertificates results
	okApp, nApp := true, 0
	for _, ci := range allCalls(G) {
		call, ok := ci.(*ssa.Call)
		if !ok {
			continue
		}
		if bi, ok := call.Call.Value.(*ssa.Builtin); ok && bi.Name() == "append" && strings.Contains(call.Type().String(), "x509.Certificate") {
			nApp++
			if e, ok := call.Call.Args[1].(*ssa.Extract); !ok || e.Tuple != L || e.Index != 0 {
				okApp = false
			}
		}
	}
	c.Check(okApp && nApp > 0, "loader/appended-only-from-stores", "the returned slice is appended only from GetCertificates results", w.FnPos(G), fmt.Sprintf("%d appends, foreign source=%v", nApp, !okApp))
	// success exits return that accumulated slice
	okRet := true
	for _, b := range G.Blocks {
		r, ok := blockTerm(b).(*ssa.Return)
		if !ok || len(r.Results) != 2 {
			continue
		}
		if cl, _, _, _ := fi.classify(r, state{b.Index, 0, -1}, Mode{Kind: mErr}); cl != clFail {
			d := desc(r.Results[0])
			if !strings.Contains(d, "append") && d != "const:nil" {
				okRet = false
			}
		}
	}
	c.Check(okRet, "loader/returns-accumulated", "success exits of the loader return the accumulated slice", w.FnPos(G), "a success exit returns something else")

	c03Mapping(c, G, L, typeD, storesParam)
}

// c03SchemeOfEnvelope: v is <S>.SignedAttributes.SigningScheme where S is the SignerInfo of an envelope content — directly, or a
// (pointer to) SignerInfo parameter of an unexported function every call site of which passes such a SignerInfo.
func c03SchemeOfEnvelope(w *World, v ssa.Value) bool {
	// peel .SigningScheme and .SignedAttributes
	base := v
	for _, f := range []string{"SigningScheme", "SignedAttributes"} {
		if ld, ok := base.(*ssa.UnOp); ok && ld.Op == token.MUL {
			base = ld.X
		}
		switch x := base.(type) {
		case *ssa.FieldAddr:
			if fieldName(x.X.Type(), x.Field) != f {
				return false
			}
			base = x.X
		case *ssa.Field:
			if fieldName(x.X.Type(), x.Field) != f {
				return false
			}
			base = x.X
		default:
			return false
		}
	}
	return c03SignerInfoOfEnvelope(w, base, 0)
}

func c03SignerInfoOfEnvelope(w *World, v ssa.Value, depth int) bool {
	if depth > 3 {
		return false
	}
	if ld, ok := v.(*ssa.UnOp); ok && ld.Op == token.MUL {
		v = ld.X
	}
	if d := desc(v); strings.HasSuffix(d, ".EnvelopeContent.SignerInfo") {
		return true
	}
	// a local copy of the envelope's SignerInfo (whatever else happens to the copy, it was taken from the envelope)
	if al, ok := v.(*ssa.Alloc); ok && al.Referrers() != nil {
		n := 0
		for _, r := range *al.Referrers() {
			if st, ok := r.(*ssa.Store); ok && st.Addr == ssa.Value(al) {
				if !strings.HasSuffix(desc(st.Val), ".EnvelopeContent.SignerInfo") {
					return false
				}
				n++
			}
			if fa, ok := r.(*ssa.FieldAddr); ok && addrWritten(fa, 0) {
				return false // a field of the copy is overwritten in this function
			}
		}
		return n > 0
	}
	p, ok := v.(*ssa.Parameter)
	if !ok || namedOf(p.Type()) != "core/signature.SignerInfo" {
		return false
	}
	g := p.Parent()
	if g == nil || !w.IsProductFn(g) || token.IsExported(g.Name()) {
		return false
	}
	pi := -1
	for i, q := range g.Params {
		if q == p {
			pi = i
		}
	}
	sites := 0
	for _, fn := range w.Funcs {
		for _, b := range fn.Blocks {
			for _, in := range b.Instrs {
				if mc, ok := in.(*ssa.MakeClosure); ok && mc.Fn == ssa.Value(g) {
					return false
				}
				ci, ok := in.(ssa.CallInstruction)
				if !ok {
					continue
				}
				for _, a := range ci.Common().Args {
					if a == ssa.Value(g) {
						return false
					}
				}
				if ci.Common().StaticCallee() != g {
					continue
				}
				if len(ci.Common().Args) != len(g.Params) || !c03SignerInfoOfEnvelope(w, ci.Common().Args[pi], depth+1) {
					return false
				}
				sites++
			}
		}
	}
	return sites > 0
}

// c03Mapping: callers of the typed loader.
func c03Mapping(c *Ctx, G *ssa.Function, L *ssa.Call, typeD, storesParam string) {
	w := c.W
	typeIdx, storesIdx := -1, -1
	for i, p := range G.Params {
		if "param:"+p.Name() == typeD {
			typeIdx = i
		}
		if "param:"+p.Name() == storesParam {
			storesIdx = i
		}
	}
	if typeIdx < 0 || storesIdx < 0 {
		c.Unk("mapping/params", "anchor: the loader's type and stores parameters", w.FnPos(G), "not found")
		return
	}
	sx, _ := w.depConstString("github.com/notaryproject/notation-core-go/signature", "SigningSchemeX509")
	sa, _ := w.depConstString("github.com/notaryproject/notation-core-go/signature", "SigningSchemeX509SigningAuthority")
	want := map[string]string{`"ca"`: sx, `"signingAuthority"`: sa, `"tsa"`: sx}
	seen := map[string]bool{}
	type wrap struct {
		fn        *ssa.Function
		consts    []string
		storesArg string
	}
	var wraps []wrap
	for _, fn := range w.Funcs {
		for _, ci := range allCalls(fn) {
			call, ok := ci.(*ssa.Call)
			if !ok || staticCallee(call) != G {
				continue
			}
			c.SeenFn(fn.String())
			ffi := w.Info(fn)
			v := call.Call.Args[typeIdx]
			wr := wrap{fn: fn, storesArg: desc(call.Call.Args[storesIdx])}
			type edge struct {
				k    *ssa.Const
				from *ssa.BasicBlock
			}
			var edges []edge
			switch x := v.(type) {
			case *ssa.Const:
				edges = append(edges, edge{x, call.Block()})
			case *ssa.Phi:
				for i, e := range x.Edges {
					if k, ok := e.(*ssa.Const); ok {
						edges = append(edges, edge{k, x.Block().Preds[i]})
					} else {
						c.Bad("mapping/"+fnName(fn), "the store type handed to the loader is a constant chosen by the signing scheme", w.InstrPos(call), "non-constant store type: "+desc(e))
					}
				}
			default:
				// the mapping may live in a helper `scheme -> (store type, error)`: every value-delivering exit of the helper
				// returns a constant under the scheme test of its own parameter, which the caller feeds with its scheme
				handled := false
				if ex, isEx := v.(*ssa.Extract); isEx && ex.Index == 0 {
					if hc, isC := ex.Tuple.(*ssa.Call); isC {
						if H := staticCallee(hc); H != nil && w.IsProductFn(H) && len(hc.Call.Args) == 1 && strings.HasPrefix(desc(hc.Call.Args[0]), "param:") {
							hfi := w.Info(H)
							handled = true
							for _, hb := range H.Blocks {
								hr, isR := blockTerm(hb).(*ssa.Return)
								if !isR || len(hr.Results) != 2 {
									continue
								}
								k, isK := hr.Results[0].(*ssa.Const)
								if !isK {
									handled = false
									continue
								}
								if isErrorType(hr.Results[1].Type()) {
									if !isNilConst(hr.Results[1]) {
										continue // failing exit
									}
								} else if kb, isB := hr.Results[1].(*ssa.Const); isB && constString(kb) == "false" {
									continue // failing exit (ok == false)
								}
								ks := constString(k)
								wr.consts = append(wr.consts, ks)
								scheme, known := want[ks]
								key := "mapping/" + strings.Trim(ks, `"`)
								rule := "scheme -> store type: the constant " + ks + " reaches the loader only under signing scheme == " + scheme
								if !known {
									c.Bad(key, "scheme -> store type: only ca, signingAuthority and tsa are loaded", w.InstrPos(hr), "unexpected store type constant "+ks)
									continue
								}
								gl := map[string]string{}
								if hb.Index != 0 {
									gl, _ = hfi.mustPassBetween([]int{0}, map[int]bool{hb.Index: true})
								}
								c.Evals++
								if _, ok := hasLabel(gl, "EQ(param:"+H.Params[0].Name(), fmt.Sprintf(",const:%q)", scheme)); ok {
									c.OK(key, rule+" (in the mapping helper "+fnName(H)+")", w.InstrPos(hr))
									seen[ks] = true
								} else {
									c.Bad(key, rule, w.InstrPos(hr), "the helper returns the constant without that scheme test; guards: "+summarizeLabels(gl, 8))
								}
							}
							// the helper's error gates the load
							if gg := ffi.GuardsOf(call); !labelHas(gg, "EQ("+desc(hc)+"#err,nil)") && !labelHas(gg, "T("+desc(hc)+"#1)") {
								handled = false
							}
						}
					}
				}
				if !handled {
					c.Bad("mapping/"+fnName(fn), "the store type handed to the loader is a constant chosen by the signing scheme", w.InstrPos(call), "non-constant store type: "+desc(v))
				}
			}
			for _, e := range edges {
				ks := constString(e.k)
				wr.consts = append(wr.consts, ks)
				scheme, known := want[ks]
				key := "mapping/" + strings.Trim(ks, `"`)
				rule := "scheme -> store type: the constant " + ks + " reaches the loader only under signing scheme == " + scheme
				if !known {
					c.Bad(key, "scheme -> store type: only ca, signingAuthority and tsa are loaded", w.InstrPos(call), "unexpected store type constant "+ks)
					continue
				}
				var gl map[string]string
				if e.from.Index == 0 {
					gl = map[string]string{}
				} else {
					gl, _ = ffi.mustPassBetween([]int{0}, map[int]bool{e.from.Index: true})
				}
				// also the guards of the call itself (constant argument case)
				if gl2 := ffi.GuardsOf(call); gl2 != nil {
					if _, isK := v.(*ssa.Const); isK {
						gl = gl2
					}
				}
				c.Evals++
				lbl, ok := hasLabel(gl, "EQ(param:", fmt.Sprintf(",const:%q)", scheme))
				_ = lbl
				if ok {
					c.OK(key, rule, w.InstrPos(call))
					seen[ks] = true
				} else {
					c.Bad(key, rule, w.InstrPos(call), "the constant reaches the loader without that scheme test; guards: "+summarizeLabels(gl, 8))
				}
			}
			// stores argument is the wrapper's own parameter
			c.Check(strings.HasPrefix(wr.storesArg, "param:"), "mapping/stores-passthrough/"+fnName(fn), "provenance: the wrapper hands its trustStores parameter to the loader unchanged", w.InstrPos(call), "stores argument is "+wr.storesArg)
			wraps = append(wraps, wr)
		}
	}
	for _, k := range []string{`"ca"`, `"signingAuthority"`, `"tsa"`} {
		if !seen[k] {
			c.Unk("mapping/"+strings.Trim(k, `"`), "scheme -> store type mapping instance", "-", "no loader call with store type "+k+" found")
		}
	}
	// callers of the wrappers
	for _, wr := range wraps {
		isTSA := false
		for _, k := range wr.consts {
			if k == `"tsa"` {
				isTSA = true
			}
		}
		for _, fn := range w.Funcs {
			for _, ci := range allCalls(fn) {
				call, ok := ci.(*ssa.Call)
				if !ok || staticCallee(call) != wr.fn {
					continue
				}
				c.SeenFn(fn.String())
				// scheme argument: the verified envelope's signing scheme
				okScheme := false
				for _, a := range call.Call.Args {
					if strings.HasSuffix(desc(a), ".SignerInfo.SignedAttributes.SigningScheme") || c03SchemeOfEnvelope(w, a) {
						okScheme = true
					}
				}
				c.Check(okScheme, "mapping/scheme-provenance/"+fnName(wr.fn)+"@"+fnName(fn), "provenance: the scheme deciding the store type is the verified envelope's SignedAttributes.SigningScheme", w.InstrPos(call), "scheme argument not derived from the envelope")
				hasTS := len(findCalls(fn, "tspclient.ParseSignedToken")) > 0
				if isTSA {
					c.Check(hasTS, "mapping/tsa-only-for-timestamp", "who-may-call: tsa stores are loaded only by the timestamp verification (the function that parses the countersignature)", w.InstrPos(call), "tsa stores loaded from "+fnName(fn))
					// and their certificates never reach VerifyAuthenticity (checked by provenance of that call below)
				} else {
					c03Authenticity(c, fn, call)
					c03Scoping(c, fn, call, wr.fn)
				}
			}
		}
	}
}

// c03Authenticity: in F, the certificates returned by the loader wrapper call
// are exactly what signature.VerifyAuthenticity receives.
func c03Authenticity(c *Ctx, F *ssa.Function, load *ssa.Call) {
	w := c.W
	fi := w.Info(F)
	loadErr := desc(load) + "#err"
	// find VerifyAuthenticity (directly in F or in a module callee that receives the certificates)
	var va *ssa.Call
	var vaFn *ssa.Function
	var viaCall *ssa.Call
	for _, f := range w.moduleCallees(F) {
		for _, ci := range findCalls(f, "core/signature.VerifyAuthenticity") {
			va, vaFn = ci.(*ssa.Call), f
		}
	}
	rule := "provenance: signature.VerifyAuthenticity receives exactly the certificates the scheme-typed loader returned for the applicable statement's stores"
	if va == nil {
		c.Bad("authenticity/verify-call", rule, w.FnPos(F), "signature.VerifyAuthenticity is not called on the authenticity path")
		return
	}
	c.SeenFn(vaFn.String())
	certD := desc(va.Call.Args[1])
	ok := false
	if vaFn == F {
		if e, isE := va.Call.Args[1].(*ssa.Extract); isE && e.Tuple == load && e.Index == 0 {
			ok = true
		}
		viaCall = va
	} else if strings.HasPrefix(certD, "param:") {
		for _, ci := range allCalls(F) {
			call, isC := ci.(*ssa.Call)
			if !isC || staticCallee(call) != vaFn {
				continue
			}
			viaCall = call
			for i, p := range vaFn.Params {
				if "param:"+p.Name() == certD {
					if e, isE := call.Call.Args[i].(*ssa.Extract); isE && e.Tuple == load && e.Index == 0 {
						ok = true
					}
				}
			}
		}
	}
	c.Evals++
	c.Check(ok, "authenticity/certs-from-loader", rule, w.InstrPos(va), "the certificates given to VerifyAuthenticity are "+certD+", not the loader's result")
	if viaCall != nil {
		g := fi.GuardsOf(viaCall)
		c.Check(labelHas(g, "EQ("+loadErr+",nil)"), "authenticity/only-after-successful-load", "effect-site gate: authenticity is evaluated only after the stores were loaded without error", w.InstrPos(viaCall), "guards: "+summarizeLabels(g, 6))
	}
	// loader error becomes the authenticity result's Error
	ta, _ := w.constString("verifier/trustpolicy", "TypeAuthenticity")
	okStore := false
	for _, b := range F.Blocks {
		for _, in := range b.Instrs {
			st, isSt := in.(*ssa.Store)
			if !isSt {
				continue
			}
			fa, isFa := st.Addr.(*ssa.FieldAddr)
			if !isFa || !isVRPtr(fa.X.Type()) || fieldName(fa.X.Type(), fa.Field) != "Error" {
				continue
			}
			carries := desc(st.Val) == loadErr && labelHas(fi.GuardsOf(st), "NE("+loadErr+",nil)")
			// one result object filled in at the end: the stored value is a phi one edge of which is the loader's error,
			// arriving from the branch taken when that error is non-nil
			if ph, isPhi := st.Val.(*ssa.Phi); isPhi && !carries {
				for i, e := range ph.Edges {
					if desc(e) != loadErr {
						continue
					}
					pred := ph.Block().Preds[i]
					gl := map[string]string{}
					if pred.Index != 0 {
						gl, _ = fi.mustPassBetween([]int{0}, map[int]bool{pred.Index: true})
					}
					if labelHas(gl, "NE("+loadErr+",nil)") {
						carries = true
					}
					// or the edge itself is the non-nil branch of the test
					if iff, isIf := blockTerm(pred).(*ssa.If); isIf {
						for j, sc := range pred.Succs {
							if sc == ph.Block() && condLabel(iff.Cond, j == 0) == "NE("+loadErr+",nil)" {
								carries = true
							}
						}
					}
				}
			}
			if carries {
				// the same object has Type authenticity
				if al, isAl := fa.X.(*ssa.Alloc); isAl {
					for _, r := range *al.Referrers() {
						if fa2, ok := r.(*ssa.FieldAddr); ok && fieldName(al.Type(), fa2.Field) == "Type" {
							for _, rr := range *fa2.Referrers() {
								if st2, ok := rr.(*ssa.Store); ok {
									if k, ok := st2.Val.(*ssa.Const); ok && constString(k) == fmt.Sprintf("%q", ta) {
										okStore = true
									}
								}
							}
						}
					}
				}
			}
		}
	}
	c.Evals++
	c.Check(okStore, "authenticity/load-error-is-failure", "a loader error is stored as the Error of an authenticity-typed validation result (it is never ignored)", w.InstrPos(load), "no authenticity result carries the loader's error")
	// inside the function that calls VerifyAuthenticity: empty set and verification error are failing
	mode := Mode{Kind: mErr}
	if vaFn.Signature.Results().Len() == 1 && isVRPtr(vaFn.Signature.Results().At(0).Type()) {
		mode = Mode{Kind: mObj, K: 0}
	}
	s := w.Summarize(vaFn, mode)
	c.Evals += s.States
	if vaFn != F {
		c.requireOnExits("authenticity", vaFn, s.Exits, []Need{
			{Name: "empty-set-fails", What: "len(trusted certificates) >= 1", Alt: [][]string{{"GE(len(" + certD + "),const:1)"}, {"GT(len(" + certD + "),const:0)"}, {"NE(len(" + certD + "),const:0)"}}},
			{Name: "verify-error-fails", What: "signature.VerifyAuthenticity err == nil", Subs: []string{"EQ(call:core/signature.VerifyAuthenticity(", "#err,nil)"}},
		})
		// first argument: the verified signer info
		siD := desc(va.Call.Args[0])
		if strings.HasPrefix(siD, "param:") && viaCall != nil {
			for i, p := range vaFn.Params {
				if "param:"+p.Name() == siD && i < len(viaCall.Call.Args) {
					siD = desc(viaCall.Call.Args[i])
				}
			}
		}
		c.Check(strings.HasSuffix(siD, ".EnvelopeContent.SignerInfo") || strings.HasSuffix(desc(va.Call.Args[0]), ".EnvelopeContent.SignerInfo"), "authenticity/signer-info", "provenance: VerifyAuthenticity is applied to the verified envelope's SignerInfo", w.InstrPos(va), "first argument is "+desc(va.Call.Args[0]))
	}
}

// c03Scoping: the statement fields handed down come from one selected statement.
func c03Scoping(c *Ctx, F *ssa.Function, load *ssa.Call, wrapper *ssa.Function) {
	w := c.W
	// which parameter of F carries the stores?
	var storesParam string
	for _, a := range load.Call.Args {
		d := desc(a)
		if strings.HasPrefix(d, "param:") && strings.Contains(strings.ToLower(d), "store") && !strings.Contains(d, ".") {
			storesParam = d
		}
	}
	rule := "per-statement scoping: the processing function loads the stores of its own trustStores parameter"
	if storesParam == "" {
		c.Bad("scoping/loader-gets-statement-stores", rule, w.InstrPos(load), "the loader does not receive a trustStores parameter of "+fnName(F))
		return
	}
	c.OK("scoping/loader-gets-statement-stores", rule, w.InstrPos(load))
	sIdx := -1
	for i, p := range F.Params {
		if "param:"+p.Name() == storesParam {
			sIdx = i
		}
	}
	// callers of F
	n := 0
	for _, fn := range w.Funcs {
		for _, ci := range allCalls(fn) {
			call, ok := ci.(*ssa.Call)
			if !ok || staticCallee(call) != F {
				continue
			}
			n++
			c.SeenFn(fn.String())
			sd := desc(call.Call.Args[sIdx])
			base := strings.TrimSuffix(sd, ".TrustStores")
			key := "scoping/one-statement/" + fnName(fn)
			rule := "per-statement scoping: name, trust stores, trusted identities and signatureVerification handed to the signature processing are fields of the single statement returned by the policy selection"
			if base == sd {
				c.Bad(key, rule, w.InstrPos(call), "trust stores argument is "+sd)
				continue
			}
			okSel := strings.Contains(base, "GetApplicableTrustPolicy(") || strings.Contains(base, "GetGlobalTrustPolicy(")
			var fields []string
			for _, a := range call.Call.Args {
				d := desc(a)
				if strings.HasPrefix(d, base+".") {
					fields = append(fields, strings.TrimPrefix(d, base+"."))
				} else if strings.HasSuffix(d, ".TrustedIdentities") || strings.HasSuffix(d, ".SignatureVerification") || (strings.HasSuffix(d, ".Name") && strings.Contains(d, "TrustPolicy")) {
					okSel = false
				}
			}
			have := map[string]bool{}
			for _, f := range fields {
				have[f] = true
			}
			c.Evals++
			c.Check(okSel && have["Name"] && have["TrustStores"] && have["TrustedIdentities"] && have["SignatureVerification"], key, rule, w.InstrPos(call),
				fmt.Sprintf("statement base %s; fields taken from it: %v", trunc(base, 120), fields))
		}
	}
	if n == 0 {
		c.Unk("scoping/one-statement", "anchor: callers of the signature processing function", w.FnPos(F), "none found")
	}
}
