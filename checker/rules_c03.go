package main

import (
	"fmt"
	"go/token"
	"sort"
	"strings"

	"golang.org/x/tools/go/ssa"
)

func init() {
	register(&Rule{
		ID:    "C03",
		Title: "trust comes only from the stores the applicable policy names, typed by scheme",
		Run:   runC03All,
		Explain: "(a) who-may-call: X509TrustStore.GetCertificates is invoked at exactly one product site; (b) at that site the type argument is the loader's wanted-type input, the name is the part after the first ':' (strings.Cut, or Index/IndexByte + slicing) of an element of the loader's trust-store list input " +
			"(an input is a parameter, or a field of a parameter object — receiver or options struct of an unexported type, by value or by pointer — that still holds what the caller stored into it; at a call site the input's argument is the call argument or the single value stored into that field before the hand-over, also through an object constructor) " +
			"(or of the entry parameter of a per-entry loader that forwards exactly what GetCertificates returned and whose closed call sites pass such an element); " +
			"the entry may be cut in place or by a module parse helper that hands the parts back as results or as fields of an unexported struct (by value or pointer) next to an error or ok flag: on every success-capable exit of the helper the component is that part of the helper's parameter, the helper's verdict must guard the load, and what all those exits passed (separator found) then holds at the load; " +
			"the type filter is decided on values: every path to the load passes the equal edge of a comparison of the wanted-type input with the part before the ':' of the same entry, " +
			"the call is cut by separator-found and by wanted type == prefix (mismatch never reaches the call), a load error leaves the iteration only through failing exits, failing exits return a nil slice, and the result slice is appended only from those calls; " +
			"(c) scheme -> store type: ca iff notary.x509, signingAuthority iff notary.x509.signingAuthority, anything else fail-closed (switch/if, a mapping helper, or a constant never-written table with an ok test); tsa only for notary.x509 and only from the timestamp path; the scheme is the verified envelope's; " +
			"(d) the trust-store list every loader wrapper receives (authenticity and tsa) is, followed upwards through parameters with closed call-site lists, captured variables, fields of unexported state structs and phis, the TrustStores field of one statement S; " +
			"S is the result of a selection method of the policy document (through selection helpers and parameters); the function that takes S apart hands module code (as call arguments, or stored into fields of an object of an unexported module struct type) only fields of S, among them name, stores, identities and signatureVerification, and stores no field of another statement anywhere; " +
			"(e) signature.VerifyAuthenticity receives exactly the loader's certificates (followed through parameters, phis and forwarding layers), an empty set and a verification error are failing results " +
			"(decided on the value that ends up in the result's error field: literal or result constructor, single exit with an error local), a loader error becomes the Error of an authenticity-typed result " +
			"(stored into a literal / an object created up front, given to a result constructor, or handed on next to the certificates to a function that fails whenever it is non-nil and cannot be bypassed when the load failed), " +
			"and signature.VerifyAuthenticity is reached only behind the nil test of the loader's error, in the caller or, on the handed-on parameter, in the callee; the SignerInfo it is applied to is the recorded envelope content's (also when that content is handed on or held in a local); " +
			"(f) store/*: the store implementation returns, for (type, name), exactly what it just read from the directory of that type and name (the exact-set and known-type obligations of C13, re-decided here: a cache keyed by name alone hands a ca store to a signingAuthority signature); " +
			"(g) applicable/*: the statement whose stores are used is the one selected for the artifact (the selection obligations of C08, re-decided here: stores listed only by other statements never confer trust).",
		NotCov:  "certificate identity (x509.Certificate.Equal inside notation-core-go's VerifyAuthenticity), the trust store's per-file validity rules (C13).",
		Trusted: []string{"go/types, go/ssa", "notation-core-go signature.VerifyAuthenticity", "strings.Cut"},
	})
}

// runC03All: the loader / mapping / authenticity obligations, plus the two neighbouring clauses the statement names explicitly
// ("typed by scheme": the store implementation is keyed by type and name; "the applicable policy statement": selection), which
// are decided by the rules of C13 and C08 and recorded here under C03 keys so that a change that breaks them is reported for C03 too.
func runC03All(c *Ctx) {
	runC03(c)
	c.importObls("C13", runC13, "store/", func(k string) bool {
		return strings.HasPrefix(k, "exact-set/") || strings.HasPrefix(k, "gate/known-type") || strings.HasPrefix(k, "gate/lstat") || strings.HasPrefix(k, "gate/is-directory") || strings.HasPrefix(k, "gate/not-symlink") || strings.HasPrefix(k, "entry/") || strings.HasPrefix(k, "anchor")
	})
	c.importObls("C08", runC08, "applicable/", func(k string) bool {
		for _, p := range []string{"oci/anchor", "oci/loop", "oci/no-early-exit", "oci/selection-predicate", "oci/selection-complete", "oci/precedence", "blob/by-name", "blob/global", "blob/not-found/"} {
			if strings.HasPrefix(k, p) {
				return true
			}
		}
		return false
	})
	c.MinCount("store/", 4, "store implementation obligations")
	c.MinCount("applicable/", 5, "statement selection obligations")
}

const getCertsName = "invoke:ngo/verifier/truststore.X509TrustStore.GetCertificates"

func runC03(c *Ctx) {
	w := c.W
	// (a) who may call
	type site struct {
		fn   *ssa.Function
		call *ssa.Call
	}
	var sites []site
	for _, fn := range w.Funcs {
		for _, ci := range allCalls(fn) {
			call, ok := ci.(*ssa.Call)
			if !ok {
				continue
			}
			n := calleeName(call)
			if n == getCertsName || (strings.HasSuffix(n, ").GetCertificates") && strings.HasPrefix(n, "(*ngo/verifier/truststore.")) {
				sites = append(sites, site{fn, call})
			}
			c.Evals++
		}
	}
	ruleA := "who-may-call: truststore.X509TrustStore.GetCertificates is invoked from exactly one product function (the typed loader)"
	if len(sites) != 1 {
		var ss []string
		for _, s := range sites {
			ss = append(ss, w.InstrPos(s.call))
		}
		c.Bad("who-may-call/GetCertificates", ruleA, strings.Join(ss, ", "), fmt.Sprintf("%d call sites found: %v", len(sites), ss))
		if len(sites) == 0 {
			return
		}
	} else {
		c.OK("who-may-call/GetCertificates", ruleA, w.InstrPos(sites[0].call))
	}
	G, L := sites[0].fn, sites[0].call
	c.SeenFn(G.String())
	fi := w.Info(G)
	args := callArgs(L) // recv, ctx, type, name
	if len(args) != 4 {
		c.Unk("loader/shape", "anchor: GetCertificates(ctx, type, name)", w.InstrPos(L), "unexpected arity")
		return
	}
	typeD, nameD := desc(args[2]), desc(args[3])
	// the inputs of the loader, as values (fourth pass): the wanted type is an input of G (a parameter, or a field of a parameter
	// object); the listed entry that is cut at ':' is an element of a list input of G — or, when the body of the per-entry loop
	// is a function of its own, a string parameter of that function (decided at its call sites, below)
	typeIn, okType := c03InputOf(w, args[2])
	okType = okType && typeIn.of(G)
	storesIn, storesD, entryParam, okName := c03NameSubject(w, G, args[3], nameD)
	// fifth pass: the name as a *part* of a listed entry, whoever cut the entry (c03PartOf): part 1 of an entry that is an element
	// of a list input of G (or G's entry parameter), delivered by a parse helper whose verdict guards the load. The obligation is
	// the same — the name is what follows the first ':' of a listed entry — decided on the value instead of on its printed form;
	// from here on the cut is printed in G's frame, the way the engine prints the helper's facts once they are composed into it.
	g := fi.GuardsOf(L)
	var entryV ssa.Value
	if s := c03AfterColon(args[3]); s != nil {
		entryV = s
	}
	if !okName {
		if pt, isPart := c03PartOf(w, args[3], 0); isPart && pt.k == 1 {
			gated := true
			for _, gl := range pt.gates {
				gated = gated && labelHas(g, gl)
			}
			if p, isP := c03StripConv(pt.s).(*ssa.Parameter); isP && p.Parent() == G {
				entryParam, okName = p, gated
			} else if in, d, isEl := c03ElemOfInput(w, G, c03StripConv(pt.s)); isEl {
				storesIn, storesD, okName = in, d, gated
			}
			if okName {
				entryV = pt.s
				nameD = "call:strings.Cut(" + desc(c03StripConv(pt.s)) + `,const:":")#1`
				g = c03CopyLabels(g, pt.facts) // what every success-capable exit of the helper has passed holds behind its gate
			} else if !gated {
				nameD += " (delivered by a helper whose failure is not tested before the load)"
			}
		}
	}
	c.Check(okType, "loader/type-argument", "provenance: the store type passed to GetCertificates is the loader's wanted-type parameter", w.InstrPos(L), "type argument is "+typeD)
	c.Check(okName, "loader/name-argument", "provenance: the store name passed to GetCertificates is strings.Cut(element of the trustStores parameter, \":\") part 2", w.InstrPos(L), "name argument is "+nameD)
	if !okName || !okType {
		return
	}
	cutBase := strings.TrimSuffix(nameD, "#1")
	c.Evals++
	c.Check(labelHas(g, "T("+cutBase+"#2)"), "loader/separator", "effect-site gate: GetCertificates is reached only when the separator was found", w.InstrPos(L), "guards: "+summarizeLabels(g, 8))
	c.Check(labelHas(g, "EQ("+typeD+","+cutBase+"#0)") || labelHas(g, "EQ("+cutBase+"#0,"+typeD+")") || (entryV != nil && c03TypeFilterOnValues(w, fi, L, typeIn, entryV, g)), "loader/type-filter",
		"effect-site gate: GetCertificates is reached only when the wanted type equals the prefix of the listed store (stores of another type are never loaded)", w.InstrPos(L), "guards: "+summarizeLabels(g, 8))
	if storesIn.valid() {
		c03LoaderBody(c, G, L, typeD, storesD, typeIn, storesIn)
		return
	}
	// per-entry loader: G handles one listed entry (its parameter entryParam). It must hand on exactly what GetCertificates
	// returned (or nothing), fail when GetCertificates fails, and every call site must pass an element of a list input of the
	// caller and the caller's wanted-type input; the caller is then the loader, the call its load site.
	c03EntryLoader(c, G, L)
	entryIdx := c03ParamIndex(entryParam)
	sitesG, closed := c03CallSites(w, G)
	ruleE := "provenance: the per-entry loader is called only with an element of the caller's trustStores parameter and the caller's wanted-type parameter"
	if entryIdx < 0 || !closed || len(sitesG) == 0 {
		c.Bad("loader/name-argument", ruleE, w.FnPos(G), "the per-entry loader "+fnName(G)+" can be called with any entry (call-site list not closed, or parameters not found)")
		return
	}
	for _, s := range sitesG {
		call, isCall := s.(*ssa.Call)
		if !isCall {
			c.Bad("loader/name-argument", ruleE, w.InstrPos(s), "the per-entry loader is started by go/defer")
			continue
		}
		caller := call.Parent()
		td := "a field of a parameter object that cannot be followed"
		var tIn c03Input
		ta, okT := c03InputArg(w, call, typeIn)
		if okT {
			td = desc(ta)
			tIn, okT = c03InputOf(w, ta)
			okT = okT && tIn.of(caller)
		}
		ed := desc(call.Call.Args[entryIdx])
		lIn, lD, okE := c03ElemOfInput(w, caller, call.Call.Args[entryIdx])
		c.Check(okT, "loader/type-argument", "provenance: the store type passed to GetCertificates is the loader's wanted-type parameter", w.InstrPos(call), "type argument of the per-entry loader is "+td)
		c.Check(okE, "loader/name-argument", ruleE, w.InstrPos(call), "entry argument is "+ed)
		if okT && okE {
			c.SeenFn(caller.String())
			c03LoaderBody(c, caller, call, td, lD, tIn, lIn)
		}
	}
}

// c03EntryLoader: the function holding the GetCertificates call handles one listed entry: every exit returns the call's
// certificates or nil (nothing is added), and a GetCertificates error never reaches a success exit.
func c03EntryLoader(c *Ctx, G *ssa.Function, L *ssa.Call) {
	w := c.W
	_, ok := c03Forwards(w, G, L, 0)
	c.Evals++
	c.Check(ok, "loader/entry-loader-forwards", "the per-entry loader returns exactly what GetCertificates returned (or nothing) and fails whenever GetCertificates fails", w.FnPos(G),
		"an exit of "+fnName(G)+" returns other certificates, or succeeds after a load error")
}

// c03LoaderBody: G ranges over its trustStores parameter (storesParam) and loads each entry by the call L (GetCertificates itself,
// or the per-entry loader), whose type argument is G's parameter typeD.
func c03LoaderBody(c *Ctx, G *ssa.Function, L *ssa.Call, typeD, storesParam string, typeIn, storesIn c03Input) {
	w := c.W
	fi := w.Info(G)
	// every failing exit returns a nil slice; success exits return the accumulated slice
	okNil := true
	var badRet string
	for _, b := range G.Blocks {
		r, ok := blockTerm(b).(*ssa.Return)
		if !ok || len(r.Results) != 2 {
			continue
		}
		cl, _, _, _ := fi.classify(r, state{b.Index, 0, -1}, Mode{Kind: mErr})
		c.Evals++
		if cl == clFail && !isNilConst(r.Results[0]) {
			okNil = false
			badRet = w.InstrPos(r)
		}
	}
	c.Check(okNil, "loader/no-partial-set", "every failing exit of the loader returns a nil certificate slice", w.FnPos(G), "a failing exit returns certificates: "+badRet)
	// load error: from the call block, the loop header and success exits are reachable only through err == nil
	errD := desc(L) + "#err"
	var header *ssa.BasicBlock
	for _, sl := range sliceLoops(G) {
		if desc(sl.X) == storesParam {
			header = sl.Header
		}
	}
	for _, rl := range rangeLoops(G) {
		if desc(rl.X) == storesParam {
			header = rl.Header
		}
	}
	if header == nil {
		c.Bad("loader/range", "the loader ranges over its trustStores parameter", w.FnPos(G), "no loop over "+storesParam)
		return
	}
	c.OK("loader/range", "the loader ranges over its trustStores parameter", w.InstrPos(blockTerm(header)))
	cut := fi.edgesMatching(func(l string, _ *ssa.If, _ bool) bool { return l == "EQ("+errD+",nil)" })
	hit := fi.reachHit([]state{{L.Block().Index, 0, -1}}, cut, map[int]bool{header.Index: true})
	wit := fi.successWitness(Mode{Kind: mErr}, []state{{L.Block().Index, 0, -1}}, cut)
	c.Evals += 2
	c.Check(len(cut) > 0 && !hit && wit == nil, "loader/load-error-fail-closed", "a GetCertificates error leaves the iteration only through failing exits (a listed store that cannot be loaded is never skipped)", w.InstrPos(L),
		"after a load error the loop continues or the loader succeeds", wit...)
	// appended only from GetCertificates results
	okApp, nApp := true, 0
	for _, ci := range allCalls(G) {
		call, ok := ci.(*ssa.Call)
		if !ok {
			continue
		}
		if bi, ok := call.Call.Value.(*ssa.Builtin); ok && bi.Name() == "append" && strings.Contains(call.Type().String(), "x509.Certificate") {
			nApp++
			if !c03FromLoadResult(call.Call.Args[1], L) {
				okApp = false
			}
		}
	}
	c.Check(okApp && nApp > 0, "loader/appended-only-from-stores", "the returned slice is appended only from GetCertificates results", w.FnPos(G), fmt.Sprintf("%d appends, foreign source=%v", nApp, !okApp))
	// success exits return that accumulated slice
	okRet := true
	for _, b := range G.Blocks {
		r, ok := blockTerm(b).(*ssa.Return)
		if !ok || len(r.Results) != 2 {
			continue
		}
		if cl, _, _, _ := fi.classify(r, state{b.Index, 0, -1}, Mode{Kind: mErr}); cl != clFail {
			d := desc(r.Results[0])
			if !strings.Contains(d, "append") && d != "const:nil" {
				okRet = false
			}
		}
	}
	c.Check(okRet, "loader/returns-accumulated", "success exits of the loader return the accumulated slice", w.FnPos(G), "a success exit returns something else")

	c03Mapping(c, G, L, typeIn, storesIn)
}

// c03SchemeOfEnvelope: v is <S>.SignedAttributes.SigningScheme where S is the SignerInfo of an envelope content — directly, or a
// (pointer to) SignerInfo parameter of an unexported function every call site of which passes such a SignerInfo.
func c03SchemeOfEnvelope(w *World, v ssa.Value) bool {
	// peel .SigningScheme and .SignedAttributes
	base := v
	for _, f := range []string{"SigningScheme", "SignedAttributes"} {
		if ld, ok := base.(*ssa.UnOp); ok && ld.Op == token.MUL {
			base = ld.X
		}
		switch x := base.(type) {
		case *ssa.FieldAddr:
			if fieldName(x.X.Type(), x.Field) != f {
				return false
			}
			base = x.X
		case *ssa.Field:
			if fieldName(x.X.Type(), x.Field) != f {
				return false
			}
			base = x.X
		default:
			return false
		}
	}
	return c03SignerInfoOfEnvelope(w, base, 0)
}

func c03SignerInfoOfEnvelope(w *World, v ssa.Value, depth int) bool {
	if depth > 3 {
		return false
	}
	if ld, ok := v.(*ssa.UnOp); ok && ld.Op == token.MUL {
		v = ld.X
	}
	if d := desc(v); strings.HasSuffix(d, ".EnvelopeContent.SignerInfo") {
		return true
	}
	// the SignerInfo field of the outcome's envelope content, the content itself having been handed down (parameter narrowed from
	// the outcome to what is needed of it) or being held in a local (see c03EnvelopeContent)
	switch x := v.(type) {
	case *ssa.FieldAddr:
		if fieldName(x.X.Type(), x.Field) == "SignerInfo" && c03EnvelopeContent(w, x.X, depth) {
			return true
		}
	case *ssa.Field:
		if fieldName(x.X.Type(), x.Field) == "SignerInfo" && c03EnvelopeContent(w, x.X, depth) {
			return true
		}
	}
	// a local copy of the envelope's SignerInfo (whatever else happens to the copy, it was taken from the envelope)
	if al, ok := v.(*ssa.Alloc); ok && al.Referrers() != nil {
		n := 0
		for _, r := range *al.Referrers() {
			if st, ok := r.(*ssa.Store); ok && st.Addr == ssa.Value(al) {
				// the value copied is the envelope's SignerInfo: read from the envelope here, or received as a by-value parameter
				// every call site of which passes it
				if !strings.HasSuffix(desc(st.Val), ".EnvelopeContent.SignerInfo") && !c03SignerInfoOfEnvelope(w, st.Val, depth+1) {
					return false
				}
				n++
			}
			if fa, ok := r.(*ssa.FieldAddr); ok && addrWritten(fa, 0) {
				return false // a field of the copy is overwritten in this function
			}
		}
		return n > 0
	}
	p, ok := v.(*ssa.Parameter)
	if !ok || namedOf(p.Type()) != "core/signature.SignerInfo" {
		return false
	}
	g := p.Parent()
	if g == nil || !w.IsProductFn(g) || token.IsExported(g.Name()) {
		return false
	}
	pi := -1
	for i, q := range g.Params {
		if q == p {
			pi = i
		}
	}
	sites := 0
	for _, fn := range w.Funcs {
		for _, b := range fn.Blocks {
			for _, in := range b.Instrs {
				if mc, ok := in.(*ssa.MakeClosure); ok && mc.Fn == ssa.Value(g) {
					return false
				}
				ci, ok := in.(ssa.CallInstruction)
				if !ok {
					continue
				}
				for _, a := range ci.Common().Args {
					if a == ssa.Value(g) {
						return false
					}
				}
				if ci.Common().StaticCallee() != g {
					continue
				}
				if len(ci.Common().Args) != len(g.Params) || !c03SignerInfoOfEnvelope(w, ci.Common().Args[pi], depth+1) {
					return false
				}
				sites++
			}
		}
	}
	return sites > 0
}

// c03Mapping: callers of the typed loader.
func c03Mapping(c *Ctx, G *ssa.Function, L *ssa.Call, typeIn, storesIn c03Input) {
	w := c.W
	if !typeIn.of(G) || !storesIn.of(G) {
		c.Unk("mapping/params", "anchor: the loader's type and stores parameters", w.FnPos(G), "not found")
		return
	}
	sx, _ := w.depConstString("github.com/notaryproject/notation-core-go/signature", "SigningSchemeX509")
	sa, _ := w.depConstString("github.com/notaryproject/notation-core-go/signature", "SigningSchemeX509SigningAuthority")
	want := map[string]string{`"ca"`: sx, `"signingAuthority"`: sa, `"tsa"`: sx}
	seen := map[string]bool{}
	type wrap struct {
		fn        *ssa.Function
		consts    []string
		storesArg string
		storesIdx int // index of the wrapper's own trust-stores parameter
	}
	var wraps []wrap
	for _, fn := range w.Funcs {
		for _, ci := range allCalls(fn) {
			call, ok := ci.(*ssa.Call)
			if !ok || staticCallee(call) != G {
				continue
			}
			c.SeenFn(fn.String())
			ffi := w.Info(fn)
			// what the call passes for the loader's two inputs: the argument, or what the caller put into the field of the
			// parameter object it hands over (c03InputArg)
			v, okV := c03InputArg(w, call, typeIn)
			if !okV {
				c.Bad("mapping/"+fnName(fn), "the store type handed to the loader is a constant chosen by the signing scheme", w.InstrPos(call), "the store type travels in a parameter object whose field cannot be followed to one value stored before the call")
				continue
			}
			wr := wrap{fn: fn, storesArg: "a field of a parameter object that cannot be followed to one value stored before the call", storesIdx: -1}
			if sv, okS := c03InputArg(w, call, storesIn); okS {
				wr.storesArg = desc(sv)
				if sp, isP := sv.(*ssa.Parameter); isP && sp.Parent() == fn {
					wr.storesIdx = c03ParamIndex(sp)
				}
			}
			type edge struct {
				k    *ssa.Const
				from *ssa.BasicBlock
			}
			var edges []edge
			switch x := v.(type) {
			case *ssa.Const:
				edges = append(edges, edge{x, call.Block()})
			case *ssa.Phi:
				for i, e := range x.Edges {
					if k, ok := e.(*ssa.Const); ok {
						edges = append(edges, edge{k, x.Block().Preds[i]})
					} else {
						c.Bad("mapping/"+fnName(fn), "the store type handed to the loader is a constant chosen by the signing scheme", w.InstrPos(call), "non-constant store type: "+desc(e))
					}
				}
			default:
				// the mapping may live in a helper `scheme -> (store type, error)`: every value-delivering exit of the helper
				// returns a constant under the scheme test of its own parameter, which the caller feeds with its scheme
				handled := false
				if ex, isEx := v.(*ssa.Extract); isEx && ex.Index == 0 {
					if hc, isC := ex.Tuple.(*ssa.Call); isC {
						if H := staticCallee(hc); H != nil && w.IsProductFn(H) && len(hc.Call.Args) == 1 && strings.HasPrefix(desc(hc.Call.Args[0]), "param:") {
							hfi := w.Info(H)
							handled = true
							for _, hb := range H.Blocks {
								hr, isR := blockTerm(hb).(*ssa.Return)
								if !isR || len(hr.Results) != 2 {
									continue
								}
								k, isK := hr.Results[0].(*ssa.Const)
								if !isK {
									handled = false
									continue
								}
								if isErrorType(hr.Results[1].Type()) {
									if !isNilConst(hr.Results[1]) {
										continue // failing exit
									}
								} else if kb, isB := hr.Results[1].(*ssa.Const); isB && constString(kb) == "false" {
									continue // failing exit (ok == false)
								}
								ks := constString(k)
								wr.consts = append(wr.consts, ks)
								scheme, known := want[ks]
								key := "mapping/" + strings.Trim(ks, `"`)
								rule := "scheme -> store type: the constant " + ks + " reaches the loader only under signing scheme == " + scheme
								if !known {
									c.Bad(key, "scheme -> store type: only ca, signingAuthority and tsa are loaded", w.InstrPos(hr), "unexpected store type constant "+ks)
									continue
								}
								gl := map[string]string{}
								if hb.Index != 0 {
									gl, _ = hfi.mustPassBetween([]int{0}, map[int]bool{hb.Index: true})
								}
								c.Evals++
								if _, ok := hasLabel(gl, "EQ(param:"+H.Params[0].Name(), fmt.Sprintf(",const:%q)", scheme)); ok {
									c.OK(key, rule+" (in the mapping helper "+fnName(H)+")", w.InstrPos(hr))
									seen[ks] = true
								} else {
									c.Bad(key, rule, w.InstrPos(hr), "the helper returns the constant without that scheme test; guards: "+summarizeLabels(gl, 8))
								}
							}
							// the helper's error gates the load
							if gg := ffi.GuardsOf(call); !labelHas(gg, "EQ("+desc(hc)+"#err,nil)") && !labelHas(gg, "T("+desc(hc)+"#1)") {
								handled = false
							}
						}
					}
				}
				// the mapping written as data: a constant, never written package-level table indexed by the scheme parameter, a
				// missing entry rejected by the ok test
				if !handled {
					if tbl, okLabel, isTbl := c03TableMapping(w, v); isTbl {
						handled = labelHas(ffi.GuardsOf(call), okLabel)
						var schemes []string
						for sch := range tbl {
							schemes = append(schemes, sch)
						}
						sort.Strings(schemes)
						for _, sch := range schemes {
							ks := fmt.Sprintf("%q", tbl[sch])
							wr.consts = append(wr.consts, ks)
							key := "mapping/" + tbl[sch]
							c.Evals++
							if scheme, known := want[ks]; !known {
								c.Bad(key, "scheme -> store type: only ca, signingAuthority and tsa are loaded", w.InstrPos(call), "unexpected store type constant "+ks+" in the table")
							} else if scheme != sch {
								c.Bad(key, "scheme -> store type: the constant "+ks+" reaches the loader only under signing scheme == "+scheme, w.InstrPos(call), "the table maps scheme "+sch+" to "+ks)
							} else {
								c.OK(key, "scheme -> store type: the constant "+ks+" reaches the loader only under signing scheme == "+scheme+" (entry of a constant table indexed by the scheme)", w.InstrPos(call))
								seen[ks] = true
							}
						}
					}
				}
				if !handled {
					c.Bad("mapping/"+fnName(fn), "the store type handed to the loader is a constant chosen by the signing scheme", w.InstrPos(call), "non-constant store type: "+desc(v))
				}
			}
			for _, e := range edges {
				ks := constString(e.k)
				wr.consts = append(wr.consts, ks)
				scheme, known := want[ks]
				key := "mapping/" + strings.Trim(ks, `"`)
				rule := "scheme -> store type: the constant " + ks + " reaches the loader only under signing scheme == " + scheme
				if !known {
					c.Bad(key, "scheme -> store type: only ca, signingAuthority and tsa are loaded", w.InstrPos(call), "unexpected store type constant "+ks)
					continue
				}
				var gl map[string]string
				if e.from.Index == 0 {
					gl = map[string]string{}
				} else {
					gl, _ = ffi.mustPassBetween([]int{0}, map[int]bool{e.from.Index: true})
				}
				// also the guards of the call itself (constant argument case)
				if gl2 := ffi.GuardsOf(call); gl2 != nil {
					if _, isK := v.(*ssa.Const); isK {
						gl = gl2
					}
				}
				c.Evals++
				lbl, ok := hasLabel(gl, "EQ(param:", fmt.Sprintf(",const:%q)", scheme))
				_ = lbl
				if ok {
					c.OK(key, rule, w.InstrPos(call))
					seen[ks] = true
				} else {
					c.Bad(key, rule, w.InstrPos(call), "the constant reaches the loader without that scheme test; guards: "+summarizeLabels(gl, 8))
				}
			}
			// stores argument is the wrapper's own parameter
			c.Check(wr.storesIdx >= 0, "mapping/stores-passthrough/"+fnName(fn), "provenance: the wrapper hands its trustStores parameter to the loader unchanged", w.InstrPos(call), "stores argument is "+wr.storesArg)
			wraps = append(wraps, wr)
		}
	}
	for _, k := range []string{`"ca"`, `"signingAuthority"`, `"tsa"`} {
		if !seen[k] {
			c.Unk("mapping/"+strings.Trim(k, `"`), "scheme -> store type mapping instance", "-", "no loader call with store type "+k+" found")
		}
	}
	// callers of the wrappers. A function that only forwards a wrapper's certificates and error (c03Forwards) is one more
	// layer of the loader: the authenticity obligations are decided at its callers. Scheme provenance and scoping are decided
	// at the wrapper call itself (the scheme and the stores are followed upwards from there, through any number of layers).
	type layer struct {
		fn      *ssa.Function
		isTSA   bool
		first   bool // a scheme -> type wrapper (as opposed to a forwarding layer)
		stores  int  // index of the trust-stores parameter, -1 if unknown
		certIdx int
		depth   int
	}
	var queue []layer
	for _, wr := range wraps {
		isTSA := false
		for _, k := range wr.consts {
			if k == `"tsa"` {
				isTSA = true
			}
		}
		// a wrapper that calls the loader at several sites (one per case) is one wrapper
		dup := false
		for i := range queue {
			if queue[i].fn == wr.fn && queue[i].isTSA == isTSA {
				dup = true
				if queue[i].stores != wr.storesIdx {
					queue[i].stores = -1
				}
			}
		}
		if dup {
			continue
		}
		queue = append(queue, layer{fn: wr.fn, isTSA: isTSA, first: true, stores: wr.storesIdx, certIdx: 0})
	}
	nAuth := 0
	for len(queue) > 0 {
		ly := queue[0]
		queue = queue[1:]
		for _, fn := range w.Funcs {
			for _, ci := range allCalls(fn) {
				call, ok := ci.(*ssa.Call)
				if !ok || staticCallee(call) != ly.fn {
					continue
				}
				c.SeenFn(fn.String())
				if ly.first {
					// scheme argument: the verified envelope's signing scheme
					okScheme := false
					for _, a := range call.Call.Args {
						if c03SchemeProvenance(w, a, 0) {
							okScheme = true
						}
					}
					c.Check(okScheme, "mapping/scheme-provenance/"+fnName(ly.fn)+"@"+fnName(fn), "provenance: the scheme deciding the store type is the verified envelope's SignedAttributes.SigningScheme", w.InstrPos(call), "scheme argument not derived from the envelope")
					if ly.isTSA {
						c.Check(c03OnTimestampPath(w, fn, 0), "mapping/tsa-only-for-timestamp", "who-may-call: tsa stores are loaded only by the timestamp verification (the function that parses the countersignature, or a helper called only by it)", w.InstrPos(call), "tsa stores loaded from "+fnName(fn))
						// and their certificates never reach VerifyAuthenticity (checked by provenance of that call below)
						c03Scoping(c, call, ly.stores, "tsa ")
						continue
					}
					c03Scoping(c, call, ly.stores, "")
				}
				if ly.isTSA {
					continue
				}
				if k, fw := c03Forwards(w, fn, call, ly.certIdx); fw && ly.depth < 3 {
					queue = append(queue, layer{fn: fn, certIdx: k, depth: ly.depth + 1})
					continue
				}
				nAuth++
				c03Authenticity(c, call, ly.certIdx)
			}
		}
	}
	if nAuth == 0 {
		c.Unk("authenticity/verify-call", "anchor: the function that receives the loader's certificates", "-", "no caller of the scheme-typed loader found")
	}
}
