package main

import (
	"fmt"
	"go/token"
	"go/types"
	"regexp"
	"strings"

	"golang.org/x/tools/go/ssa"
)

func init() {
	register(&Rule{
		ID:    "C04",
		Title: "identity pinning matches only the signing certificate's own subject",
		Run:   runC04,
		Explain: "(a) the identity verifier (the verifier function with an identity list and a certificate chain parameter from which the subset function of internal/pkix is reached) reads its certificate slice only at constant index 0, in itself and in every module function it hands the slice to; " +
			"(b) its success exits are the wildcard membership or a true subset test; identity parse error, missing separator, empty value, leaf-subject parse error and 'no x509 identity' are fail-closed (a gate may sit in a module helper: the helper's success edge then is the gate); " +
			"(c) argument order at every subset test in the verifier's call tree: first a parsed x509.subject identity (every value that can reach the list is ParseDN(value part of an identity of the identities parameter), parsed under the fact that its kind is x509.subject), second the parsed subject of certs[0]; " +
			"(d) the subset function (by type func(map,map) bool) ranges over its first argument, calls nothing, and every completed iteration passes a comma-ok lookup in the second map and value equality; true is returned only after the loop; " +
			"(e) the DN parser: '=#' and parse errors fail, multi-valued RDN fails, S is aliased to ST, duplicates fail, each of C, ST, O must be present.",
		NotCov:  "RFC 4514 parsing itself (go-ldap ParseDN); that the native check is skipped only under the plugin capability is rule C02/routing/identity.",
		Trusted: []string{"go/types, go/ssa", "go-ldap ParseDN", "crypto/x509/pkix.Name.String"},
	})
}

func isMapSS(t types.Type) bool {
	m, ok := t.Underlying().(*types.Map)
	if !ok {
		return false
	}
	k, ok1 := m.Key().Underlying().(*types.Basic)
	v, ok2 := m.Elem().Underlying().(*types.Basic)
	return ok1 && ok2 && k.Kind() == types.String && v.Kind() == types.String
}

func runC04(c *Ctx) {
	w := c.W
	// roles in internal/pkix
	var S, P *ssa.Function
	for _, fn := range w.FuncsOfPkg("internal/pkix") {
		if fn.Parent() != nil {
			continue
		}
		sig := fn.Signature
		if sig.Params().Len() == 2 && sig.Results().Len() == 1 && isMapSS(sig.Params().At(0).Type()) && isMapSS(sig.Params().At(1).Type()) {
			if b, ok := sig.Results().At(0).Type().Underlying().(*types.Basic); ok && b.Kind() == types.Bool {
				S = fn
			}
		}
		if sig.Params().Len() == 1 && sig.Results().Len() == 2 && isMapSS(sig.Results().At(0).Type()) && isErrorType(sig.Results().At(1).Type()) {
			P = fn
		}
	}
	if S == nil || P == nil {
		c.Unk("roles", "anchors: the subset function func(map[string]string, map[string]string) bool and the DN parser func(string) (map[string]string, error) of internal/pkix", "-", fmt.Sprintf("subset=%v parser=%v", S != nil, P != nil))
		return
	}
	c04Subset(c, S)
	c04Parser(c, P)
	// the identity verifier, by role: the function of package verifier that is handed the identity list ([]string) and the
	// certificate chain and from which the subset test is reached through static module calls. The test itself may sit in
	// a helper; when such functions are nested, the innermost one that still has both parameters is the verifier.
	var cands []*ssa.Function
	for _, fn := range w.FuncsOfPkg("verifier") {
		if fn.Parent() != nil || fn.Blocks == nil {
			continue
		}
		if ce, id := c04Params(fn); ce == nil || id == nil {
			continue
		}
		for _, g := range w.moduleCallees(fn) {
			if g == S {
				cands = append(cands, fn)
				break
			}
		}
	}
	var Vs []*ssa.Function
	for _, fn := range cands {
		inner := true
		for _, g := range w.moduleCallees(fn) {
			for _, o := range cands {
				if g == o && o != fn {
					inner = false
				}
			}
		}
		if inner {
			Vs = append(Vs, fn)
		}
	}
	if len(Vs) == 0 {
		c.Unk("verifier/anchor", "anchor: the verifier function that is handed the identities and the certificate chain and applies the subset test", "-", "no function of package verifier with a []string and a []*x509.Certificate parameter reaches "+fnName(S))
		return
	}
	for _, V := range Vs {
		c04Verifier(c, V, S, P)
	}
	c.MinCount("", 14, "identity obligations")
}

// c04Params: the certificate chain and the identity list parameter of a function (by type).
func c04Params(fn *ssa.Function) (certs, idents *ssa.Parameter) {
	for _, p := range fn.Params {
		ts := p.Type().String()
		if strings.Contains(ts, "[]*crypto/x509.Certificate") {
			certs = p
		}
		if ts == "[]string" {
			idents = p
		}
	}
	return
}

func c04Subset(c *Ctx, S *ssa.Function) {
	w := c.W
	fi := w.Info(S)
	c.SeenFn(S.String())
	p0, p1 := "param:"+S.Params[0].Name(), "param:"+S.Params[1].Name()
	// instruction whitelist
	okWL := true
	bad := ""
	for _, b := range S.Blocks {
		for _, in := range b.Instrs {
			c.Evals++
			switch x := in.(type) {
			case *ssa.Range, *ssa.Next, *ssa.Extract, *ssa.Lookup, *ssa.If, *ssa.Return, *ssa.Jump, *ssa.Phi, *ssa.DebugRef:
			case *ssa.BinOp:
				if x.Op != token.EQL && x.Op != token.NEQ {
					okWL, bad = false, in.String()
				}
			case *ssa.UnOp:
				if x.Op != token.NOT {
					okWL, bad = false, in.String()
				}
			default:
				// formatting / logging of the arguments takes no part in the comparison
				if onlyFormatted(in, 0) {
					continue
				}
				if _, isAlloc := in.(*ssa.Alloc); isAlloc {
					continue // variadic argument array of such a call (its uses are checked at the call)
				}
				if ia, isIA := in.(*ssa.IndexAddr); isIA {
					if _, ok := ia.X.(*ssa.Alloc); ok {
						continue
					}
				}
				okWL, bad = false, fmt.Sprintf("%T %s", in, in)
			}
		}
	}
	c.Check(okWL, "subset/whitelist", "the subset function consists only of map iteration, lookups and string (in)equality: no call, so no prefix/substring/case-folding comparison", w.FnPos(S), "other instruction: "+bad)
	loops := rangeLoops(S)
	if len(loops) != 1 || desc(loops[0].X) != p0 {
		c.Bad("subset/range-first", "the subset function ranges over its first argument (every attribute of the identity must be matched)", w.FnPos(S), "range operand is not the first parameter")
		return
	}
	c.OK("subset/range-first", "the subset function ranges over its first argument (every attribute of the identity must be matched)", w.InstrPos(loops[0].Next))
	l := loops[0]
	labels, ok := fi.mustPassBetween([]int{l.Body.Index}, map[int]bool{l.Header.Index: true})
	key := "rangekey(" + p0 + ")"
	lk := p1 + "[" + key + "]"
	own := p0 + "[" + key + "]"
	ownV := "rangeval(" + p0 + ")"
	hasOK := ok && labelHas(labels, "T(ok("+lk+"))")
	hasEQ := ok && (labelHas(labels, "EQ("+own+","+lk+")") || labelHas(labels, "EQ("+lk+","+own+")") || labelHas(labels, "EQ("+ownV+","+lk+")") || labelHas(labels, "EQ("+lk+","+ownV+")"))
	c.Check(hasOK, "subset/present", "per-attribute gate: an iteration completes only if the attribute is present in the second map (comma-ok lookup true)", w.InstrPos(l.Next),
		"an attribute absent from the subject can match; facts per completed iteration: "+summarizeLabels(labels, 6))
	c.Check(hasEQ, "subset/equal", "per-attribute gate: an iteration completes only if both maps hold equal values under the key", w.InstrPos(l.Next),
		"facts per completed iteration: "+summarizeLabels(labels, 6))
	// true only after the loop
	cut := map[edgeKey]bool{}
	for _, p := range l.Header.Preds {
		if p != l.Header && loopBlocks(l.Header)[p.Index] {
			for j, s := range p.Succs {
				if s == l.Header {
					cut[edgeKey{p.Index, j}] = true
				}
			}
		}
	}
	wit := fi.successWitness(Mode{Kind: mBool, Want: true}, []state{{l.Body.Index, 0, -1}}, cut)
	c.Check(wit == nil, "subset/true-only-after-loop", "true is returned only after every attribute was compared", w.InstrPos(l.Next), "true can be returned from inside the loop", wit...)
	c.Evals += 3
}

func c04Parser(c *Ctx, P *ssa.Function) {
	w := c.W
	fi := w.Info(P)
	c.SeenFn(P.String())
	s := w.Summarize(P, Mode{Kind: mErr})
	c.Evals += s.States
	pn := "param:" + P.Params[0].Name()
	c.requireOnExits("parser", P, s.Exits, []Need{
		{Name: "no-hex-value", What: "the name does not contain \"=#\"", Subs: []string{"F(call:strings.Contains(" + pn + `,const:"=#"))`}},
		{Name: "parse-error", What: "ldap.ParseDN err == nil", Subs: []string{"EQ(call:ldap.ParseDN(" + pn + ")#err,nil)"}},
	})
	// the result map is fresh
	okFresh := len(s.Exits) > 0
	for _, ex := range s.Exits {
		if _, ok := ex.Ret.Results[0].(*ssa.MakeMap); !ok {
			okFresh = false
		}
	}
	c.Check(okFresh, "parser/result-is-fresh-map", "the parse result is a map made in the parser (order and spacing of the input cannot reach the comparison)", w.FnPos(P), "result is not a fresh map")
	// loops over RDNs and attributes; the loop over the list of mandatory attribute types is the one that ranges over a
	// local literal (`[]string{...}` held in a variable or not, or an array literal)
	var rdnLoop, attrLoop, mandLoop *sliceLoop
	for _, sl := range sliceLoops(P) {
		sl := sl
		d := desc(sl.X)
		switch {
		case strings.HasSuffix(d, ".RDNs"):
			rdnLoop = &sl
		case strings.HasSuffix(d, ".Attributes"):
			attrLoop = &sl
		case c04LitAlloc(sl.X) != nil:
			mandLoop = &sl
		}
	}
	if rdnLoop == nil || attrLoop == nil {
		c.Unk("parser/loops", "anchor: loops over RDNs and their attributes", w.FnPos(P), "not recognised")
		return
	}
	// every RDN and every attribute is read: a parse that succeeds left both loops by exhaustion (an attribute of the
	// identity that is never read is an attribute the subject is never asked for)
	{
		wit := c04LeavesEarly(fi, rdnLoop)
		if wit == nil {
			wit = c04LeavesEarly(fi, attrLoop)
		}
		c.Evals += 2
		c.Check(wit == nil, "parser/every-attribute-read", "a successful parse has iterated over all RDNs and all their attributes", w.InstrPos(blockTerm(rdnLoop.Header)), "the parse can succeed after leaving a loop before its end", wit...)
	}
	// multi-valued RDN: entering the attribute loop requires len(Attributes) <= 1
	{
		labels, ok := fi.mustPassBetween([]int{rdnLoop.Body.Index}, map[int]bool{attrLoop.Header.Index: true})
		_, h := hasLabel(labels, "LE(len(", ".Attributes),const:1)")
		if !h {
			_, h = hasLabel(labels, "LT(len(", ".Attributes),const:2)")
		}
		c.Evals++
		c.Check(ok && h, "parser/multi-valued-rdn", "per-RDN gate: attributes are read only from single-valued RDNs (multi-valued RDN fails)", w.InstrPos(blockTerm(rdnLoop.Header)), "facts: "+summarizeLabels(labels, 6))
	}
	// the map update: guarded by 'no value yet'; duplicates fail
	var mu *ssa.MapUpdate
	for _, b := range P.Blocks {
		for _, in := range b.Instrs {
			if x, ok := in.(*ssa.MapUpdate); ok {
				mu = x
			}
		}
	}
	if mu == nil {
		c.Bad("parser/duplicate", "per-attribute gate: an attribute is stored only if no value was stored for its type before; otherwise the parse fails", w.FnPos(P), "no map store found")
		c.Bad("parser/alias-S-ST", "the attribute type S is rewritten to ST before it is stored", w.FnPos(P), "no map store found")
	} else {
		labels, ok := fi.mustPassBetween([]int{attrLoop.Body.Index}, map[int]bool{attrLoop.Header.Index: true})
		_, h := hasLabel(labels, "EQ(makemap:map[string]string[", `,const:"")`)
		if !h {
			_, h = hasLabel(labels, "F(ok(makemap:map[string]string[")
		}
		g := fi.GuardsOf(mu)
		_, h2 := hasLabel(g, "EQ(makemap:map[string]string[", `,const:"")`)
		if !h2 {
			_, h2 = hasLabel(g, "F(ok(makemap:map[string]string[")
		}
		c.Evals += 2
		c.Check(ok && h && h2, "parser/duplicate", "per-attribute gate: an attribute is stored only if no value was stored for its type before; otherwise the parse fails", w.InstrPos(mu),
			"a duplicate attribute does not fail the parse; per-iteration facts: "+summarizeLabels(labels, 6))
		// value stored is the attribute's Value, key its Type (of the same attribute of this iteration), the key possibly
		// after the S -> ST aliasing
		keyT, aliasOK, aliasWhy := c04AliasedKey(fi, attrLoop, mu)
		attr := strings.TrimSuffix(desc(mu.Value), ".Value")
		idx := "?"
		if iff, ok := blockTerm(attrLoop.Header).(*ssa.If); ok {
			if bo, ok := iff.Cond.(*ssa.BinOp); ok {
				idx = descIndex(bo.X)
			}
		}
		c.Check(strings.HasSuffix(desc(mu.Value), ".Value") && strings.HasSuffix(attr, ".Attributes["+idx+"]") && keyT != nil && desc(keyT) == attr+".Type",
			"parser/stores-type-value", "the map entry is attribute.Type -> attribute.Value", w.InstrPos(mu), desc(mu.Key)+" -> "+desc(mu.Value))
		c.Evals++
		c.Check(aliasOK, "parser/alias-S-ST", "the attribute type S is rewritten to ST before it is stored", w.InstrPos(mu), aliasWhy)
	}
	// mandatory fields
	if mandLoop == nil {
		c.Bad("parser/mandatory", "each of C, ST, O must have a non-empty value", w.FnPos(P), "no loop over the mandatory attribute list")
	} else {
		// the gate of an iteration: the result map holds a non-empty value under the element of the list
		lit := c04LitAlloc(mandLoop.X)
		el := desc(mandLoop.X) + "["
		labels, ok := fi.mustPassBetween([]int{mandLoop.Body.Index}, map[int]bool{mandLoop.Header.Index: true})
		_, h := hasLabel(labels, "NE(makemap:map[string]string["+el, `,const:"")`)
		if !h {
			_, h = hasLabel(labels, "T(ok(makemap:map[string]string["+el)
		}
		// the list contains C, ST, O: the elements of that literal, all constants, nothing else written into it
		have := map[string]bool{}
		if els := orderedLitElems(lit); els != nil && c04LitConstOnly(lit) {
			for _, e := range els {
				if k, isK := e.(*ssa.Const); isK {
					have[constString(k)] = true
				}
			}
		}
		// success exits pass through the mandatory loop, and leave it only when the list is exhausted (not by a break
		// that skips the rest of the list)
		cut := map[edgeKey]bool{}
		cutInto(fi, mandLoop.Header, cut)
		wit := fi.successWitness(Mode{Kind: mErr}, entryState(), cut)
		if wit == nil {
			wit = c04LeavesEarly(fi, mandLoop)
		}
		c.Evals += 2
		c.Check(ok && h && have[`"C"`] && have[`"ST"`] && have[`"O"`] && wit == nil, "parser/mandatory", "each of C, ST, O must have a non-empty value on every success path", w.InstrPos(blockTerm(mandLoop.Header)),
			fmt.Sprintf("list=%v gate=%v bypass=%v", sortedKeys(have), h, wit != nil), wit...)
	}
}

// c04AliasedKey decides the key of the attribute store: which value T it is when it is not the alias, and whether
// "key = ST if T is S, else T" holds. Two forms:
//
//	in place:  `if a.Type == "S" { a.Type = "ST" }; m[a.Type] = ...` — the key is a load of the attribute's Type field; every
//	           path of the iteration to the store passes Type != "S" or the block that stores "ST" into that field
//	           (guarded by Type == "S");
//	local:     `t := a.Type; if t == "S" { t = "ST" }; m[t] = ...` — the key is a phi whose "ST" edges are dominated by
//	           T == "S" and whose T edges by T != "S" (same decision, the ldap attribute is left alone).
//
// In both the map key is "ST" exactly when the attribute type is "S" and the attribute type otherwise, which is the
// clause (S is an alias of ST); T itself is checked against the attribute by the caller.
func c04AliasedKey(fi *FnInfo, attrLoop *sliceLoop, mu *ssa.MapUpdate) (ssa.Value, bool, string) {
	isST := func(v ssa.Value) bool {
		k, ok := v.(*ssa.Const)
		return ok && constString(k) == `"ST"`
	}
	if phi, ok := mu.Key.(*ssa.Phi); ok {
		var T ssa.Value
		for _, e := range phi.Edges {
			if !isST(e) {
				if T != nil && T != e {
					return nil, false, "the key merges more than one value besides \"ST\""
				}
				T = e
			}
		}
		if T == nil {
			return nil, false, "the key is always \"ST\""
		}
		nST := 0
		for i, e := range phi.Edges {
			facts := c04EdgeFacts(phi.Block().Preds[i], phi.Block())
			if isST(e) {
				nST++
				if !facts["EQ("+desc(T)+`,const:"S")`] {
					return T, false, "the key becomes \"ST\" on an edge that is not under type == \"S\""
				}
			} else if !facts["NE("+desc(T)+`,const:"S")`] {
				return T, false, "the key stays the attribute type on an edge that is not under type != \"S\" (S is stored as S)"
			}
		}
		return T, nST > 0, "no edge sets the key to \"ST\""
	}
	// in place
	T := mu.Key
	td := desc(T)
	var stores []*ssa.Store
	for _, b := range fi.Fn.Blocks {
		for _, in := range b.Instrs {
			if st, ok := in.(*ssa.Store); ok && isST(st.Val) && desc(st.Addr) == td {
				if _, h := fi.GuardsOf(st)["EQ("+td+`,const:"S")`]; h {
					stores = append(stores, st)
				}
			}
		}
	}
	if len(stores) == 0 {
		return T, false, "no store of \"ST\" into the attribute type guarded by Type == \"S\""
	}
	cut := fi.edgesMatching(func(l string, _ *ssa.If, _ bool) bool { return l == "NE("+td+`,const:"S")` })
	for _, st := range stores {
		cutInto(fi, st.Block(), cut)
	}
	if mu.Block() != attrLoop.Body && fi.reachHit([]state{{attrLoop.Body.Index, 0, -1}}, cut, blocksOf(mu)) {
		return T, false, "the attribute store is reachable with Type == \"S\" without the rewrite to \"ST\""
	}
	return T, true, ""
}

func c04Verifier(c *Ctx, V *ssa.Function, S, P *ssa.Function) {
	w := c.W
	c.SeenFn(V.String())
	certs, idents := c04Params(V)
	if certs == nil || idents == nil {
		c.Unk("verifier/params", "anchor: the certificate chain and identity list parameters", w.FnPos(V), "not found")
		return
	}
	// (a) the certificate slice is read only at constant index 0 — here and in every module function it is handed to
	// (a helper that receives the chain is held to the same rule on its parameter)
	okIdx := true
	n0 := 0
	var chainUses func(p *ssa.Parameter, depth int)
	chainUses = func(p *ssa.Parameter, depth int) {
		for _, r := range *p.Referrers() {
			c.Evals++
			switch x := r.(type) {
			case *ssa.IndexAddr:
				if k, ok := x.Index.(*ssa.Const); ok && constString(k) == "0" {
					n0++
				} else {
					okIdx = false
				}
			case *ssa.DebugRef:
			case *ssa.Call:
				if bi, ok := x.Call.Value.(*ssa.Builtin); ok && bi.Name() == "len" {
					continue
				}
				g := staticCallee(x)
				if g != nil && g.Blocks != nil && w.IsProductFn(g) && g.Parent() == nil && depth < c04MaxDepth && len(g.Params) == len(x.Call.Args) {
					for i, a := range x.Call.Args {
						if a == ssa.Value(p) {
							c.SeenFn(g.String())
							chainUses(g.Params[i], depth+1)
						}
					}
					continue
				}
				if !onlyFormatted(r, 0) {
					okIdx = false
				}
			default:
				if !onlyFormatted(r, 0) {
					okIdx = false
				}
			}
		}
	}
	chainUses(certs, 0)
	c.Check(okIdx && n0 > 0, "verifier/leaf-only", "the certificate chain is read only at constant index 0 (never an intermediate's or root's subject)", w.FnPos(V), "the chain parameter is used other than as certs[0]")

	// the subset tests of the verifier's call tree, each with the chain of calls that leads to it
	pName := fnName(P)
	xs, _ := w.constString("internal/trustpolicy", "X509Subject")
	roles := newC04Roles(idents.Name(), xs, pName)
	frames := c04Frames(w, V, map[*ssa.Function]bool{S: true, P: true})
	type sSite struct {
		f    *c04Frame
		call *ssa.Call
	}
	var sites []sSite
	for _, f := range frames {
		if f.fn == S || f.fn == P {
			continue
		}
		c.SeenFn(f.fn.String())
		for _, ci := range allCalls(f.fn) {
			if call, ok := ci.(*ssa.Call); ok && staticCallee(call) == S {
				sites = append(sites, sSite{f, call})
			}
		}
	}
	if len(sites) == 0 {
		c.Unk("verifier/subset-test", "anchor: the subset test in the call tree of the identity verifier", w.FnPos(V), "not reached through static module calls")
		return
	}
	// (c) argument order, decided for every subset test in the frame of the verifier: the arguments of a test that sits in
	// a helper are the helper's parameters, i.e. what the verifier (or the helper above) passes at that call.
	leafCall := "call:" + pName + "(call:(crypto/x509/pkix.Name).String(param:" + certs.Name() + "[const:0].Subject))"
	leaf := leafCall + "#0"
	type buildLoop struct {
		f  *c04Frame
		sl sliceLoop
	}
	var loops []buildLoop
	for _, s := range sites {
		a0, a1 := s.call.Call.Args[0], s.call.Call.Args[1]
		c.Check(s.f.up(desc(a1)) == leaf, "verifier/second-arg-leaf-subject", "argument order: the second (superset) argument of the subset test is the parsed subject of certs[0]", w.InstrPos(s.call), "second argument is "+s.f.up(desc(a1)))
		// first argument: every value that can be the map tested is result 0 of the DN parser applied to the value part of an
		// identity of the identities parameter, parsed under the fact that the identity's kind is x509.subject
		fl := &c04Flow{w: w, seen: map[c04FlowKey]bool{}}
		fl.elem(s.f, a0)
		okA0 := len(fl.origins) > 0 && len(fl.unknown) == 0
		var shown []string
		for _, o := range fl.origins {
			c.Evals++
			d := o.f.up(desc(o.v))
			shown = append(shown, trunc(d, 160))
			ex, isEx := o.v.(*ssa.Extract)
			var pc *ssa.Call
			if isEx && ex.Index == 0 {
				pc, _ = ex.Tuple.(*ssa.Call)
			}
			if pc == nil || staticCallee(pc) != P {
				okA0 = false
				continue
			}
			arg := o.f.up(desc(pc.Call.Args[0]))
			if !roles.value.MatchString(arg) {
				okA0 = false
				shown[len(shown)-1] += " [not the value part of an identity]"
				continue
			}
			X := roles.identityOf(idents.Name(), arg)
			isKind := false
			for l := range o.f.guardsUp(w, pc) {
				if roles.is.MatchString(l) && roles.identityOf(idents.Name(), l) == X {
					isKind = true
				}
			}
			if !isKind {
				okA0 = false
				shown[len(shown)-1] += " [parsed without the fact that the identity's kind is " + xs + "]"
			}
			// the loop over the identities in which this element is produced (around the parse, or around a call on the chain to it)
			var in ssa.Instruction = pc
			for g := o.f; g != nil; g = g.parent {
				for _, sl := range sliceLoops(g.fn) {
					if g.up(desc(sl.X)) != "param:"+idents.Name() || !loopBlocks(sl.Header)[in.Block().Index] {
						continue
					}
					dup := false
					for _, bl := range loops {
						if bl.sl.Header == sl.Header {
							dup = true
						}
					}
					if !dup {
						loops = append(loops, buildLoop{g, sl})
					}
				}
				if g.call == nil {
					break
				}
				in = g.call
			}
		}
		c.Check(okA0, "verifier/first-arg-identity", "argument order: the first (subset) argument is an element of the list built from ParseDN(value part of an x509.subject identity of the identities parameter)", w.InstrPos(s.call),
			fmt.Sprintf("first argument %s; values that reach it %v; not followed: %v", trunc(s.f.up(desc(a0)), 200), shown, fl.unknown))
	}

	// (b) success exits
	s := w.Summarize(V, Mode{Kind: mErr})
	c.Evals += s.States
	wc, _ := w.constString("internal/trustpolicy", "Wildcard")
	okExits := len(s.Exits) > 0
	nSubset := 0
	for _, ex := range s.Exits {
		// whole labels, never a part of one: `OR(x, T(call:subset(..)))` (a flag that is true for another reason as well) is not
		// the fact that the subset test answered true
		isWild := labelHas(ex.Checked, "T(call:slices.Contains(param:"+idents.Name()+fmt.Sprintf(",const:%q))", wc))
		isSub := c04HasLabel(ex.Checked, "T(call:"+fnName(S)+"(", ")")
		if isWild && !isSub {
			// the lone wildcard accepts every subject: nothing else may gate this exit
			var extra []string
			for l := range ex.Checked {
				rest := strings.Replace(l, "call:slices.Contains(", "", 1)
				if strings.Contains(rest, "call:") || strings.Contains(rest, "param:"+certs.Name()) {
					extra = append(extra, l)
				}
			}
			c.Check(len(extra) == 0, "verifier/wildcard-unconditional", "the wildcard exit is reachable through the wildcard membership test alone (the lone wildcard accepts every subject, interpretable or not)", w.InstrPos(ex.Ret),
				fmt.Sprintf("the wildcard exit additionally requires: %v", extra))
		}
		if isSub {
			nSubset++
			e1 := labelHas(ex.Checked, "EQ("+leafCall+"#err,nil)")
			e2 := c04HasLabel(ex.Checked, "NE(len(", "),const:0)") || c04HasLabel(ex.Checked, "GT(len(", "),const:0)")
			if !e1 || !e2 {
				okExits = false
				c.Bad("verifier/success-exits", "success exits: wildcard membership, or a true subset test after the leaf subject parsed and at least one x509 identity exists", w.InstrPos(ex.Ret),
					fmt.Sprintf("leaf-parse-gate=%v nonempty-identities-gate=%v", e1, e2))
			}
		}
		if !isWild && !isSub {
			okExits = false
			c.Bad("verifier/success-exits", "success exits: wildcard membership, or a true subset test after the leaf subject parsed and at least one x509 identity exists", w.InstrPos(ex.Ret),
				"success exit without wildcard or subset test; facts: "+summarizeLabels(ex.Checked, 8))
		}
	}
	if okExits && nSubset > 0 {
		c.OK("verifier/success-exits", "success exits: wildcard membership, or a true subset test after the leaf subject parsed and at least one x509 identity exists", w.FnPos(V))
	} else if nSubset == 0 {
		c.Bad("verifier/success-exits", "success exits: wildcard membership, or a true subset test after the leaf subject parsed and at least one x509 identity exists", w.FnPos(V), "no success exit through the subset test")
	}

	// identity loop gates: an iteration of the loop that builds the list ends without failure only through the gate, or
	// through the fact that the identity is of another kind. The loop may sit in the verifier or in a helper that is handed
	// the identities; a gate may sit in a helper called from the loop body (its success edge then is the gate, see c04Cut).
	if len(loops) == 0 {
		c.Unk("verifier/identity-loop", "anchor: the loop over the identities parameter in which the identity list is built", w.FnPos(V), "not found")
		return
	}
	for _, bl := range loops {
		fi := w.Info(bl.f.fn)
		site := w.InstrPos(blockTerm(bl.sl.Header))
		hdr := map[int]bool{bl.sl.Header.Index: true}
		start := []state{{bl.sl.Body.Index, 0, -1}}
		blocked := func(res ...*regexp.Regexp) bool {
			c.Evals++
			cut := c04Cut(w, bl.f, func(l string) bool {
				for _, re := range res {
					if re.MatchString(l) {
						return true
					}
				}
				return false
			})
			return !fi.reachHit(start, cut, hdr)
		}
		labels, _ := fi.mustPassBetween([]int{bl.sl.Body.Index}, hdr)
		c.Check(blocked(roles.sep), "verifier/missing-separator", "per-identity gate: an identity without ':' fails verification", site, "an iteration completes without the separator test; facts: "+summarizeLabels(labels, 6))
		c.Check(blocked(roles.other, roles.nonEmpty), "verifier/empty-value", "per-identity gate: an x509.subject identity with an empty value fails verification", site, "an empty x509.subject value is skipped")
		c.Check(blocked(roles.other, roles.parsed), "verifier/identity-parse-error", "per-identity gate: an x509.subject identity that does not parse fails verification (it is never skipped)", site, "an unparsable identity is skipped")
	}
}
