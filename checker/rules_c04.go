package main

import (
	"fmt"
	"go/token"
	"go/types"
	"strings"

	"golang.org/x/tools/go/ssa"
)

func init() {
	register(&Rule{
		ID:    "C04",
		Title: "identity pinning matches only the signing certificate's own subject",
		Run:   runC04,
		Explain: "(a) the identity verifier (the verifier function that calls the subset function of internal/pkix) reads its certificate slice only at constant index 0; " +
			"(b) its success exits are the wildcard membership or a true subset test; identity parse error, missing separator, empty value, leaf-subject parse error and 'no x509 identity' are fail-closed; " +
			"(c) argument order: first the parsed identity (element of the list built from the identities parameter), second the parsed subject of certs[0]; " +
			"(d) the subset function (by type func(map,map) bool) ranges over its first argument, calls nothing, and every completed iteration passes a comma-ok lookup in the second map and value equality; true is returned only after the loop; " +
			"(e) the DN parser: '=#' and parse errors fail, multi-valued RDN fails, S is aliased to ST, duplicates fail, each of C, ST, O must be present.",
		NotCov:  "RFC 4514 parsing itself (go-ldap ParseDN); that the native check is skipped only under the plugin capability is rule C02/routing/identity.",
		Trusted: []string{"go/types, go/ssa", "go-ldap ParseDN", "crypto/x509/pkix.Name.String"},
	})
}

func isMapSS(t types.Type) bool {
	m, ok := t.Underlying().(*types.Map)
	if !ok {
		return false
	}
	k, ok1 := m.Key().Underlying().(*types.Basic)
	v, ok2 := m.Elem().Underlying().(*types.Basic)
	return ok1 && ok2 && k.Kind() == types.String && v.Kind() == types.String
}

func runC04(c *Ctx) {
	w := c.W
	// roles in internal/pkix
	var S, P *ssa.Function
	for _, fn := range w.FuncsOfPkg("internal/pkix") {
		if fn.Parent() != nil {
			continue
		}
		sig := fn.Signature
		if sig.Params().Len() == 2 && sig.Results().Len() == 1 && isMapSS(sig.Params().At(0).Type()) && isMapSS(sig.Params().At(1).Type()) {
			if b, ok := sig.Results().At(0).Type().Underlying().(*types.Basic); ok && b.Kind() == types.Bool {
				S = fn
			}
		}
		if sig.Params().Len() == 1 && sig.Results().Len() == 2 && isMapSS(sig.Results().At(0).Type()) && isErrorType(sig.Results().At(1).Type()) {
			P = fn
		}
	}
	if S == nil || P == nil {
		c.Unk("roles", "anchors: the subset function func(map[string]string, map[string]string) bool and the DN parser func(string) (map[string]string, error) of internal/pkix", "-", fmt.Sprintf("subset=%v parser=%v", S != nil, P != nil))
		return
	}
	c04Subset(c, S)
	c04Parser(c, P)
	// the identity verifier: function of package verifier calling S
	var V *ssa.Function
	var sCall *ssa.Call
	for _, fn := range w.FuncsOfPkg("verifier") {
		for _, ci := range allCalls(fn) {
			if call, ok := ci.(*ssa.Call); ok && staticCallee(call) == S {
				V, sCall = fn, call
			}
		}
	}
	if V == nil {
		c.Unk("verifier/anchor", "anchor: the verifier function that applies the subset test", "-", "no call of "+fnName(S)+" in package verifier")
		return
	}
	c04Verifier(c, V, sCall, S, P)
	c.MinCount("", 14, "identity obligations")
}

func c04Subset(c *Ctx, S *ssa.Function) {
	w := c.W
	fi := w.Info(S)
	c.SeenFn(S.String())
	p0, p1 := "param:"+S.Params[0].Name(), "param:"+S.Params[1].Name()
	// instruction whitelist
	okWL := true
	bad := ""
	for _, b := range S.Blocks {
		for _, in := range b.Instrs {
			c.Evals++
			switch x := in.(type) {
			case *ssa.Range, *ssa.Next, *ssa.Extract, *ssa.Lookup, *ssa.If, *ssa.Return, *ssa.Jump, *ssa.Phi, *ssa.DebugRef:
			case *ssa.BinOp:
				if x.Op != token.EQL && x.Op != token.NEQ {
					okWL, bad = false, in.String()
				}
			case *ssa.UnOp:
				if x.Op != token.NOT {
					okWL, bad = false, in.String()
				}
			default:
				// formatting / logging of the arguments takes no part in the comparison
				if onlyFormatted(in, 0) {
					continue
				}
				if _, isAlloc := in.(*ssa.Alloc); isAlloc {
					continue // variadic argument array of such a call (its uses are checked at the call)
				}
				if ia, isIA := in.(*ssa.IndexAddr); isIA {
					if _, ok := ia.X.(*ssa.Alloc); ok {
						continue
					}
				}
				okWL, bad = false, fmt.Sprintf("%T %s", in, in)
			}
		}
	}
	c.Check(okWL, "subset/whitelist", "the subset function consists only of map iteration, lookups and string (in)equality: no call, so no prefix/substring/case-folding comparison", w.FnPos(S), "other instruction: "+bad)
	loops := rangeLoops(S)
	if len(loops) != 1 || desc(loops[0].X) != p0 {
		c.Bad("subset/range-first", "the subset function ranges over its first argument (every attribute of the identity must be matched)", w.FnPos(S), "range operand is not the first parameter")
		return
	}
	c.OK("subset/range-first", "the subset function ranges over its first argument (every attribute of the identity must be matched)", w.InstrPos(loops[0].Next))
	l := loops[0]
	labels, ok := fi.mustPassBetween([]int{l.Body.Index}, map[int]bool{l.Header.Index: true})
	key := "rangekey(" + p0 + ")"
	lk := p1 + "[" + key + "]"
	own := p0 + "[" + key + "]"
	ownV := "rangeval(" + p0 + ")"
	hasOK := ok && labelHas(labels, "T(ok("+lk+"))")
	hasEQ := ok && (labelHas(labels, "EQ("+own+","+lk+")") || labelHas(labels, "EQ("+lk+","+own+")") || labelHas(labels, "EQ("+ownV+","+lk+")") || labelHas(labels, "EQ("+lk+","+ownV+")"))
	c.Check(hasOK, "subset/present", "per-attribute gate: an iteration completes only if the attribute is present in the second map (comma-ok lookup true)", w.InstrPos(l.Next),
		"an attribute absent from the subject can match; facts per completed iteration: "+summarizeLabels(labels, 6))
	c.Check(hasEQ, "subset/equal", "per-attribute gate: an iteration completes only if both maps hold equal values under the key", w.InstrPos(l.Next),
		"facts per completed iteration: "+summarizeLabels(labels, 6))
	// true only after the loop
	cut := map[edgeKey]bool{}
	for _, p := range l.Header.Preds {
		if p != l.Header && loopBlocks(l.Header)[p.Index] {
			for j, s := range p.Succs {
				if s == l.Header {
					cut[edgeKey{p.Index, j}] = true
				}
			}
		}
	}
	wit := fi.successWitness(Mode{Kind: mBool, Want: true}, []state{{l.Body.Index, 0, -1}}, cut)
	c.Check(wit == nil, "subset/true-only-after-loop", "true is returned only after every attribute was compared", w.InstrPos(l.Next), "true can be returned from inside the loop", wit...)
	c.Evals += 3
}

func c04Parser(c *Ctx, P *ssa.Function) {
	w := c.W
	fi := w.Info(P)
	c.SeenFn(P.String())
	s := w.Summarize(P, Mode{Kind: mErr})
	c.Evals += s.States
	pn := "param:" + P.Params[0].Name()
	c.requireOnExits("parser", P, s.Exits, []Need{
		{Name: "no-hex-value", What: "the name does not contain \"=#\"", Subs: []string{"F(call:strings.Contains(" + pn + `,const:"=#"))`}},
		{Name: "parse-error", What: "ldap.ParseDN err == nil", Subs: []string{"EQ(call:ldap.ParseDN(" + pn + ")#err,nil)"}},
	})
	// the result map is fresh
	okFresh := len(s.Exits) > 0
	for _, ex := range s.Exits {
		if _, ok := ex.Ret.Results[0].(*ssa.MakeMap); !ok {
			okFresh = false
		}
	}
	c.Check(okFresh, "parser/result-is-fresh-map", "the parse result is a map made in the parser (order and spacing of the input cannot reach the comparison)", w.FnPos(P), "result is not a fresh map")
	// loops over RDNs and attributes
	var rdnLoop, attrLoop, mandLoop *sliceLoop
	for _, sl := range sliceLoops(P) {
		sl := sl
		d := desc(sl.X)
		switch {
		case strings.HasSuffix(d, ".RDNs"):
			rdnLoop = &sl
		case strings.HasSuffix(d, ".Attributes"):
			attrLoop = &sl
		case strings.Contains(d, "slicelit") || strings.HasPrefix(d, "{") || strings.HasPrefix(d, "global:"):
			mandLoop = &sl
		}
	}
	if rdnLoop == nil || attrLoop == nil {
		c.Unk("parser/loops", "anchor: loops over RDNs and their attributes", w.FnPos(P), "not recognised")
		return
	}
	// multi-valued RDN: entering the attribute loop requires len(Attributes) <= 1
	{
		labels, ok := fi.mustPassBetween([]int{rdnLoop.Body.Index}, map[int]bool{attrLoop.Header.Index: true})
		_, h := hasLabel(labels, "LE(len(", ".Attributes),const:1)")
		if !h {
			_, h = hasLabel(labels, "LT(len(", ".Attributes),const:2)")
		}
		c.Evals++
		c.Check(ok && h, "parser/multi-valued-rdn", "per-RDN gate: attributes are read only from single-valued RDNs (multi-valued RDN fails)", w.InstrPos(blockTerm(rdnLoop.Header)), "facts: "+summarizeLabels(labels, 6))
	}
	// the map update: guarded by 'no value yet'; duplicates fail
	var mu *ssa.MapUpdate
	for _, b := range P.Blocks {
		for _, in := range b.Instrs {
			if x, ok := in.(*ssa.MapUpdate); ok {
				mu = x
			}
		}
	}
	if mu == nil {
		c.Bad("parser/duplicate", "per-attribute gate: an attribute is stored only if no value was stored for its type before; otherwise the parse fails", w.FnPos(P), "no map store found")
	} else {
		labels, ok := fi.mustPassBetween([]int{attrLoop.Body.Index}, map[int]bool{attrLoop.Header.Index: true})
		_, h := hasLabel(labels, "EQ(makemap:map[string]string[", `,const:"")`)
		if !h {
			_, h = hasLabel(labels, "F(ok(makemap:map[string]string[")
		}
		g := fi.GuardsOf(mu)
		_, h2 := hasLabel(g, "EQ(makemap:map[string]string[", `,const:"")`)
		if !h2 {
			_, h2 = hasLabel(g, "F(ok(makemap:map[string]string[")
		}
		c.Evals += 2
		c.Check(ok && h && h2, "parser/duplicate", "per-attribute gate: an attribute is stored only if no value was stored for its type before; otherwise the parse fails", w.InstrPos(mu),
			"a duplicate attribute does not fail the parse; per-iteration facts: "+summarizeLabels(labels, 6))
		// value stored is the attribute's Value, key its Type
		c.Check(strings.HasSuffix(desc(mu.Value), ".Value") && strings.Contains(desc(mu.Key), "Type"), "parser/stores-type-value", "the map entry is attribute.Type -> attribute.Value", w.InstrPos(mu), desc(mu.Key)+" -> "+desc(mu.Value))
	}
	// alias S -> ST
	{
		ok := false
		for _, b := range P.Blocks {
			for _, in := range b.Instrs {
				st, isSt := in.(*ssa.Store)
				if !isSt {
					continue
				}
				if k, isK := st.Val.(*ssa.Const); isK && constString(k) == `"ST"` {
					if _, h := hasLabel(fi.GuardsOf(st), "EQ(", `.Type,const:"S")`); h {
						ok = true
					}
				}
			}
		}
		c.Evals++
		c.Check(ok, "parser/alias-S-ST", "the attribute type S is rewritten to ST before it is stored", w.FnPos(P), "no store of \"ST\" guarded by Type == \"S\"")
	}
	// mandatory fields
	if mandLoop == nil {
		c.Bad("parser/mandatory", "each of C, ST, O must have a non-empty value", w.FnPos(P), "no loop over the mandatory attribute list")
	} else {
		labels, ok := fi.mustPassBetween([]int{mandLoop.Body.Index}, map[int]bool{mandLoop.Header.Index: true})
		_, h := hasLabel(labels, "NE(makemap:map[string]string[", `,const:"")`)
		if !h {
			_, h = hasLabel(labels, "T(ok(makemap:map[string]string[")
		}
		// the list contains C, ST, O
		have := map[string]bool{}
		for _, b := range P.Blocks {
			for _, in := range b.Instrs {
				if st, isSt := in.(*ssa.Store); isSt {
					if ia, isIA := st.Addr.(*ssa.IndexAddr); isIA {
						if al, isAl := ia.X.(*ssa.Alloc); isAl && strings.Contains(al.Comment, "slicelit") {
							if k, isK := st.Val.(*ssa.Const); isK {
								have[constString(k)] = true
							}
						}
					}
				}
			}
		}
		// success exits pass through the mandatory loop
		cut := map[edgeKey]bool{}
		cutInto(fi, mandLoop.Header, cut)
		wit := fi.successWitness(Mode{Kind: mErr}, entryState(), cut)
		c.Evals += 2
		c.Check(ok && h && have[`"C"`] && have[`"ST"`] && have[`"O"`] && wit == nil, "parser/mandatory", "each of C, ST, O must have a non-empty value on every success path", w.InstrPos(blockTerm(mandLoop.Header)),
			fmt.Sprintf("list=%v gate=%v bypass=%v", sortedKeys(have), h, wit != nil), wit...)
	}
}

func c04Verifier(c *Ctx, V *ssa.Function, sCall *ssa.Call, S, P *ssa.Function) {
	w := c.W
	fi := w.Info(V)
	c.SeenFn(V.String())
	// (a) certificate slice parameter read only at index 0
	var certs *ssa.Parameter
	var idents *ssa.Parameter
	for _, p := range V.Params {
		ts := p.Type().String()
		if strings.Contains(ts, "[]*crypto/x509.Certificate") {
			certs = p
		}
		if ts == "[]string" {
			idents = p
		}
	}
	if certs == nil || idents == nil {
		c.Unk("verifier/params", "anchor: the certificate chain and identity list parameters", w.FnPos(V), "not found")
		return
	}
	okIdx := true
	n0 := 0
	for _, r := range *certs.Referrers() {
		c.Evals++
		switch x := r.(type) {
		case *ssa.IndexAddr:
			if k, ok := x.Index.(*ssa.Const); ok && constString(k) == "0" {
				n0++
			} else {
				okIdx = false
			}
		case *ssa.DebugRef:
		case *ssa.Call:
			if bi, ok := x.Call.Value.(*ssa.Builtin); !ok || bi.Name() != "len" {
				okIdx = false
			}
		default:
			if !onlyFormatted(r, 0) {
				okIdx = false
			}
		}
	}
	c.Check(okIdx && n0 > 0, "verifier/leaf-only", "the certificate chain is read only at constant index 0 (never an intermediate's or root's subject)", w.FnPos(V), "the chain parameter is used other than as certs[0]")
	// (c) argument order
	pName := fnName(P)
	leaf := "call:" + pName + "(call:(crypto/x509/pkix.Name).String(param:" + certs.Name() + "[const:0].Subject))#0"
	a0, a1 := sCall.Call.Args[0], sCall.Call.Args[1]
	c.Check(desc(a1) == leaf, "verifier/second-arg-leaf-subject", "argument order: the second (superset) argument of the subset test is the parsed subject of certs[0]", w.InstrPos(sCall), "second argument is "+desc(a1))
	// first argument: element of a slice appended from P(Cut(identity)#1)#0
	okA0 := false
	var idSlice ssa.Value
	if u, ok := a0.(*ssa.UnOp); ok && u.Op == token.MUL {
		if ia, ok := u.X.(*ssa.IndexAddr); ok {
			idSlice = ia.X
		}
	}
	var appElems []string
	if idSlice != nil {
		for _, ci := range allCalls(V) {
			call, ok := ci.(*ssa.Call)
			if !ok {
				continue
			}
			if bi, ok := call.Call.Value.(*ssa.Builtin); ok && bi.Name() == "append" && (fwdPhis(call)[idSlice] || call == idSlice) {
				for _, el := range appendedElems(call.Call.Args[1]) {
					appElems = append(appElems, desc(el))
				}
			}
		}
		okA0 = len(appElems) > 0
		for _, d := range appElems {
			if !(strings.HasPrefix(d, "call:"+pName+"(call:strings.Cut(param:"+idents.Name()+"[") && strings.HasSuffix(d, `,const:":")#1)#0`)) {
				okA0 = false
			}
		}
	}
	c.Evals++
	c.Check(okA0, "verifier/first-arg-identity", "argument order: the first (subset) argument is an element of the list built from ParseDN(value part of an identity of the identities parameter)", w.InstrPos(sCall),
		fmt.Sprintf("first argument %s; list elements %v", desc(a0), appElems))
	// (b) success exits
	s := w.Summarize(V, Mode{Kind: mErr})
	c.Evals += s.States
	wc, _ := w.constString("internal/trustpolicy", "Wildcard")
	okExits := len(s.Exits) > 0
	nSubset := 0
	for _, ex := range s.Exits {
		_, isWild := hasLabel(ex.Checked, "T(call:slices.Contains(param:"+idents.Name()+fmt.Sprintf(",const:%q))", wc))
		_, isSub := hasLabel(ex.Checked, "T(call:"+fnName(S)+"(")
		if isWild && !isSub {
			// the lone wildcard accepts every subject: nothing else may gate this exit
			var extra []string
			for l := range ex.Checked {
				rest := strings.Replace(l, "call:slices.Contains(", "", 1)
				if strings.Contains(rest, "call:") || strings.Contains(rest, "param:"+certs.Name()) {
					extra = append(extra, l)
				}
			}
			c.Check(len(extra) == 0, "verifier/wildcard-unconditional", "the wildcard exit is reachable through the wildcard membership test alone (the lone wildcard accepts every subject, interpretable or not)", w.InstrPos(ex.Ret),
				fmt.Sprintf("the wildcard exit additionally requires: %v", extra))
		}
		if isSub {
			nSubset++
			_, e1 := hasLabel(ex.Checked, "EQ(call:"+pName+"(call:(crypto/x509/pkix.Name).String(", "#err,nil)")
			_, e2 := hasLabel(ex.Checked, "NE(len(", "),const:0)")
			if !e2 {
				_, e2 = hasLabel(ex.Checked, "GT(len(", "),const:0)")
			}
			if !e1 || !e2 {
				okExits = false
				c.Bad("verifier/success-exits", "success exits: wildcard membership, or a true subset test after the leaf subject parsed and at least one x509 identity exists", w.InstrPos(ex.Ret),
					fmt.Sprintf("leaf-parse-gate=%v nonempty-identities-gate=%v", e1, e2))
			}
		}
		if !isWild && !isSub {
			okExits = false
			c.Bad("verifier/success-exits", "success exits: wildcard membership, or a true subset test after the leaf subject parsed and at least one x509 identity exists", w.InstrPos(ex.Ret),
				"success exit without wildcard or subset test; facts: "+summarizeLabels(ex.Checked, 8))
		}
	}
	if okExits && nSubset > 0 {
		c.OK("verifier/success-exits", "success exits: wildcard membership, or a true subset test after the leaf subject parsed and at least one x509 identity exists", w.FnPos(V))
	} else if nSubset == 0 {
		c.Bad("verifier/success-exits", "success exits: wildcard membership, or a true subset test after the leaf subject parsed and at least one x509 identity exists", w.FnPos(V), "no success exit through the subset test")
	}
	// identity loop gates
	var idLoop *sliceLoop
	for _, sl := range sliceLoops(V) {
		sl := sl
		if desc(sl.X) == "param:"+idents.Name() {
			idLoop = &sl
		}
	}
	if idLoop == nil {
		c.Unk("verifier/identity-loop", "anchor: the loop over the identities parameter", w.FnPos(V), "not found")
		return
	}
	xs, _ := w.constString("internal/trustpolicy", "X509Subject")
	labels, ok := fi.mustPassBetween([]int{idLoop.Body.Index}, map[int]bool{idLoop.Header.Index: true})
	_, hSep := hasLabel(labels, "T(call:strings.Cut(param:"+idents.Name()+"[", `,const:":")#2)`)
	c.Evals++
	c.Check(ok && hSep, "verifier/missing-separator", "per-identity gate: an identity without ':' fails verification", w.InstrPos(blockTerm(idLoop.Header)), "facts: "+summarizeLabels(labels, 6))
	isOther := func(l string) bool {
		return strings.HasPrefix(l, "NE(call:strings.Cut(param:"+idents.Name()+"[") && strings.HasSuffix(l, fmt.Sprintf(`,const:":")#0,const:%q)`, xs))
	}
	hdr := map[int]bool{idLoop.Header.Index: true}
	start := []state{{idLoop.Body.Index, 0, -1}}
	cutE := fi.edgesMatching(func(l string, _ *ssa.If, _ bool) bool {
		return isOther(l) || (strings.HasPrefix(l, "NE(call:strings.Cut(param:"+idents.Name()+"[") && strings.HasSuffix(l, `,const:":")#1,const:"")`))
	})
	c.Check(!fi.reachHit(start, cutE, hdr), "verifier/empty-value", "per-identity gate: an x509.subject identity with an empty value fails verification", w.InstrPos(blockTerm(idLoop.Header)), "an empty x509.subject value is skipped")
	cutP := fi.edgesMatching(func(l string, _ *ssa.If, _ bool) bool {
		return isOther(l) || (strings.HasPrefix(l, "EQ(call:"+pName+"(call:strings.Cut(param:"+idents.Name()+"[") && strings.HasSuffix(l, "#err,nil)"))
	})
	c.Check(!fi.reachHit(start, cutP, hdr), "verifier/identity-parse-error", "per-identity gate: an x509.subject identity that does not parse fails verification (it is never skipped)", w.InstrPos(blockTerm(idLoop.Header)), "an unparsable identity is skipped")
	c.Evals += 2
}
