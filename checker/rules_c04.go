package main

import (
	"fmt"
	"go/token"
	"go/types"
	"regexp"
	"strings"

	"golang.org/x/tools/go/ssa"
)

func init() {
	register(&Rule{
		ID:    "C04",
		Title: "identity pinning matches only the signing certificate's own subject",
		Run:   runC04,
		Explain: "(a) the identity verifier (the verifier function with an identity list and a certificate chain parameter from which the subset function of internal/pkix is reached) reads its certificate slice only at constant index 0, in itself and in every module function it hands the slice to; " +
			"(b) its success exits are the wildcard membership or a true subset test; identity parse error, missing separator, empty value, leaf-subject parse error and 'no x509 identity' are fail-closed (a gate may sit in a module helper: the helper's success edge then is the gate); " +
			"(c) argument order at every subset test in the verifier's call tree: first a parsed x509.subject identity (every value that can reach the list is ParseDN(value part of an identity of the identities parameter), parsed under the fact that its kind is x509.subject), second the parsed subject of certs[0]; " +
			"(d) the subset function (by type func(map,map) bool) ranges over its first argument, calls nothing, and every completed iteration passes a comma-ok lookup in the second map and value equality; true is returned only after the loop; " +
			"(e) the DN parser, over its call tree (a loop, gate or store may sit in a module helper whose failure fails the parse): '=#' and parse errors fail, every RDN and attribute is read, multi-valued RDN fails, S is aliased to ST, duplicates fail, and on every success exit each of C, ST, O is known to have a value in the one fresh result map (by a loop over a list of constants wherever it is declared, by single tests, or by a helper).",
		NotCov:  "RFC 4514 parsing itself (go-ldap ParseDN); that the native check is skipped only under the plugin capability is rule C02/routing/identity.",
		Trusted: []string{"go/types, go/ssa", "go-ldap ParseDN", "crypto/x509/pkix.Name.String"},
	})
}

func isMapSS(t types.Type) bool {
	m, ok := t.Underlying().(*types.Map)
	if !ok {
		return false
	}
	k, ok1 := m.Key().Underlying().(*types.Basic)
	v, ok2 := m.Elem().Underlying().(*types.Basic)
	return ok1 && ok2 && k.Kind() == types.String && v.Kind() == types.String
}

func runC04(c *Ctx) {
	w := c.W
	// roles in internal/pkix
	var S, P *ssa.Function
	for _, fn := range w.FuncsOfPkg("internal/pkix") {
		if fn.Parent() != nil {
			continue
		}
		sig := fn.Signature
		if sig.Params().Len() == 2 && sig.Results().Len() == 1 && isMapSS(sig.Params().At(0).Type()) && isMapSS(sig.Params().At(1).Type()) {
			if b, ok := sig.Results().At(0).Type().Underlying().(*types.Basic); ok && b.Kind() == types.Bool {
				S = fn
			}
		}
		if c04ParserShape(fn) && !c04InnerParser(w, fn) {
			P = fn
		}
	}
	if S == nil || P == nil {
		c.Unk("roles", "anchors: the subset function func(map[string]string, map[string]string) bool and the DN parser func(string) (map[string]string, error) of internal/pkix", "-", fmt.Sprintf("subset=%v parser=%v", S != nil, P != nil))
		return
	}
	c04Subset(c, S)
	c04Parser(c, P)
	// the identity verifier, by role: the function of package verifier that is handed the identity list ([]string) and the
	// certificate chain and from which the subset test is reached through static module calls. The test itself may sit in
	// a helper; when such functions are nested, the innermost one that still has both parameters is the verifier.
	var cands []*ssa.Function
	for _, fn := range w.FuncsOfPkg("verifier") {
		if fn.Parent() != nil || fn.Blocks == nil {
			continue
		}
		if ce, id := c04Params(fn); ce == nil || id == nil {
			continue
		}
		for _, g := range w.moduleCallees(fn) {
			if g == S {
				cands = append(cands, fn)
				break
			}
		}
	}
	var Vs []*ssa.Function
	for _, fn := range cands {
		inner := true
		for _, g := range w.moduleCallees(fn) {
			for _, o := range cands {
				if g == o && o != fn {
					inner = false
				}
			}
		}
		if inner {
			Vs = append(Vs, fn)
		}
	}
	if len(Vs) == 0 {
		c.Unk("verifier/anchor", "anchor: the verifier function that is handed the identities and the certificate chain and applies the subset test", "-", "no function of package verifier with a []string and a []*x509.Certificate parameter reaches "+fnName(S))
		return
	}
	for _, V := range Vs {
		c04Verifier(c, V, S, P)
	}
	c.MinCount("", 14, "identity obligations")
}

// c04Params: the certificate chain and the identity list parameter of a function (by type).
func c04Params(fn *ssa.Function) (certs, idents *ssa.Parameter) {
	for _, p := range fn.Params {
		ts := p.Type().String()
		if strings.Contains(ts, "[]*crypto/x509.Certificate") {
			certs = p
		}
		if ts == "[]string" {
			idents = p
		}
	}
	return
}

func c04Subset(c *Ctx, S *ssa.Function) {
	w := c.W
	fi := w.Info(S)
	c.SeenFn(S.String())
	p0, p1 := "param:"+S.Params[0].Name(), "param:"+S.Params[1].Name()
	// instruction whitelist
	okWL := true
	bad := ""
	for _, b := range S.Blocks {
		for _, in := range b.Instrs {
			c.Evals++
			switch x := in.(type) {
			case *ssa.Range, *ssa.Next, *ssa.Extract, *ssa.Lookup, *ssa.If, *ssa.Return, *ssa.Jump, *ssa.Phi, *ssa.DebugRef:
			case *ssa.BinOp:
				if x.Op != token.EQL && x.Op != token.NEQ {
					okWL, bad = false, in.String()
				}
			case *ssa.UnOp:
				if x.Op != token.NOT {
					okWL, bad = false, in.String()
				}
			default:
				// formatting / logging of the arguments takes no part in the comparison
				if onlyFormatted(in, 0) {
					continue
				}
				if _, isAlloc := in.(*ssa.Alloc); isAlloc {
					continue // variadic argument array of such a call (its uses are checked at the call)
				}
				if ia, isIA := in.(*ssa.IndexAddr); isIA {
					if _, ok := ia.X.(*ssa.Alloc); ok {
						continue
					}
				}
				okWL, bad = false, fmt.Sprintf("%T %s", in, in)
			}
		}
	}
	c.Check(okWL, "subset/whitelist", "the subset function consists only of map iteration, lookups and string (in)equality: no call, so no prefix/substring/case-folding comparison", w.FnPos(S), "other instruction: "+bad)
	loops := rangeLoops(S)
	if len(loops) != 1 || desc(loops[0].X) != p0 {
		c.Bad("subset/range-first", "the subset function ranges over its first argument (every attribute of the identity must be matched)", w.FnPos(S), "range operand is not the first parameter")
		return
	}
	c.OK("subset/range-first", "the subset function ranges over its first argument (every attribute of the identity must be matched)", w.InstrPos(loops[0].Next))
	l := loops[0]
	labels, ok := fi.mustPassBetween([]int{l.Body.Index}, map[int]bool{l.Header.Index: true})
	key := "rangekey(" + p0 + ")"
	lk := p1 + "[" + key + "]"
	own := p0 + "[" + key + "]"
	ownV := "rangeval(" + p0 + ")"
	hasOK := ok && labelHas(labels, "T(ok("+lk+"))")
	hasEQ := ok && (labelHas(labels, "EQ("+own+","+lk+")") || labelHas(labels, "EQ("+lk+","+own+")") || labelHas(labels, "EQ("+ownV+","+lk+")") || labelHas(labels, "EQ("+lk+","+ownV+")"))
	c.Check(hasOK, "subset/present", "per-attribute gate: an iteration completes only if the attribute is present in the second map (comma-ok lookup true)", w.InstrPos(l.Next),
		"an attribute absent from the subject can match; facts per completed iteration: "+summarizeLabels(labels, 6))
	c.Check(hasEQ, "subset/equal", "per-attribute gate: an iteration completes only if both maps hold equal values under the key", w.InstrPos(l.Next),
		"facts per completed iteration: "+summarizeLabels(labels, 6))
	// true only after the loop
	cut := map[edgeKey]bool{}
	for _, p := range l.Header.Preds {
		if p != l.Header && loopBlocks(l.Header)[p.Index] {
			for j, s := range p.Succs {
				if s == l.Header {
					cut[edgeKey{p.Index, j}] = true
				}
			}
		}
	}
	wit := fi.successWitness(Mode{Kind: mBool, Want: true}, []state{{l.Body.Index, 0, -1}}, cut)
	c.Check(wit == nil, "subset/true-only-after-loop", "true is returned only after every attribute was compared", w.InstrPos(l.Next), "true can be returned from inside the loop", wit...)
	c.Evals += 3
}

func c04Parser(c *Ctx, P *ssa.Function) {
	w := c.W
	// a function of the same shape that only serves another parser of the package (a worker the exported parser calls) is
	// judged as part of that parser's call tree, not on its own
	if c04InnerParser(w, P) {
		return
	}
	c.SeenFn(P.String())
	s := w.Summarize(P, Mode{Kind: mErr})
	c.Evals += s.States
	pn := "param:" + P.Params[0].Name()
	c.requireOnExits("parser", P, s.Exits, []Need{
		{Name: "no-hex-value", What: "the name does not contain \"=#\"", Subs: []string{"F(call:strings.Contains(" + pn + `,const:"=#"))`}},
		{Name: "parse-error", What: "ldap.ParseDN err == nil", Subs: []string{"EQ(call:ldap.ParseDN(" + pn + ")#err,nil)"}},
	})
	// The rules below are decided over the call tree of the parser: a loop, a gate or the store may sit in a module helper
	// the parser calls. Every fact is rendered in the parser's own frame (the helper's parameters replaced by the arguments
	// of the call chain), and a helper's failure counts only if every caller on the chain turns it into its own failure
	// (c04LinkFrames) — then "an iteration of the helper's loop cannot complete / the helper cannot succeed without the
	// gate" is "the parse cannot succeed without the gate", which is what the inline form states.
	frames := c04Frames(w, P, nil)
	links := c04LinkFrames(w, frames)
	root := frames[0]
	// the result map is fresh: every success exit returns the one map made in the parser or in the helper whose result it
	// hands on. M0: that map; MP: the value it is in the parser's own body.
	okFresh := len(s.Exits) > 0
	var M0 *ssa.MakeMap
	var MP ssa.Value
	for i, ex := range s.Exits {
		mm := c04ResultMap(w, frames, root, ex.Ret.Results[0], 0)
		if mm == nil {
			okFresh = false
		}
		if i == 0 {
			M0, MP = mm, ex.Ret.Results[0]
		} else if M0 != mm || MP != ex.Ret.Results[0] {
			M0, MP = nil, nil
		}
	}
	c.Check(okFresh, "parser/result-is-fresh-map", "the parse result is a map made in the parser (order and spacing of the input cannot reach the comparison)", w.FnPos(P), "result is not a fresh map")
	// loops over RDNs and attributes, by what they range over: the RDNs of the parsed name, and the attributes of the RDN
	// of the current iteration
	var rdnLoops, attrLoops []*c04LoopAt
	for _, f := range frames {
		for _, sl := range sliceLoops(f.fn) {
			sl := sl
			d := f.up(desc(sl.X))
			if strings.HasPrefix(d, "call:ldap.ParseDN("+pn+")") && strings.HasSuffix(d, ".RDNs") {
				rdnLoops = append(rdnLoops, &c04LoopAt{f: f, l: &sl, x: d, idx: c04LoopIndex(&sl)})
			}
		}
	}
	if len(rdnLoops) == 1 {
		rl := rdnLoops[0]
		for _, f := range frames {
			if !f.under(rl.f) {
				continue
			}
			for _, sl := range sliceLoops(f.fn) {
				sl := sl
				if d := f.up(desc(sl.X)); d == rl.x+"["+rl.idx+"].Attributes" {
					attrLoops = append(attrLoops, &c04LoopAt{f: f, l: &sl, x: d, idx: c04LoopIndex(&sl)})
				}
			}
		}
	}
	// How the attributes of the current RDN are visited (c04AttrVisit): by a loop over them, or — no such loop — by
	// straight-line handling of the attribute at constant index 0, which is every attribute there is exactly because an
	// iteration over an RDN completes only under len(Attributes) <= 1 (the multi-valued gate below, required in both forms).
	var visit *c04AttrVisit
	if len(rdnLoops) == 1 && len(attrLoops) == 1 {
		visit = c04VisitByLoop(attrLoops[0])
	} else if len(rdnLoops) == 1 && len(attrLoops) == 0 {
		visit = c04VisitFirstOnly(frames, rdnLoops[0])
	}
	if visit == nil {
		c.Unk("parser/loops", "anchor: loops over RDNs and their attributes", w.FnPos(P), fmt.Sprintf("not recognised (%d loops over the RDNs of the parsed name, %d over the attributes of the current RDN, and no read of the attribute at constant index 0 of the current RDN instead)", len(rdnLoops), len(attrLoops)))
		return
	}
	rdnLoop := rdnLoops[0]
	c.SeenFn(rdnLoop.f.fn.String())
	c.SeenFn(visit.f.fn.String())
	rfi, afi := w.Info(rdnLoop.f.fn), w.Info(visit.f.fn)
	// visited: no handling of an attribute (an iteration of the attribute loop; of the RDN loop in the first-only form) runs
	// to its end other than through a branch edge that states one of the facts sel selects or, first-only form, that the RDN
	// has no attribute at all (then there is nothing to handle)
	completes := func(sel func(string) bool) bool {
		cut := c04Cut(w, visit.f, func(l string) bool { return sel(l) || visit.none(l) })
		for e := range visit.noneEdges {
			cut[e] = true
		}
		return afi.reachHit([]state{{visit.start, 0, -1}}, cut, visit.hdr)
	}
	linked := func(f *c04Frame) (bool, string) {
		if l := links[f]; l != nil && l.linked {
			return true, ""
		}
		return false, "a failure of " + fnName(f.fn) + " does not fail the parse on every path; "
	}
	// the stores into the result map, wherever they sit below the attribute loop
	var stores []*c04StoreAt
	for _, f := range frames {
		for _, b := range f.fn.Blocks {
			for _, in := range b.Instrs {
				if x, ok := in.(*ssa.MapUpdate); ok && M0 != nil && c04MapOrigin(f, x.Map) == ssa.Value(M0) {
					stores = append(stores, &c04StoreAt{f: f, mu: x})
				}
			}
		}
	}
	// "no value yet under the key that is stored" (the fact under which an attribute is recorded)
	empty := func(st *c04StoreAt) func(string) bool {
		e := st.f.up(desc(st.mu.Map) + "[" + desc(st.mu.Key) + "]")
		return func(l string) bool { return l == "EQ("+e+`,const:"")` || l == "F(ok("+e+"))" }
	}
	anyEmpty := func(l string) bool {
		for _, st := range stores {
			if empty(st)(l) {
				return true
			}
		}
		return false
	}
	// every RDN and every attribute is read: a parse that succeeds left both loops by exhaustion (an attribute of the
	// identity that is never read is an attribute the subject is never asked for). First-only form: the RDN loop was left by
	// exhaustion, and an iteration over an RDN that has an attribute completes only through the test under which the
	// attribute at index 0 is recorded — with at most one attribute per RDN (multi-valued gate) that is every attribute.
	{
		var wit []string
		why := ""
		las := []*c04LoopAt{rdnLoop}
		if visit.loop != nil {
			las = append(las, visit.loop)
		}
		for _, la := range las {
			ok, y := linked(la.f)
			if !strings.Contains(why, y) {
				why += y
			}
			if ok && wit == nil {
				wit = c04LeavesEarlyMode(w.Info(la.f.fn), la.l, links[la.f].succ)
			}
		}
		c.Evals += 2
		if wit != nil {
			why += "the parse can succeed after leaving a loop before its end"
		}
		if visit.loop == nil {
			ok, y := linked(visit.f)
			if !strings.Contains(why, y) {
				why += y
			}
			if ok && (len(stores) == 0 || completes(anyEmpty)) {
				why += "no loop over the attributes of an RDN, and an iteration over an RDN that has attributes completes without recording the attribute at index 0"
			}
		}
		c.Check(wit == nil && why == "", "parser/every-attribute-read", "a successful parse has iterated over all RDNs and all their attributes", w.InstrPos(blockTerm(rdnLoop.l.Header)), why, wit...)
	}
	// multi-valued RDN: an iteration over an RDN completes only under len(Attributes) <= 1 — a multi-valued RDN never lets
	// the loop go on, so the parse fails on it (the test may precede the attribute loop or sit in the helper that runs it)
	{
		// len <= 1 said in any of its forms; `len == 1` and `len == 0` (`switch len(..)`, `if len(..) != 1`) each imply it
		n := "len(" + visit.x + "),const:"
		sel := func(l string) bool {
			return l == "LE("+n+"1)" || l == "LT("+n+"2)" || l == "EQ("+n+"1)" || l == "EQ("+n+"0)"
		}
		ok, why := linked(rdnLoop.f)
		done := rfi.reachHit([]state{{rdnLoop.l.Body.Index, 0, -1}}, c04Cut(w, rdnLoop.f, sel), map[int]bool{rdnLoop.l.Header.Index: true})
		labels, _ := rfi.mustPassBetween([]int{rdnLoop.l.Body.Index}, map[int]bool{rdnLoop.l.Header.Index: true})
		c.Evals++
		c.Check(ok && !done, "parser/multi-valued-rdn", "per-RDN gate: attributes are read only from single-valued RDNs (multi-valued RDN fails)", w.InstrPos(blockTerm(rdnLoop.l.Header)), why+"facts of a completed iteration: "+summarizeLabels(labels, 6))
	}
	elem := visit.elem
	if len(stores) == 0 {
		c.Bad("parser/duplicate", "per-attribute gate: an attribute is stored only if no value was stored for its type before; otherwise the parse fails", w.FnPos(P), "no store into the result map found")
		c.Bad("parser/alias-S-ST", "the attribute type S is rewritten to ST before it is stored", w.FnPos(P), "no store into the result map found")
	} else {
		// duplicates: the handling of an attribute completes only under "no value yet under the key that is stored", and
		// each store stands under that fact
		ok, why := linked(visit.f)
		done := completes(anyEmpty)
		labels, _ := afi.mustPassBetween([]int{visit.start}, visit.hdr)
		for _, st := range stores {
			c.SeenFn(st.f.fn.String())
			site := w.InstrPos(st.mu)
			guarded := false
			for l := range st.f.guardsUp(w, st.mu) {
				if c04Selected(l, empty(st)) {
					guarded = true
				}
			}
			inLoop := st.f.under(visit.f) && (st.f != visit.f || visit.blocks[st.mu.Block().Index])
			c.Evals += 2
			c.Check(ok && !done && guarded && inLoop, "parser/duplicate", "per-attribute gate: an attribute is stored only if no value was stored for its type before; otherwise the parse fails", site,
				fmt.Sprintf("%sa duplicate attribute does not fail the parse (iteration gated=%v store guarded=%v store inside the attribute loop=%v); per-iteration facts: %s", why, !done, guarded, inLoop, summarizeLabels(labels, 6)))
			// value stored is the attribute's Value, key its Type (of the attribute of this iteration), the key possibly after
			// the S -> ST aliasing
			keyT, aliasOK, aliasWhy := c04AliasedKey(w, st, visit)
			c.Check(st.f.up(desc(st.mu.Value)) == elem+".Value" && keyT != "" && st.f.up(keyT) == elem+".Type",
				"parser/stores-type-value", "the map entry is attribute.Type -> attribute.Value", site, st.f.up(desc(st.mu.Key))+" -> "+st.f.up(desc(st.mu.Value)))
			c.Evals++
			c.Check(aliasOK, "parser/alias-S-ST", "the attribute type S is rewritten to ST before it is stored", site, aliasWhy)
		}
	}
	// mandatory fields: at every success exit each of C, ST, O is known to have a value in the result map. Decided on the
	// paths of the parser and of the helpers the map is handed to (c04MandCovered): by a loop over a list of constants,
	// wherever that list is written down, by tests of the single types, or by a helper that does either.
	{
		var notes []string
		have := map[string]bool{}
		if MP == nil || M0 == nil {
			notes = append(notes, "the success exits do not return one map made in the parser")
		} else {
			have = c04MandCovered(w, root, MP, c04Succ{mode: Mode{Kind: mErr}}, &notes)
		}
		c.Evals += 3
		site := w.FnPos(P)
		if len(s.Exits) > 0 {
			site = w.InstrPos(s.Exits[0].Ret)
		}
		c.Check(have["C"] && have["ST"] && have["O"], "parser/mandatory", "each of C, ST, O must have a non-empty value on every success path", site,
			fmt.Sprintf("types known to have a value on every success path: %v; %s", sortedKeys(have), strings.Join(notes, "; ")))
	}
}

// c04AliasedKey decides the key of an attribute store: the value T it is when it is not the alias (rendered in the frame of
// the store), and whether "key = ST if T is S, else T" holds. Forms:
//
//	in place:  `if a.Type == "S" { a.Type = "ST" }; m[a.Type] = ...` — the key is a load of the attribute's Type field; every
//	           path of the iteration to the store passes Type != "S" or the block that stores "ST" into that field
//	           (guarded by Type == "S");
//	local:     `t := a.Type; if t == "S" { t = "ST" }; m[t] = ...` — the key is a phi whose "ST" edges are dominated by
//	           T == "S" and whose T edges by T != "S" (same decision, the ldap attribute is left alone);
//	helper:    `m[canonical(a.Type)] = ...` — the key is the result of a module function every return of which is "ST"
//	           under parameter == "S", or the parameter under parameter != "S" (either as two returns or as the local form
//	           inside the helper); T is the argument.
//
// In all of them the map key is "ST" exactly when the attribute type is "S" and the attribute type otherwise, which is the
// clause (S is an alias of ST); T itself is checked against the attribute by the caller.
func c04AliasedKey(w *World, st *c04StoreAt, visit *c04AttrVisit) (string, bool, string) {
	fi := w.Info(st.f.fn)
	mu := st.mu
	isST := func(v ssa.Value) bool {
		k, ok := v.(*ssa.Const)
		return ok && constString(k) == `"ST"`
	}
	// phiAlias: the phi is "ST" under T == "S" and T under T != "S"
	phiAlias := func(phi *ssa.Phi) (ssa.Value, bool, string) {
		var T ssa.Value
		for _, e := range phi.Edges {
			if !isST(e) {
				if T != nil && T != e {
					return nil, false, "the key merges more than one value besides \"ST\""
				}
				T = e
			}
		}
		if T == nil {
			return nil, false, "the key is always \"ST\""
		}
		nST := 0
		for i, e := range phi.Edges {
			facts := c04EdgeFacts(phi.Block().Preds[i], phi.Block())
			if isST(e) {
				nST++
				if !facts["EQ("+desc(T)+`,const:"S")`] {
					return T, false, "the key becomes \"ST\" on an edge that is not under type == \"S\""
				}
			} else if !facts["NE("+desc(T)+`,const:"S")`] {
				return T, false, "the key stays the attribute type on an edge that is not under type != \"S\" (S is stored as S)"
			}
		}
		return T, nST > 0, "no edge sets the key to \"ST\""
	}
	switch key := mu.Key.(type) {
	case *ssa.Phi:
		T, ok, why := phiAlias(key)
		if T == nil {
			return "", ok, why
		}
		return desc(T), ok, why
	case *ssa.Call:
		g := staticCallee(key)
		if g == nil || g.Blocks == nil || !w.IsProductFn(g) || g.Parent() != nil || len(g.Params) != len(key.Call.Args) || g.Signature.Results().Len() != 1 {
			return "", false, "the key is the result of a call that is not a static module call"
		}
		gi := w.Info(g)
		var p *ssa.Parameter
		nST := 0
		for _, b := range g.Blocks {
			r, isRet := blockTerm(b).(*ssa.Return)
			if !isRet || len(r.Results) != 1 {
				continue
			}
			guards := gi.GuardsOf(r)
			var q ssa.Value
			switch x := r.Results[0].(type) {
			case *ssa.Phi:
				T, ok, why := phiAlias(x)
				if !ok {
					return "", false, fnName(g) + ": " + why
				}
				q = T
				nST++
			case *ssa.Parameter:
				if !labelHas(guards, "NE("+desc(x)+`,const:"S")`) {
					return "", false, fnName(g) + " returns its argument on a path that is not under argument != \"S\" (S is stored as S)"
				}
				q = x
			default:
				if !isST(x) {
					return "", false, fnName(g) + " returns something other than \"ST\" or its argument"
				}
				nST++
				for _, gp := range g.Params {
					if labelHas(guards, "EQ("+desc(gp)+`,const:"S")`) {
						q = gp
					}
				}
				if q == nil {
					return "", false, fnName(g) + " returns \"ST\" on a path that is not under argument == \"S\""
				}
			}
			qp, isP := q.(*ssa.Parameter)
			if !isP || (p != nil && p != qp) {
				return "", false, fnName(g) + " does not decide on one parameter"
			}
			p = qp
		}
		if p == nil || nST == 0 {
			return "", false, fnName(g) + " never returns \"ST\""
		}
		for i, gp := range g.Params {
			if gp == p {
				return desc(key.Call.Args[i]), true, ""
			}
		}
		return "", false, "parameter not found"
	}
	// in place
	td := desc(mu.Key)
	var sts []*ssa.Store
	for _, b := range fi.Fn.Blocks {
		for _, in := range b.Instrs {
			if x, ok := in.(*ssa.Store); ok && isST(x.Val) && desc(x.Addr) == td {
				if _, h := fi.GuardsOf(x)["EQ("+td+`,const:"S")`]; h {
					sts = append(sts, x)
				}
			}
		}
	}
	if len(sts) == 0 {
		return td, false, "no store of \"ST\" into the attribute type guarded by Type == \"S\""
	}
	cut := fi.edgesMatching(func(l string, _ *ssa.If, _ bool) bool { return l == "NE("+td+`,const:"S")` })
	for _, x := range sts {
		cutInto(fi, x.Block(), cut)
	}
	// from where the attribute of this iteration comes into being: the body of the attribute loop (of the RDN loop in the
	// first-only form), or the entry of the helper that is handed the attribute
	start := 0
	if st.f == visit.f {
		start = visit.start
	}
	if mu.Block().Index == start || fi.reachHit([]state{{start, 0, -1}}, cut, blocksOf(mu)) {
		return td, false, "the attribute store is reachable with Type == \"S\" without the rewrite to \"ST\""
	}
	return td, true, ""
}

func c04Verifier(c *Ctx, V *ssa.Function, S, P *ssa.Function) {
	w := c.W
	c.SeenFn(V.String())
	certs, idents := c04Params(V)
	if certs == nil || idents == nil {
		c.Unk("verifier/params", "anchor: the certificate chain and identity list parameters", w.FnPos(V), "not found")
		return
	}
	// (a) the certificate slice is read only at constant index 0 — here and in every module function it is handed to
	// (a helper that receives the chain is held to the same rule on its parameter)
	okIdx := true
	n0 := 0
	var chainUses func(p *ssa.Parameter, depth int)
	chainUses = func(p *ssa.Parameter, depth int) {
		for _, r := range *p.Referrers() {
			c.Evals++
			switch x := r.(type) {
			case *ssa.IndexAddr:
				if k, ok := x.Index.(*ssa.Const); ok && constString(k) == "0" {
					n0++
				} else {
					okIdx = false
				}
			case *ssa.DebugRef:
			case *ssa.Call:
				if bi, ok := x.Call.Value.(*ssa.Builtin); ok && bi.Name() == "len" {
					continue
				}
				g := staticCallee(x)
				if g != nil && g.Blocks != nil && w.IsProductFn(g) && g.Parent() == nil && depth < c04MaxDepth && len(g.Params) == len(x.Call.Args) {
					for i, a := range x.Call.Args {
						if a == ssa.Value(p) {
							c.SeenFn(g.String())
							chainUses(g.Params[i], depth+1)
						}
					}
					continue
				}
				if !onlyFormatted(r, 0) {
					okIdx = false
				}
			default:
				if !onlyFormatted(r, 0) {
					okIdx = false
				}
			}
		}
	}
	chainUses(certs, 0)
	c.Check(okIdx && n0 > 0, "verifier/leaf-only", "the certificate chain is read only at constant index 0 (never an intermediate's or root's subject)", w.FnPos(V), "the chain parameter is used other than as certs[0]")

	// the subset tests of the verifier's call tree, each with the chain of calls that leads to it
	pName := fnName(P)
	xs, _ := w.constString("internal/trustpolicy", "X509Subject")
	roles := newC04Roles(idents.Name(), xs, pName)
	frames := c04Frames(w, V, map[*ssa.Function]bool{S: true, P: true})
	type sSite struct {
		f    *c04Frame
		call *ssa.Call
	}
	var sites []sSite
	for _, f := range frames {
		if f.fn == S || f.fn == P {
			continue
		}
		c.SeenFn(f.fn.String())
		for _, ci := range allCalls(f.fn) {
			if call, ok := ci.(*ssa.Call); ok && staticCallee(call) == S {
				sites = append(sites, sSite{f, call})
			}
		}
	}
	if len(sites) == 0 {
		c.Unk("verifier/subset-test", "anchor: the subset test in the call tree of the identity verifier", w.FnPos(V), "not reached through static module calls")
		return
	}
	// (c) argument order, decided for every subset test in the frame of the verifier: the arguments of a test that sits in
	// a helper are the helper's parameters, i.e. what the verifier (or the helper above) passes at that call.
	leafCall := "call:" + pName + "(call:(crypto/x509/pkix.Name).String(param:" + certs.Name() + "[const:0].Subject))"
	leaf := leafCall + "#0"
	type buildLoop struct {
		f  *c04Frame
		sl sliceLoop
	}
	var loops []buildLoop
	for _, s := range sites {
		a0, a1 := s.call.Call.Args[0], s.call.Call.Args[1]
		c.Check(s.f.up(desc(a1)) == leaf, "verifier/second-arg-leaf-subject", "argument order: the second (superset) argument of the subset test is the parsed subject of certs[0]", w.InstrPos(s.call), "second argument is "+s.f.up(desc(a1)))
		// first argument: every value that can be the map tested is result 0 of the DN parser applied to the value part of an
		// identity of the identities parameter, parsed under the fact that the identity's kind is x509.subject
		fl := &c04Flow{w: w, seen: map[c04FlowKey]bool{}}
		fl.elem(s.f, a0)
		okA0 := len(fl.origins) > 0 && len(fl.unknown) == 0
		var shown []string
		for _, o := range fl.origins {
			c.Evals++
			d := o.f.up(desc(o.v))
			shown = append(shown, trunc(d, 160))
			ex, isEx := o.v.(*ssa.Extract)
			var pc *ssa.Call
			if isEx && ex.Index == 0 {
				pc, _ = ex.Tuple.(*ssa.Call)
			}
			if pc == nil || staticCallee(pc) != P {
				okA0 = false
				continue
			}
			arg := o.f.up(desc(pc.Call.Args[0]))
			if !roles.value.MatchString(arg) {
				okA0 = false
				shown[len(shown)-1] += " [not the value part of an identity]"
				continue
			}
			X := roles.identityOf(idents.Name(), arg)
			isKind := false
			for l := range o.f.guardsUp(w, pc) {
				if roles.is.MatchString(l) && roles.identityOf(idents.Name(), l) == X {
					isKind = true
				}
			}
			if !isKind {
				okA0 = false
				shown[len(shown)-1] += " [parsed without the fact that the identity's kind is " + xs + "]"
			}
			// the loop over the identities in which this element is produced (around the parse, or around a call on the chain to it)
			var in ssa.Instruction = pc
			for g := o.f; g != nil; g = g.parent {
				for _, sl := range sliceLoops(g.fn) {
					if g.up(desc(sl.X)) != "param:"+idents.Name() || !loopBlocks(sl.Header)[in.Block().Index] {
						continue
					}
					dup := false
					for _, bl := range loops {
						if bl.sl.Header == sl.Header {
							dup = true
						}
					}
					if !dup {
						loops = append(loops, buildLoop{g, sl})
					}
				}
				if g.call == nil {
					break
				}
				in = g.call
			}
		}
		c.Check(okA0, "verifier/first-arg-identity", "argument order: the first (subset) argument is an element of the list built from ParseDN(value part of an x509.subject identity of the identities parameter)", w.InstrPos(s.call),
			fmt.Sprintf("first argument %s; values that reach it %v; not followed: %v", trunc(s.f.up(desc(a0)), 200), shown, fl.unknown))
	}

	// (b) success exits
	s := w.Summarize(V, Mode{Kind: mErr})
	c.Evals += s.States
	wc, _ := w.constString("internal/trustpolicy", "Wildcard")
	okExits := len(s.Exits) > 0
	nSubset := 0
	for _, ex := range s.Exits {
		// whole labels, never a part of one: `OR(x, T(call:subset(..)))` (a flag that is true for another reason as well) is not
		// the fact that the subset test answered true
		isWild := labelHas(ex.Checked, "T(call:slices.Contains(param:"+idents.Name()+fmt.Sprintf(",const:%q))", wc))
		isSub := c04HasLabel(ex.Checked, "T(call:"+fnName(S)+"(", ")")
		if isWild && !isSub {
			// the lone wildcard accepts every subject: nothing else may gate this exit
			var extra []string
			for l := range ex.Checked {
				rest := strings.Replace(l, "call:slices.Contains(", "", 1)
				if strings.Contains(rest, "call:") || strings.Contains(rest, "param:"+certs.Name()) {
					extra = append(extra, l)
				}
			}
			c.Check(len(extra) == 0, "verifier/wildcard-unconditional", "the wildcard exit is reachable through the wildcard membership test alone (the lone wildcard accepts every subject, interpretable or not)", w.InstrPos(ex.Ret),
				fmt.Sprintf("the wildcard exit additionally requires: %v", extra))
		}
		if isSub {
			nSubset++
			e1 := labelHas(ex.Checked, "EQ("+leafCall+"#err,nil)")
			e2 := c04HasLabel(ex.Checked, "NE(len(", "),const:0)") || c04HasLabel(ex.Checked, "GT(len(", "),const:0)")
			if !e1 || !e2 {
				okExits = false
				c.Bad("verifier/success-exits", "success exits: wildcard membership, or a true subset test after the leaf subject parsed and at least one x509 identity exists", w.InstrPos(ex.Ret),
					fmt.Sprintf("leaf-parse-gate=%v nonempty-identities-gate=%v", e1, e2))
			}
		}
		if !isWild && !isSub {
			okExits = false
			c.Bad("verifier/success-exits", "success exits: wildcard membership, or a true subset test after the leaf subject parsed and at least one x509 identity exists", w.InstrPos(ex.Ret),
				"success exit without wildcard or subset test; facts: "+summarizeLabels(ex.Checked, 8))
		}
	}
	if okExits && nSubset > 0 {
		c.OK("verifier/success-exits", "success exits: wildcard membership, or a true subset test after the leaf subject parsed and at least one x509 identity exists", w.FnPos(V))
	} else if nSubset == 0 {
		c.Bad("verifier/success-exits", "success exits: wildcard membership, or a true subset test after the leaf subject parsed and at least one x509 identity exists", w.FnPos(V), "no success exit through the subset test")
	}

	// identity loop gates: an iteration of the loop that builds the list ends without failure only through the gate, or
	// through the fact that the identity is of another kind. The loop may sit in the verifier or in a helper that is handed
	// the identities; a gate may sit in a helper called from the loop body (its success edge then is the gate, see c04Cut).
	if len(loops) == 0 {
		c.Unk("verifier/identity-loop", "anchor: the loop over the identities parameter in which the identity list is built", w.FnPos(V), "not found")
		return
	}
	for _, bl := range loops {
		fi := w.Info(bl.f.fn)
		site := w.InstrPos(blockTerm(bl.sl.Header))
		hdr := map[int]bool{bl.sl.Header.Index: true}
		start := []state{{bl.sl.Body.Index, 0, -1}}
		blocked := func(res ...*regexp.Regexp) bool {
			c.Evals++
			cut := c04Cut(w, bl.f, func(l string) bool {
				for _, re := range res {
					if re.MatchString(l) {
						return true
					}
				}
				return false
			})
			return !fi.reachHit(start, cut, hdr)
		}
		labels, _ := fi.mustPassBetween([]int{bl.sl.Body.Index}, hdr)
		c.Check(blocked(roles.sep), "verifier/missing-separator", "per-identity gate: an identity without ':' fails verification", site, "an iteration completes without the separator test; facts: "+summarizeLabels(labels, 6))
		c.Check(blocked(roles.other, roles.nonEmpty), "verifier/empty-value", "per-identity gate: an x509.subject identity with an empty value fails verification", site, "an empty x509.subject value is skipped")
		c.Check(blocked(roles.other, roles.parsed), "verifier/identity-parse-error", "per-identity gate: an x509.subject identity that does not parse fails verification (it is never skipped)", site, "an unparsable identity is skipped")
	}
}
