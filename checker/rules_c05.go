package main

import (
	"fmt"
	"go/constant"
	"go/token"
	"go/types"
	"sort"
	"strings"

	"golang.org/x/tools/go/ssa"
)

func init() {
	register(&Rule{
		ID:    "C05",
		Title: "revocation checking fails closed over the whole certificate chain",
		Run:   runC05,
		Explain: "(a) the verifier constructor's success exits store a non-nil code-signing validator or client, and the revocation function fails when both are nil; " +
			"the option fields the two verifier fields are fed from are found by a backward slice from the stores, every function that was handed the caller's options struct and passes options on towards the verifier passes its own parameter's value of those fields (followed through local copies, literals, field stores, helpers), and a default is stored only where the caller's validator and client were both tested nil; " +
			"(b) both validator interfaces receive the unsliced SignerInfo.CertificateChain and the same signing-time value, which is the zero time unless scheme == notary.x509.signingAuthority; " +
			"(c) a validator error and every aggregate other than ResultOK set the result's Error; " +
			"(d) the aggregator (found by its []*result.CertRevocationResult parameter) is decided by abstract interpretation over the finite domain Result in {OK, NonRevokable, Unknown, Revoked, other} per certificate, " +
			"a two-point abstraction of the OK counter (equal to / below the number of completed iterations) and ghost bits sawRevoked / sawNonOK, iterated to a fixpoint over the loop: " +
			"for every reachable abstract state the returned aggregate is Revoked if any certificate was Revoked, and not OK if any certificate was neither OK nor NonRevokable; " +
			"the loop is cut by len(results) == len(chain), iterates over all results and indexes both slices with the same variable. " +
			"Operands that are parameters of an unexported helper are judged at every call site of the helper, results of a module helper at every return of it; " +
			"a remembered position of a certificate (index tag) stands for the class of the result read there; nothing the aggregator reaches writes the results; " +
			"a range-over-func loop over slices.Backward / slices.All of a never-reassigned slice variable is decided on its index-loop form. " +
			"Anchors are found by role: the validator calls by the interface method invoked, the aggregator by its signature ([]*CertRevocationResult in, result.Result out), the revocation function as the top-most function that returns an object with an error field and reaches all of them, at whatever boundary helpers were cut; " +
			"an exit whose object is built by a constructor (function, method, closure, delegating constructor) fails iff what the constructor puts into Error is non-nil with the arguments of the call; " +
			"the facts required on success exits are branches on SSA values that hand on the validators' error / the aggregator's result, in any function between the revocation function and the anchor calls, rendered in its frame through the call sites; " +
			"a nil test of the validator fields computed by a helper (a boolean predicate, or a helper that returns the selected validator) is decided by abstract interpretation of the helper with both fields nil. " +
			"An interface call whose receiver is followed (phis, returns of a selecting helper, parameters fed by closed call sites) to the conversion of a value of an unexported module type runs that type's method: " +
			"such an adapter (the deprecated client wrapped as a context-aware validator) is part of the call tree, the interface call hands on what the adapter's returns hand on, and the adapter method's parameters hold what the interface calls pass that every conversion of the type flows to (the list is closed only if no such interface value is stored, captured or passed out of the module); " +
			"a value read from a field of a locally filled struct is judged on everything stored into that field (and the zero value unless a store precedes the read on every path).",
		NotCov: "OCSP/CRL evaluation (notation-core-go revocation); result vectors are covered as abstract states, not as enumerated concrete vectors.",
		Trusted: []string{"go/types, go/ssa", "notation-core-go revocation.Validator / Revocation", "soundness of the counter abstraction: the counter is only incremented by 1, at most once per iteration (checked)",
			"standard library slices.Backward / slices.All yield (i, s[i]) for every index of s exactly once, in descending / ascending order, until the loop body breaks"},
	})
}

type natLoop struct {
	Header *ssa.BasicBlock
	Blocks map[int]bool
}

// naturalLoops finds loop headers (targets of back edges) and their blocks.
func naturalLoops(fn *ssa.Function) []natLoop {
	var out []natLoop
	for _, b := range fn.Blocks {
		isHeader := false
		for _, p := range b.Preds {
			if b.Dominates(p) {
				isHeader = true
			}
		}
		if isHeader {
			out = append(out, natLoop{b, loopBlocks(b)})
		}
	}
	return out
}

func resultConsts(w *World) map[string]int64 {
	out := map[string]int64{}
	p := w.ByPath["github.com/notaryproject/notation-core-go/revocation/result"]
	if p == nil {
		return out
	}
	for _, n := range []string{"ResultUnknown", "ResultOK", "ResultNonRevokable", "ResultRevoked"} {
		if k, ok := p.Types.Scope().Lookup(n).(*types.Const); ok {
			if v, ok := constant.Int64Val(k.Val()); ok {
				out[n] = v
			}
		}
	}
	return out
}

func runC05(c *Ctx) {
	w := c.W
	rc := resultConsts(w)
	if len(rc) != 4 {
		c.Unk("consts", "anchor: revocation result constants of notation-core-go", "-", "not found")
		return
	}
	// Anchors by role (see c05Anch): the validator calls, the aggregator, and the candidates — the functions that return
	// the result object and reach all of them, wherever helper boundaries were cut. R is the top-most candidate.
	an, nCand := c05FindAnchors(w)
	if an == nil || nCand != 1 {
		c.Unk("anchor", "anchor: the verifier function that returns the revocation result object and reaches (itself or through helpers) revocation.Validator.ValidateContext, the deprecated revocation.Revocation.Validate and the aggregation of their results", "-", fmt.Sprintf("%d candidates", nCand))
		return
	}
	R, A, aCall, vcCall, vCall := an.Top, an.A, an.aCall, an.vcCall, an.vCall
	c.SeenFn(R.String())
	// (b) arguments
	// The options handed to the context-aware validator: a struct value. Its fields are followed on SSA values to what
	// was stored into them (c05Leaves: the struct may be filled in by a literal, field by field, copied from another
	// local). optTime is the value stored into AuthenticSigningTime where the literal states one.
	optsVal := vcCall.Call.Args[1]
	optField := func(name string) int {
		if st, ok := optsVal.Type().Underlying().(*types.Struct); ok {
			for i := 0; i < st.NumFields(); i++ {
				if st.Field(i).Name() == name {
					return i
				}
			}
		}
		return -1
	}
	var optTime ssa.Value
	if al, ok := unwrapLoadAlloc(optsVal); ok {
		// the one value the field is given: a single store to it, executed before the options are read, in a cell that
		// is not written as a whole
		var stores []*ssa.Store
		whole := false
		for _, r := range *al.Referrers() {
			switch x := r.(type) {
			case *ssa.Store:
				whole = true
			case *ssa.FieldAddr:
				for _, rr := range *x.Referrers() {
					if st, ok := rr.(*ssa.Store); ok && st.Addr == x && fieldName(al.Type(), x.Field) == "AuthenticSigningTime" {
						stores = append(stores, st)
					}
				}
			}
		}
		if ld, isInstr := optsVal.(ssa.Instruction); isInstr && !whole && len(stores) == 1 && c05Before(stores[0], ld) {
			optTime = stores[0].Val
		}
	}
	// A chain operand that is (a field path of) a parameter of an extracted helper is judged at every call site of the
	// helper (the list of call sites must be closed: unexported, never used as a value): what the validator receives is
	// what the callers pass. Either the operand is the parameter itself (followed on SSA values), or its printed form
	// mentions parameters — the helper was handed the SignerInfo, the EnvelopeContent or the whole outcome instead of the
	// chain — and is rendered in R's frame by substituting them with the arguments of the call sites. An operand read from
	// a struct (the options value; the options parameter of an adapter method, which holds what the interface call that
	// dispatches to the adapter passes) is judged on every value the field may hold (c05Leaves), each rendered in R's frame.
	const chainSuffix = ".EnvelopeContent.SignerInfo.CertificateChain"
	chainOK := func(v ssa.Value, path []int, in *ssa.Function) (bool, string) {
		if v == nil {
			return false, "?"
		}
		var ds []string
		if len(path) == 0 {
			if os, ok := c05Origins(w, v, 3); ok && len(os) > 0 {
				all := true
				for _, o := range os {
					d := desc(o)
					ds = append(ds, d)
					if !strings.HasSuffix(d, chainSuffix) {
						all = false
					}
				}
				if all {
					return true, strings.Join(uniq(sortStrings(ds)), " / ")
				}
			}
			if lifted := c05Lift(w, desc(v), in, R, 4); len(lifted) > 0 {
				all := true
				for _, d := range lifted {
					if !strings.HasSuffix(d, chainSuffix) {
						all = false
					}
				}
				if all {
					return true, strings.Join(uniq(sortStrings(lifted)), " / ")
				}
				ds = lifted
			}
		}
		leaves, ok := c05Leaves(w, v, path, []c05Frame{{in, nil}}, 6, map[c05SeenKey]bool{})
		if !ok || len(leaves) == 0 {
			if len(ds) == 0 {
				return false, desc(v) + " (not followed to its sources)"
			}
			return false, strings.Join(uniq(sortStrings(ds)), " / ")
		}
		all := true
		var ls []string
		for _, lf := range leaves {
			rendered := []string{desc(lf.v)}
			if f := c05ParentOf(lf.v); f != nil {
				rendered = c05Lift(w, desc(lf.v), f, R, 4)
			}
			if len(rendered) == 0 {
				all = false
				ls = append(ls, desc(lf.v)+" (call sites not all known)")
			}
			for _, d := range rendered {
				ls = append(ls, d)
				if !strings.HasSuffix(d, chainSuffix) {
					all = false
				}
			}
		}
		return all, strings.Join(uniq(sortStrings(ls)), " / ")
	}
	okC, dC := false, "?"
	if k := optField("CertChain"); k >= 0 {
		okC, dC = chainOK(optsVal, []int{k}, vcCall.Parent())
	}
	c.Check(okC, "args/chain-context-validator", "provenance: ValidateContext receives the complete (unsliced) SignerInfo.CertificateChain of the verified envelope", w.InstrPos(vcCall), "CertChain is "+dC)
	okC, dC = chainOK(vCall.Call.Args[0], nil, vCall.Parent())
	c.Check(okC, "args/chain-deprecated-client", "provenance: Revocation.Validate receives the complete (unsliced) SignerInfo.CertificateChain of the verified envelope", w.InstrPos(vCall), "chain argument is "+dC)
	tV := vCall.Call.Args[1]
	// the same SSA value in one frame, or — when the value is a helper's parameter — the same single origin, or the
	// client's operand is read from the AuthenticSigningTime field of the very options value the context-aware validator
	// receives (an adapter that unpacks the options: a struct value does not change once it is loaded)
	sameTime := optTime != nil && optTime == tV
	if !sameTime && optTime != nil {
		o1, ok1 := c05Origins(w, optTime, 3)
		o2, ok2 := c05Origins(w, tV, 3)
		sameTime = ok1 && ok2 && len(o1) == 1 && len(o2) == 1 && o1[0] == o2[0]
	}
	if !sameTime {
		if k := optField("AuthenticSigningTime"); k >= 0 {
			b1, p1 := c05CellOrigin(w, tV, nil)
			b2, p2 := c05CellOrigin(w, optsVal, []int{k})
			sameTime = b1 == b2 && len(p1) == 1 && len(p2) == 1 && p1[0] == p2[0]
		}
	}
	c.Check(sameTime, "args/same-signing-time", "sibling agreement: both validator interfaces receive the same signing-time value", w.InstrPos(vCall), fmt.Sprintf("context validator gets %s, client gets %s", c05Desc(optTime), desc(tV)))
	sa, _ := w.depConstString("github.com/notaryproject/notation-core-go/signature", "SigningSchemeX509SigningAuthority")
	// Every value that can flow into the signing-time operand (through phis, up through a helper's parameter to all call
	// sites, down through a module helper to the operands of its returns) is either the zero time or the result of
	// SignerInfo.AuthenticSigningTime selected on a path that passed scheme == signingAuthority in one of the frames it
	// was reached through (the helper that computes it, or its caller). Both kinds must occur.
	okTime := false
	detail := "signing time is " + desc(tV)
	if leaves, ok := c05Leaves(w, tV, nil, []c05Frame{{vCall.Parent(), vCall.Block()}}, 6, map[c05SeenKey]bool{}); ok {
		nz, nonZero, bad := 0, 0, 0
		for _, lf := range leaves {
			if k, ok := lf.v.(*ssa.Const); ok && k.Value == nil && !k.IsNil() {
				nz++
				continue
			}
			if !strings.HasPrefix(desc(lf.v), "call:(*core/signature.SignerInfo).AuthenticSigningTime(") {
				bad++
				detail = "the signing time may be " + desc(lf.v)
				continue
			}
			guarded := false
			for _, fr := range lf.frames {
				g, _ := w.Info(fr.fn).mustPassBetween([]int{0}, map[int]bool{fr.at.Index: true})
				if _, h := hasLabel(g, "EQ(", fmt.Sprintf(".SignedAttributes.SigningScheme,const:%q)", sa)); h {
					guarded = true
				}
			}
			if guarded {
				nonZero++
			} else {
				bad++
				detail = "the authentic signing time is used without the scheme == signingAuthority guard"
			}
		}
		okTime = bad == 0 && nz >= 1 && nonZero >= 1
	}
	c.Evals++
	c.Check(okTime, "args/signing-time-only-for-signing-authority", "the signing time handed to the validator is the zero time unless the scheme is notary.x509.signingAuthority", w.InstrPos(vCall), detail)

	// (c) success exits of the candidates. In each candidate, edges that lead only to an exit whose result object is given
	// a provably non-nil Error — through a phi stored into the object (c05FailingPhiEdges) or through the error operand
	// of a result constructor (c05FailingCtorEdges) — are removed first: what remains are the paths on which the Error
	// can stay nil. An exit that forwards the unchanged result of a lower candidate is judged in that candidate.
	//
	// The two facts required on every remaining exit are looked for on SSA values, in whatever function between the
	// candidate and the anchor calls tests them, and matched as exact labels rendered in the candidate's frame:
	//   - validator-error: a branch on `e == nil` where e hands on the error of both validator calls (their phi, the error
	//     result of a dispatch helper every return of which forwards one of them, a helper's parameter fed with it);
	//   - aggregate-ok: a branch (or switch case) on `a == ResultOK` where a hands on the aggregator's first result in the
	//     same ways.
	// A fact tested inside a helper reaches the candidate's exit only through the engine's composition: the exit must pass
	// the edge on which the helper's verdict (its error == nil, its result object, its boolean) is the passing one.
	mode := Mode{Kind: mObj, K: 0}
	errCarry := &c05Carry{w: w, targets: map[*ssa.Call]bool{vcCall: true, vCall: true}}
	aggCarry := &c05Carry{w: w, targets: map[*ssa.Call]bool{aCall: true}}
	isRes := func(t types.Type) bool { return namedOf(t) == "core/revocation/result.Result" }
	type exitItem struct {
		fn  *ssa.Function
		ex  *ExitSum
		alt map[string][]string // need name -> accepted labels in fn's frame
	}
	var items []exitItem
	failCuts := map[*ssa.Function]map[edgeKey]bool{}
	for _, cand := range an.Cands {
		c.SeenFn(cand.String())
		fi := w.Info(cand)
		failCut := c05FailingExitEdges(w, fi, 0)
		failCuts[cand] = failCut
		s := w.Summarize(cand, mode)
		if len(failCut) > 0 {
			s = fi.summarizeFrom(mode, entryState(), failCut)
		}
		c.Evals += s.States
		alt := map[string][]string{
			"validator-error": c05Labels(w, an, cand, func(f *ssa.Function) []string {
				return c05NilEdges(w.Info(f), errCarry.carriers(f, 1, isErrorType))
			}),
			"aggregate-ok": c05Labels(w, an, cand, func(f *ssa.Function) []string {
				return c05EqConstEdges(w.Info(f), aggCarry.carriers(f, 0, isRes), rc["ResultOK"])
			}),
		}
		for _, ex := range s.Exits {
			v := ex.Ret.Results[0]
			if p, ok := v.(*ssa.Phi); ok && p.Block() == ex.Ret.Block() && ex.Pred >= 0 && ex.Pred < len(p.Edges) {
				v = p.Edges[ex.Pred]
			}
			if _, fwd := c05Forwarded(an, cand, v, ex.Ret); fwd {
				continue
			}
			items = append(items, exitItem{cand, c05Augment(w, cand, ex), alt})
		}
	}
	for _, n := range []struct{ name, what string }{
		{"validator-error", "the validator's error == nil"},
		{"aggregate-ok", fmt.Sprintf("aggregate == ResultOK (%d): every other aggregate sets the result's Error", rc["ResultOK"])},
	} {
		key := "result/" + n.name
		rule := "must-check: every success-capable exit of " + fnName(R) + " (and of the inner functions it forwards) is reachable only through the passing edge of: " + n.what
		if len(items) == 0 {
			c.Unk(key, rule, w.FnPos(R), "the function has no success-capable exit under this mode: rule does not recognise its shape")
			continue
		}
		okAll := true
		for _, it := range items {
			c.Evals++
			found := false
			for _, l := range it.alt[n.name] {
				if _, ok := it.ex.Checked[l]; ok {
					found = true
					break
				}
			}
			if found {
				continue
			}
			okAll = false
			d := fmt.Sprintf("success-capable exit of %s at %s (block b%d) is reachable without that check; facts that do hold on every path to it: %s",
				fnName(it.fn), w.InstrPos(it.ex.Ret), it.ex.Ret.Block().Index, summarizeLabels(it.ex.Checked, 12))
			if len(it.alt[n.name]) == 0 {
				d += "; no branch between " + fnName(it.fn) + " and the anchor calls tests it"
			}
			c.Bad(key, rule, w.InstrPos(it.ex.Ret), d)
			break
		}
		if okAll {
			c.OK(key, rule, w.FnPos(R))
		}
	}
	// both-nil: with the nil tests of the two receiver fields (rendered in the candidate's frame: the validator calls may
	// sit in a helper) taking their nil edge, no success exit is reachable. An exit that forwards a lower candidate is
	// no success exit of its own; if it stays reachable the lower candidate is examined in the same way.
	{
		nTests := 0
		var wit []string
		var witFn *ssa.Function
		var visit func(cand *ssa.Function, depth int)
		visited := map[*ssa.Function]bool{}
		visit = func(cand *ssa.Function, depth int) {
			if visited[cand] || depth <= 0 || wit != nil {
				return
			}
			visited[cand] = true
			fi := w.Info(cand)
			want := map[string]bool{}
			for _, call := range []*ssa.Call{vcCall, vCall} {
				// the fields the consulted validators are read from, wherever the read sits (next to the call, in a
				// selecting helper, in the function that wraps the client in an adapter), in the candidate's frame
				loads, _ := c05ReceiverLoads(w, call)
				for _, ld := range loads {
					f := c05ParentOf(ld)
					if f == nil {
						continue
					}
					for _, d := range c05Lift(w, desc(ld), f, cand, 4) {
						want["NE("+d+",nil)"] = true
					}
				}
			}
			cut := fi.edgesMatching(func(l string, _ *ssa.If, _ bool) bool { return want[l] })
			nTests += len(cut)
			// a branch on a module predicate that, evaluated with both fields nil, has one possible value only
			recvs := map[string]bool{}
			for l := range want {
				recvs[strings.TrimSuffix(strings.TrimPrefix(l, "NE("), ",nil)")] = true
			}
			for e, n := range c05PredicateEdges(w, fi, recvs) {
				cut[e] = true
				nTests += n
			}
			for e := range failCuts[cand] {
				cut[e] = true
			}
			fwd := c05ForwardedCalls(an, cand)
			old := fi.ignoreTail
			fi.ignoreTail = fwd
			x := fi.successWitness(mode, entryState(), cut)
			fi.ignoreTail = old
			c.Evals++
			if x != nil {
				wit, witFn = x, cand
				return
			}
			for call := range fwd {
				if call.Block().Index == 0 || fi.reachHit(entryState(), cut, map[int]bool{call.Block().Index: true}) {
					visit(staticCallee(call), depth-1)
				}
			}
		}
		visit(R, 4)
		site := w.FnPos(R)
		if witFn != nil {
			site = w.FnPos(witFn)
		}
		c.Check(nTests >= 2 && wit == nil, "result/both-validators-nil", "with neither a code-signing validator nor a client the revocation result carries an error", site, "a success result is possible with both validators nil", wit...)
	}
	// aggregator arguments
	{
		// the operands by the type of the aggregator's parameter they feed, not by position
		var resArg, chainArg ssa.Value
		for i, p := range A.Params {
			if i >= len(aCall.Call.Args) {
				break
			}
			switch ts := p.Type().String(); {
			case ts == c05ResultsType:
				resArg = aCall.Call.Args[i]
			case strings.Contains(ts, "[]*crypto/x509.Certificate"):
				chainArg = aCall.Call.Args[i]
			}
		}
		c.Check(resArg != nil && errCarry.all(resArg, 0), "aggregator/results-argument", "provenance: the aggregator receives the results returned by the validator that was consulted", w.InstrPos(aCall), "results argument is "+c05Desc(resArg))
		okC, dC := chainOK(chainArg, nil, aCall.Parent())
		c.Check(okC, "aggregator/chain-argument", "provenance: the aggregator receives the same complete certificate chain", w.InstrPos(aCall), "chain argument is "+dC)
	}
	// A range-over-func loop over the standard slice iterators is decided on its index-loop form (see c05Desugar).
	if w2, A2 := c05Desugar(c, A); A2 != nil {
		c.W = w2
		c05Aggregator(c, A2, rc)
		c.W = w
	} else {
		c05Aggregator(c, A, rc)
	}
	c05Constructor(c, R, vcCall, vCall)
	c05OptionsForwarded(c, R, vcCall, vCall)
}

func unwrapLoadAlloc(v ssa.Value) (*ssa.Alloc, bool) {
	if u, ok := v.(*ssa.UnOp); ok && u.Op == token.MUL {
		if al, ok := u.X.(*ssa.Alloc); ok {
			return al, true
		}
	}
	if al, ok := v.(*ssa.Alloc); ok {
		return al, true
	}
	return nil, false
}

// c05Constructor: fields consulted by R are set non-nil on constructor success.
func c05Constructor(c *Ctx, R *ssa.Function, vcCall, vCall *ssa.Call) {
	w := c.W
	// the field of the verifier a validator call's receiver is read from (one field per interface; the read may sit in a
	// helper that selects or wraps the validator)
	fieldOfRecv := func(call *ssa.Call) (string, int) {
		loads, ok := c05ReceiverLoads(w, call)
		if !ok {
			return "", -1
		}
		t, f := "", -1
		for _, v := range loads {
			u, ok := v.(*ssa.UnOp)
			if !ok || u.Op != token.MUL {
				return "", -1
			}
			fa, ok := u.X.(*ssa.FieldAddr)
			if !ok {
				return "", -1
			}
			if f >= 0 && (namedOf(fa.X.Type()) != t || fa.Field != f) {
				return "", -1
			}
			t, f = namedOf(fa.X.Type()), fa.Field
		}
		return t, f
	}
	t1, f1 := fieldOfRecv(vcCall)
	t2, f2 := fieldOfRecv(vCall)
	if f1 < 0 || f2 < 0 || t1 != t2 {
		c.Unk("constructor/fields", "anchor: the verifier fields holding the code-signing validator and the client", w.FnPos(R), "not recognised")
		return
	}
	rule := "constructor: every success exit of a function that configures the code-signing revocation fields (stores them, or calls a module function that stores them into the verifier it is handed) has stored a non-nil validator or client " +
		"(a value found non-nil, the value of a constructor call whose error was checked, the result of a module helper that is such a value on every success exit of the helper), itself or through a module function every success exit of which has done so and whose error was checked or is returned"
	// Decided on store points composed through helpers: see the comment at c05Ctor (extra_c05.go).
	x := &c05Ctor{w: w, t: t1, f1: f1, f2: f2, memo: map[c05CtorKey]*c05CtorSum{}, busy: map[c05CtorKey]bool{}, retM: map[string]int{}}
	n := 0
	for _, fn := range w.FuncsOfPkg("verifier") {
		if fn == R || len(fn.Blocks) == 0 {
			continue
		}
		pt := x.points(fn, nil, false)
		if !pt.stores {
			continue
		}
		n++
		c.SeenFn(fn.String())
		for _, g := range pt.calledFn {
			c.SeenFn(g.String())
		}
		if !c05HasErrResult(fn) {
			continue // no success exit of its own: judged where it is called (c05Ctor.sum)
		}
		wit := x.succeedsWithout(fn, pt)
		c.Evals++
		c.Check(wit == nil, "constructor/"+fnName(fn), rule, w.FnPos(fn), "a success exit leaves both the code-signing validator and the client unset (or possibly nil)", wit...)
	}
	if n == 0 {
		c.Unk("constructor", rule, "-", "no function stores the code-signing revocation fields")
	}
}

// c05Aggregator decides the aggregation function by abstract interpretation.
func c05Aggregator(c *Ctx, A *ssa.Function, rc map[string]int64) {
	w := c.W
	fi := w.Info(A)
	c.SeenFn(A.String())
	var resP, chainP *ssa.Parameter
	for _, p := range A.Params {
		ts := p.Type().String()
		if strings.Contains(ts, "revocation/result.CertRevocationResult") {
			resP = p
		}
		if strings.Contains(ts, "[]*crypto/x509.Certificate") {
			chainP = p
		}
	}
	if resP == nil || chainP == nil {
		c.Unk("aggregator/params", "anchor: results and chain parameters", w.FnPos(A), "not found")
		return
	}
	resD := "param:" + resP.Name()
	isResLoad := func(in ssa.Instruction) bool {
		u, ok := in.(*ssa.UnOp)
		if !ok || u.Op != token.MUL {
			return false
		}
		d := desc(u)
		return strings.HasPrefix(d, resD+"[") && strings.HasSuffix(d, "].Result")
	}
	// the main loop: outermost natural loop containing a load of results[i].Result
	var loop *natLoop
	for _, nl := range naturalLoops(A) {
		nl := nl
		has := false
		for bi := range nl.Blocks {
			for _, in := range A.Blocks[bi].Instrs {
				if isResLoad(in) {
					has = true
				}
			}
		}
		if has && (loop == nil || len(nl.Blocks) > len(loop.Blocks)) {
			loop = &nl
		}
	}
	if loop == nil {
		c.Unk("aggregator/loop", "anchor: the loop over the per-certificate results", w.FnPos(A), "no loop reads "+resD+"[i].Result")
		return
	}
	H := loop.Header
	// d4: guarded by equal lengths; iterates over all results; same index for both slices
	g := fi.GuardsOf(blockTerm(H))
	chD := "param:" + chainP.Name()
	okLen := labelHas(g, "EQ(len("+resD+"),len("+chD+"))") || labelHas(g, "EQ(len("+chD+"),len("+resD+"))")
	c.Evals++
	c.Check(okLen, "aggregator/length-agreement", "the loop is reachable only through len(results) == len(chain) (every certificate has exactly one result; no index can go out of range)", w.InstrPos(blockTerm(H)),
		"the per-certificate loop can run with result and chain slices of different length; guards: "+summarizeLabels(g, 6))
	iff, _ := blockTerm(H).(*ssa.If)
	okIter := false
	hl := ""
	if iff != nil {
		hl = condLabel(iff.Cond, true)
		switch {
		case strings.HasPrefix(hl, "GE(phi((len("+resD+") - const:1)|") && strings.HasSuffix(hl, " - const:1)),const:0)"):
			okIter = true
		case strings.HasPrefix(hl, "LT(") && strings.HasSuffix(hl, ",len("+resD+"))") && (strings.Contains(hl, "const:-1") || strings.Contains(hl, "const:0")):
			okIter = true
		}
	}
	// a single exit: from the header
	for bi := range loop.Blocks {
		b := A.Blocks[bi]
		for _, s := range b.Succs {
			if !loop.Blocks[s.Index] && b != H {
				if _, isRet := blockTerm(s).(*ssa.Return); !isRet {
					okIter = false
				}
			}
		}
	}
	c.Check(okIter, "aggregator/iterates-all", "the loop visits every index of the results slice exactly once (no early exit)", w.InstrPos(blockTerm(H)), "loop condition "+hl)
	var idx ssa.Value
	okIdx := true
	for bi := range loop.Blocks {
		for _, in := range A.Blocks[bi].Instrs {
			ia, ok := in.(*ssa.IndexAddr)
			if !ok {
				continue
			}
			if ia.X == resP || ia.X == chainP {
				if idx == nil {
					idx = ia.Index
				} else if idx != ia.Index {
					okIdx = false
				}
			}
		}
	}
	c.Check(okIdx && idx != nil, "aggregator/same-index", "results and chain are indexed with the same variable (a result is attributed to its own certificate)", w.InstrPos(blockTerm(H)), "different index expressions are used")
	if !okIdx {
		idx = nil
	}
	// The abstract input of an iteration stands for the value results[i].Result has during the whole call (it is read
	// several times, possibly again after the loop through a remembered index, and the element may be handed to a
	// helper): nothing the aggregator reaches may write it.
	{
		wr := c05WritesResults(w, A)
		site, detail := w.FnPos(A), ""
		if len(wr) > 0 {
			site, detail = w.InstrPos(wr[0]), fmt.Sprintf("%d store(s) to a CertRevocationResult.Result / an element of the results slice in %s or its callees", len(wr), fnName(A))
		}
		c.Check(len(wr) == 0, "aggregator/results-read-only", "the aggregator and the module functions it calls do not write the per-certificate results", site, detail)
	}

	// ---- abstract interpretation -------------------------------------------
	resType := "core/revocation/result.Result"
	phis := headerPhis(H)
	var tracked []ssa.Value
	var trackedPhis []*ssa.Phi
	for _, p := range phis {
		t := p.Type()
		b, isBasic := t.Underlying().(*types.Basic)
		if namedOf(t) == resType || (isBasic && b.Info()&types.IsBoolean != 0) || isPlainInt(t) {
			tracked = append(tracked, p)
			trackedPhis = append(trackedPhis, p)
		}
	}
	var curInput AVal
	inLoop := false
	hook := func(in ssa.Instruction, env map[ssa.Value]AVal) (AVal, bool) {
		if v, isVal := in.(ssa.Value); isVal && inLoop && idx != nil && v == idx {
			return c05TagCur, true // the index the input of this iteration is read at
		}
		if isResLoad(in) {
			if inLoop {
				return curInput, true
			}
			// after (or before) the loop: results[k].Result with k a remembered index of a certificate of class v is v
			if k := c05IndexOfLoad(in, resP); k != nil {
				if v, ok := c05TagClass(env[k]); ok {
					return AVal{Kind: aInt, Int: v}, true
				}
			}
			return top, true
		}
		if bo, ok := in.(*ssa.BinOp); ok {
			if a, handled := c05CmpIndex(bo, env); handled {
				return a, true
			}
		}
		if bo, ok := in.(*ssa.BinOp); ok && (bo.Op == token.EQL || bo.Op == token.NEQ) {
			x, xok := env[bo.X]
			y, yok := env[bo.Y]
			var cnt AVal
			var other ssa.Value
			if xok && x.Kind == aCnt {
				cnt, other = x, bo.Y
			} else if yok && y.Kind == aCnt {
				cnt, other = y, bo.X
			} else {
				return AVal{}, false
			}
			if inLoop || desc(other) != "len("+resD+")" || cnt.Delta != 0 {
				return top, true
			}
			return AVal{Kind: aBool, B: cnt.Eq == (bo.Op == token.EQL)}, true
		}
		return AVal{}, false
	}
	ip := &Interp{Fn: A, Hook: hook, IntTypes: map[string]bool{resType: true}}
	type hstate struct {
		vals                 []AVal
		sawRevoked, sawNonOK bool
		early                bool
	}
	key := func(s hstate) string { return stateKey(s.vals, []bool{s.sawRevoked, s.sawNonOK, s.early}) }
	envOf := func(s hstate) map[ssa.Value]AVal {
		e := map[ssa.Value]AVal{}
		for i, p := range trackedPhis {
			e[p] = s.vals[i]
			if idx != nil && ssa.Value(p) == idx {
				e[p] = c05TagCur
			}
		}
		return e
	}
	normalize := func(p *ssa.Phi, v AVal, entering bool) AVal {
		if isPlainInt(p.Type()) {
			if entering {
				// counter candidates start at constant 0
				return v
			}
			// a remembered index: the running index carried over the back edge is from now on "an index whose result
			// was the input of the iteration that just ended"; an older tag and the negative "none yet" constant persist
			if v == c05TagCur {
				return c05Tag(curInput.Int)
			}
			if _, isTag := c05TagClass(v); isTag || (v.Kind == aInt && v.Int < 0) {
				return v
			}
			if v.Kind == aCnt {
				switch {
				case v.Delta == 1 && v.Eq:
					return AVal{Kind: aCnt, Eq: true}
				case v.Delta <= 1:
					return AVal{Kind: aCnt, Eq: false}
				default:
					return top
				}
			}
			return top
		}
		return v
	}
	seen := map[string]bool{}
	var work []hstate
	var violations []string
	nOutcomes := 0
	checkReturn := func(o Outcome, s hstate, what string) {
		nOutcomes++
		if o.Ret == nil || len(o.Ret.Results) == 0 {
			return
		}
		a := ip.val(o.Ret.Results[0], o.Env)
		st := fmt.Sprintf("%s [state %s sawRevoked=%v sawNonOK=%v] returns %s at %s", what, stateKey(s.vals, nil), s.sawRevoked, s.sawNonOK, a, w.InstrPos(o.Ret))
		if a.Kind != aInt {
			if s.sawRevoked || s.sawNonOK {
				violations = append(violations, "aggregate not determined: "+st)
			}
			return
		}
		if s.sawRevoked && a.Int != rc["ResultRevoked"] {
			violations = append(violations, "a revoked certificate does not make the aggregate Revoked: "+st)
		} else if s.sawNonOK && a.Int == rc["ResultOK"] {
			violations = append(violations, "aggregate OK although a certificate was neither OK nor non-revokable: "+st)
		}
	}
	// prologue: from entry to the loop header
	inLoop = false
	for _, o := range ip.Run(A.Blocks[0], nil, map[ssa.Value]AVal{}, map[*ssa.BasicBlock]bool{H: true}, nil) {
		if o.Stop == nil {
			// returns before the loop: nothing is known about the results => must not be OK
			nOutcomes++
			if o.Ret != nil && len(o.Ret.Results) > 0 {
				a := ip.val(o.Ret.Results[0], o.Env)
				if a.Kind != aInt || a.Int == rc["ResultOK"] {
					violations = append(violations, fmt.Sprintf("an exit before the per-certificate loop returns %s at %s", a, w.InstrPos(o.Ret)))
				}
			}
			continue
		}
		var s hstate
		pi := -1
		for i, p := range H.Preds {
			if p == o.From {
				pi = i
			}
		}
		for _, p := range trackedPhis {
			v := ip.val(p.Edges[pi], o.Env)
			if isPlainInt(p.Type()) {
				v = top
				if k, ok := p.Edges[pi].(*ssa.Const); ok && k.Value != nil {
					if n, exact := constant.Int64Val(k.Value); exact && n == 0 {
						v = AVal{Kind: aCnt, Eq: true}
					} else if exact && n < 0 {
						v = AVal{Kind: aInt, Int: n} // "no index remembered yet"
					}
				}
			}
			s.vals = append(s.vals, v)
		}
		if !seen[key(s)] {
			seen[key(s)] = true
			work = append(work, s)
		}
	}
	inputs := []struct {
		name string
		v    int64
	}{{"OK", rc["ResultOK"]}, {"NonRevokable", rc["ResultNonRevokable"]}, {"Unknown", rc["ResultUnknown"]}, {"Revoked", rc["ResultRevoked"]}, {"other", 97}}
	stops := map[*ssa.BasicBlock]bool{H: true}
	for bi := range loop.Blocks {
		for _, sblk := range A.Blocks[bi].Succs {
			if !loop.Blocks[sblk.Index] {
				stops[sblk] = true
			}
		}
	}
	for len(work) > 0 && len(seen) < 4000 {
		s := work[len(work)-1]
		work = work[:len(work)-1]
		for _, inp := range inputs {
			curInput = AVal{Kind: aInt, Int: inp.v}
			inLoop = true
			outs := ip.Run(H, nil, envOf(s), stops, tracked)
			inLoop = false
			for _, o := range outs {
				if o.Stop == nil {
					// return from inside the loop
					ns := s
					ns.sawRevoked = s.sawRevoked || inp.v == rc["ResultRevoked"]
					ns.sawNonOK = s.sawNonOK || (inp.v != rc["ResultOK"] && inp.v != rc["ResultNonRevokable"])
					checkReturn(o, ns, "return inside the loop on input "+inp.name)
					continue
				}
				if o.Stop == H {
					pi := -1
					for i, p := range H.Preds {
						if p == o.From {
							pi = i
						}
					}
					ns := hstate{sawRevoked: s.sawRevoked || inp.v == rc["ResultRevoked"], sawNonOK: s.sawNonOK || (inp.v != rc["ResultOK"] && inp.v != rc["ResultNonRevokable"])}
					for _, p := range trackedPhis {
						ns.vals = append(ns.vals, normalize(p, ip.val(p.Edges[pi], o.Env), false))
					}
					if !seen[key(ns)] {
						seen[key(ns)] = true
						work = append(work, ns)
					}
					continue
				}
				// loop exit
				if o.From != H {
					continue // early exits are rejected by aggregator/iterates-all
				}
				// the header exit happens before any input is read in this round: evaluate the epilogue with state s
				env := copyEnv(o.Env)
				for _, eo := range ip.Run(o.Stop, o.From, env, nil, nil) {
					checkReturn(eo, s, "after the loop")
				}
			}
		}
	}
	c.Evals += ip.Steps
	c.Extra["aggregator_abstract_states"] = len(seen)
	c.Extra["aggregator_outcomes_checked"] = nOutcomes
	rule := "abstract interpretation (finite domain, loop fixpoint): for every reachable abstract state the aggregate is Revoked if any certificate was Revoked and is not OK if any certificate was neither OK nor NonRevokable"
	if ip.Overflow || len(seen) >= 4000 {
		c.Unk("aggregator/decision", rule, w.FnPos(A), "state space not exhausted")
		return
	}
	if len(seen) == 0 || nOutcomes == 0 {
		c.Unk("aggregator/decision", rule, w.FnPos(A), "the loop was not reached by the abstract interpretation")
		return
	}
	if len(violations) > 0 {
		sort.Strings(violations)
		violations = uniq(violations)
		if len(violations) > 6 {
			violations = violations[:6]
		}
		c.Bad("aggregator/decision", rule, w.FnPos(A), strings.Join(violations, "\n"))
	} else {
		c.OK("aggregator/decision", rule, w.InstrPos(blockTerm(H)))
	}
	// the subject reported for a revoked certificate: a flag-selected value that was assigned chain[i].Subject under Result == Revoked
	c05Subject(c, A, H, chainP, resD, rc, idx)
}

// c05Subject: the subject returned when the aggregate is Revoked names a revoked certificate.
func c05Subject(c *Ctx, A *ssa.Function, H *ssa.BasicBlock, chainP *ssa.Parameter, resD string, rc map[string]int64, idx ssa.Value) {
	w := c.W
	fi := w.Info(A)
	rule := "the subject returned together with a Revoked aggregate is a value assigned from chain[i].Subject only in iterations whose result is Revoked"
	// returns after the loop
	ok := false
	detail := "no string phi carrying the revoked certificate's subject found"
	for _, b := range A.Blocks {
		r, isRet := blockTerm(b).(*ssa.Return)
		if !isRet || len(r.Results) != 2 || !H.Dominates(b) {
			continue
		}
		// walk the phi graph of the subject result: find a header phi all of whose in-loop sources are guarded by Result == Revoked
		seen := map[ssa.Value]bool{}
		var hdrPhis []*ssa.Phi
		var walk func(v ssa.Value)
		walk = func(v ssa.Value) {
			if seen[v] {
				return
			}
			seen[v] = true
			if p, isPhi := v.(*ssa.Phi); isPhi {
				if p.Block() == H {
					hdrPhis = append(hdrPhis, p)
				}
				for _, e := range p.Edges {
					walk(e)
				}
			}
		}
		walk(r.Results[1])
		for _, hp := range hdrPhis {
			// sources flowing into hp from inside the loop
			srcSeen := map[ssa.Value]bool{}
			allGuarded, n := true, 0
			var rec func(v ssa.Value, from *ssa.BasicBlock)
			rec = func(v ssa.Value, from *ssa.BasicBlock) {
				if srcSeen[v] || v == hp {
					return
				}
				srcSeen[v] = true
				if p, isPhi := v.(*ssa.Phi); isPhi {
					for i, e := range p.Edges {
						rec(e, p.Block().Preds[i])
					}
					return
				}
				if k, isK := v.(*ssa.Const); isK && k.Value != nil && k.Value.ExactString() == `""` {
					return
				}
				n++
				d := desc(v)
				if !strings.Contains(d, "param:"+chainP.Name()+"[") || !strings.Contains(d, ".Subject") {
					allGuarded = false
					return
				}
				gl, _ := fi.mustPassBetween([]int{H.Index}, map[int]bool{from.Index: true})
				if _, h := hasLabel(gl, "EQ("+resD+"[", fmt.Sprintf("].Result,const:%d)", rc["ResultRevoked"])); !h {
					allGuarded = false
				}
			}
			for i, e := range hp.Edges {
				if loopBlocks(H)[H.Preds[i].Index] {
					rec(e, H.Preds[i])
				}
			}
			if allGuarded && n > 0 {
				ok = true
			}
		}
		// The same clause decided on a remembered position instead of a remembered string: the subject returned next to
		// the constant Revoked is chain[k].Subject where k is a loop-carried int every in-loop source of which is the
		// index the iteration reads its result at, assigned under Result == Revoked. Then chain[k] is the certificate
		// of a Revoked result (the chain is indexed as the results are: aggregator/same-index).
		if !ok && idx != nil {
			for _, pr := range c05PairedWithRevoked(r, rc["ResultRevoked"]) {
				if _, isPhi := pr.(*ssa.Phi); isPhi {
					continue
				}
				d := desc(pr)
				if !strings.Contains(d, "param:"+chainP.Name()+"[") || !strings.Contains(d, ".Subject") {
					continue
				}
				k, isPhi := c05ChainIndex(pr, chainP, 8).(*ssa.Phi)
				if !isPhi || k.Block() != H || !isPlainInt(k.Type()) {
					continue
				}
				lb := loopBlocks(H)
				srcSeen := map[ssa.Value]bool{}
				allGuarded, n := true, 0
				var rec func(v ssa.Value, from *ssa.BasicBlock)
				rec = func(v ssa.Value, from *ssa.BasicBlock) {
					if v == ssa.Value(k) {
						return
					}
					if p, isPhi := v.(*ssa.Phi); isPhi && ssa.Value(p) != idx {
						if srcSeen[v] {
							return
						}
						srcSeen[v] = true
						for i, e := range p.Edges {
							rec(e, p.Block().Preds[i])
						}
						return
					}
					n++
					if v != idx {
						allGuarded = false
						detail = "the remembered position may be " + desc(v) + ", which is not the index of the running iteration"
						return
					}
					gl, _ := fi.mustPassBetween([]int{H.Index}, map[int]bool{from.Index: true})
					if _, h := hasLabel(gl, "EQ("+resD+"[", fmt.Sprintf("].Result,const:%d)", rc["ResultRevoked"])); !h {
						allGuarded = false
						detail = "the position of the certificate reported as revoked is recorded in an iteration whose result need not be Revoked"
					}
				}
				for i, e := range k.Edges {
					if lb[H.Preds[i].Index] {
						rec(e, H.Preds[i])
					}
				}
				if allGuarded && n > 0 {
					ok = true
				}
			}
		}
	}
	c.Evals++
	c.Check(ok, "aggregator/revoked-subject", rule, w.FnPos(A), detail)
}

func isPlainInt(t types.Type) bool { return types.Identical(t, types.Typ[types.Int]) }
