package main

import (
	"fmt"
	"go/constant"
	"go/token"
	"go/types"
	"sort"
	"strings"

	"golang.org/x/tools/go/ssa"
)

func init() {
	register(&Rule{
		ID:    "C05",
		Title: "revocation checking fails closed over the whole certificate chain",
		Run:   runC05,
		Explain: "(a) the verifier constructor's success exits store a non-nil code-signing validator or client, and the revocation function fails when both are nil; " +
			"(b) both validator interfaces receive the unsliced SignerInfo.CertificateChain and the same signing-time value, which is the zero time unless scheme == notary.x509.signingAuthority; " +
			"(c) a validator error and every aggregate other than ResultOK set the result's Error; " +
			"(d) the aggregator (found by its []*result.CertRevocationResult parameter) is decided by abstract interpretation over the finite domain Result in {OK, NonRevokable, Unknown, Revoked, other} per certificate, " +
			"a two-point abstraction of the OK counter (equal to / below the number of completed iterations) and ghost bits sawRevoked / sawNonOK, iterated to a fixpoint over the loop: " +
			"for every reachable abstract state the returned aggregate is Revoked if any certificate was Revoked, and not OK if any certificate was neither OK nor NonRevokable; " +
			"the loop is cut by len(results) == len(chain), iterates over all results and indexes both slices with the same variable.",
		NotCov:  "OCSP/CRL evaluation (notation-core-go revocation); result vectors are covered as abstract states, not as enumerated concrete vectors.",
		Trusted: []string{"go/types, go/ssa", "notation-core-go revocation.Validator / Revocation", "soundness of the counter abstraction: the counter is only incremented by 1, at most once per iteration (checked)"},
	})
}

type natLoop struct {
	Header *ssa.BasicBlock
	Blocks map[int]bool
}

// naturalLoops finds loop headers (targets of back edges) and their blocks.
func naturalLoops(fn *ssa.Function) []natLoop {
	var out []natLoop
	for _, b := range fn.Blocks {
		isHeader := false
		for _, p := range b.Preds {
			if b.Dominates(p) {
				isHeader = true
			}
		}
		if isHeader {
			out = append(out, natLoop{b, loopBlocks(b)})
		}
	}
	return out
}

func resultConsts(w *World) map[string]int64 {
	out := map[string]int64{}
	p := w.ByPath["github.com/notaryproject/notation-core-go/revocation/result"]
	if p == nil {
		return out
	}
	for _, n := range []string{"ResultUnknown", "ResultOK", "ResultNonRevokable", "ResultRevoked"} {
		if k, ok := p.Types.Scope().Lookup(n).(*types.Const); ok {
			if v, ok := constant.Int64Val(k.Val()); ok {
				out[n] = v
			}
		}
	}
	return out
}

func runC05(c *Ctx) {
	w := c.W
	rc := resultConsts(w)
	if len(rc) != 4 {
		c.Unk("consts", "anchor: revocation result constants of notation-core-go", "-", "not found")
		return
	}
	// R: the function invoking the code-signing validators on the signer's chain
	var R *ssa.Function
	var vcCall, vCall *ssa.Call
	for _, fn := range w.FuncsOfPkg("verifier") {
		for _, ci := range allCalls(fn) {
			call, ok := ci.(*ssa.Call)
			if !ok {
				continue
			}
			switch calleeName(call) {
			case "invoke:core/revocation.Revocation.Validate":
				R, vCall = fn, call
			}
		}
	}
	if R != nil {
		for _, ci := range allCalls(R) {
			if call, ok := ci.(*ssa.Call); ok && calleeName(call) == "invoke:core/revocation.Validator.ValidateContext" {
				vcCall = call
			}
		}
	}
	if R == nil || vcCall == nil || vCall == nil {
		c.Unk("anchor", "anchor: the verifier function that consults revocation.Validator.ValidateContext and the deprecated revocation.Revocation.Validate", "-", "not found")
		return
	}
	c.SeenFn(R.String())
	fi := w.Info(R)
	// (b) arguments
	var optChain, optTime ssa.Value
	if al, ok := unwrapLoadAlloc(vcCall.Call.Args[1]); ok {
		for _, r := range *al.Referrers() {
			if fa, ok := r.(*ssa.FieldAddr); ok {
				for _, rr := range *fa.Referrers() {
					if st, ok := rr.(*ssa.Store); ok && st.Addr == fa {
						switch fieldName(al.Type(), fa.Field) {
						case "CertChain":
							optChain = st.Val
						case "AuthenticSigningTime":
							optTime = st.Val
						}
					}
				}
			}
		}
	}
	chainOK := func(v ssa.Value) bool {
		if v == nil {
			return false
		}
		d := desc(v)
		return strings.HasSuffix(d, ".EnvelopeContent.SignerInfo.CertificateChain")
	}
	c.Check(chainOK(optChain), "args/chain-context-validator", "provenance: ValidateContext receives the complete (unsliced) SignerInfo.CertificateChain of the verified envelope", w.InstrPos(vcCall), "CertChain is "+desc(optChain))
	c.Check(chainOK(vCall.Call.Args[0]), "args/chain-deprecated-client", "provenance: Revocation.Validate receives the complete (unsliced) SignerInfo.CertificateChain of the verified envelope", w.InstrPos(vCall), "chain argument is "+desc(vCall.Call.Args[0]))
	tV := vCall.Call.Args[1]
	c.Check(optTime != nil && optTime == tV, "args/same-signing-time", "sibling agreement: both validator interfaces receive the same signing-time value", w.InstrPos(vCall), fmt.Sprintf("context validator gets %s, client gets %s", desc(optTime), desc(tV)))
	sa, _ := w.depConstString("github.com/notaryproject/notation-core-go/signature", "SigningSchemeX509SigningAuthority")
	okTime := false
	detail := "signing time is " + desc(tV)
	if p, ok := tV.(*ssa.Phi); ok && len(p.Edges) == 2 {
		nz, nonZero := 0, 0
		for i, e := range p.Edges {
			if k, ok := e.(*ssa.Const); ok && k.Value == nil {
				nz++
				continue
			}
			if strings.HasPrefix(desc(e), "call:(*core/signature.SignerInfo).AuthenticSigningTime(") {
				g, _ := fi.mustPassBetween([]int{0}, map[int]bool{p.Block().Preds[i].Index: true})
				if _, h := hasLabel(g, "EQ(", fmt.Sprintf(".SignedAttributes.SigningScheme,const:%q)", sa)); h {
					nonZero++
				} else {
					detail = "the authentic signing time is used without the scheme == signingAuthority guard"
				}
			}
		}
		okTime = nz == 1 && nonZero == 1
	}
	c.Evals++
	c.Check(okTime, "args/signing-time-only-for-signing-authority", "the signing time handed to the validator is the zero time unless the scheme is notary.x509.signingAuthority", w.InstrPos(vCall), detail)

	// aggregator
	var A *ssa.Function
	var aCall *ssa.Call
	for _, ci := range allCalls(R) {
		call, ok := ci.(*ssa.Call)
		if !ok {
			continue
		}
		g := staticCallee(call)
		if g == nil || !w.IsProductFn(g) {
			continue
		}
		for i := 0; i < g.Signature.Params().Len(); i++ {
			if strings.Contains(g.Signature.Params().At(i).Type().String(), "revocation/result.CertRevocationResult") {
				A, aCall = g, call
			}
		}
	}
	if A == nil {
		c.Unk("aggregator/anchor", "anchor: the aggregation function taking []*result.CertRevocationResult", w.FnPos(R), "not found")
		return
	}
	// (c) success exits of R
	s := w.Summarize(R, Mode{Kind: mObj, K: 0})
	c.Evals += s.States
	c.requireOnExits("result", R, s.Exits, []Need{
		{Name: "validator-error", What: "the validator's error == nil", Subs: []string{"EQ(phi(call:invoke:core/revocation.Revocation.Validate(", "#err", "ValidateContext(", ",nil)"}},
		{Name: "aggregate-ok", What: fmt.Sprintf("aggregate == ResultOK (%d): every other aggregate sets the result's Error", rc["ResultOK"]), Subs: []string{"EQ(call:" + fnName(A) + "(", fmt.Sprintf("#0,const:%d)", rc["ResultOK"])}},
	})
	// both-nil
	{
		recv := "param:" + R.Params[0].Name()
		cut := fi.edgesMatching(func(l string, _ *ssa.If, _ bool) bool {
			return l == "NE("+desc(callArgs(vcCall)[0])+",nil)" || l == "NE("+desc(callArgs(vCall)[0])+",nil)"
		})
		_ = recv
		wit := fi.successWitness(Mode{Kind: mObj, K: 0}, entryState(), cut)
		c.Evals++
		c.Check(len(cut) >= 2 && wit == nil, "result/both-validators-nil", "with neither a code-signing validator nor a client the revocation result carries an error", w.FnPos(R), "a success result is possible with both validators nil", wit...)
	}
	// aggregator arguments
	{
		okRes := false
		if p, ok := aCall.Call.Args[0].(*ssa.Phi); ok {
			n := 0
			for _, e := range p.Edges {
				if ex, ok := e.(*ssa.Extract); ok && (ex.Tuple == vcCall || ex.Tuple == vCall) && ex.Index == 0 {
					n++
				}
			}
			okRes = n == len(p.Edges) && n == 2
		}
		c.Check(okRes, "aggregator/results-argument", "provenance: the aggregator receives the results returned by the validator that was consulted", w.InstrPos(aCall), "results argument is "+desc(aCall.Call.Args[0]))
		c.Check(chainOK(aCall.Call.Args[1]), "aggregator/chain-argument", "provenance: the aggregator receives the same complete certificate chain", w.InstrPos(aCall), "chain argument is "+desc(aCall.Call.Args[1]))
	}
	c05Aggregator(c, A, rc)
	c05Constructor(c, R, vcCall, vCall)
}

func unwrapLoadAlloc(v ssa.Value) (*ssa.Alloc, bool) {
	if u, ok := v.(*ssa.UnOp); ok && u.Op == token.MUL {
		if al, ok := u.X.(*ssa.Alloc); ok {
			return al, true
		}
	}
	if al, ok := v.(*ssa.Alloc); ok {
		return al, true
	}
	return nil, false
}

// c05Constructor: fields consulted by R are set non-nil on constructor success.
func c05Constructor(c *Ctx, R *ssa.Function, vcCall, vCall *ssa.Call) {
	w := c.W
	fieldOfRecv := func(v ssa.Value) (string, int) {
		if u, ok := v.(*ssa.UnOp); ok && u.Op == token.MUL {
			if fa, ok := u.X.(*ssa.FieldAddr); ok {
				return namedOf(fa.X.Type()), fa.Field
			}
		}
		return "", -1
	}
	t1, f1 := fieldOfRecv(callArgs(vcCall)[0])
	t2, f2 := fieldOfRecv(callArgs(vCall)[0])
	if f1 < 0 || f2 < 0 || t1 != t2 {
		c.Unk("constructor/fields", "anchor: the verifier fields holding the code-signing validator and the client", w.FnPos(R), "not recognised")
		return
	}
	rule := "constructor: every success exit of a function that configures the code-signing revocation fields stores a non-nil validator or client (or the value of a constructor call whose error was checked)"
	n := 0
	for _, fn := range w.FuncsOfPkg("verifier") {
		if fn == R {
			continue
		}
		fi := w.Info(fn)
		var storeBlocks []*ssa.BasicBlock
		okVals := true
		for _, b := range fn.Blocks {
			for _, in := range b.Instrs {
				st, ok := in.(*ssa.Store)
				if !ok {
					continue
				}
				fa, ok := st.Addr.(*ssa.FieldAddr)
				if !ok || namedOf(fa.X.Type()) != t1 || (fa.Field != f1 && fa.Field != f2) {
					continue
				}
				good := fi.nonNil(st.Val, b)
				if !good {
					if ex, ok := st.Val.(*ssa.Extract); ok {
						if call, ok := ex.Tuple.(*ssa.Call); ok {
							if labelHas(fi.GuardsOf(st), "EQ("+descTailErr(call)+",nil)") {
								good = true
							}
						}
					}
					// phi of such values
					if p, ok := st.Val.(*ssa.Phi); ok {
						good = true
						for i, e := range p.Edges {
							if fi.nonNil(e, p.Block().Preds[i]) {
								continue
							}
							if ex, ok := e.(*ssa.Extract); ok {
								if call, ok := ex.Tuple.(*ssa.Call); ok {
									gl, _ := fi.mustPassBetween([]int{0}, map[int]bool{p.Block().Preds[i].Index: true})
									if labelHas(gl, "EQ("+descTailErr(call)+",nil)") {
										continue
									}
								}
							}
							good = false
						}
					}
				}
				if good {
					storeBlocks = append(storeBlocks, b)
				} else {
					okVals = false
				}
			}
		}
		if len(storeBlocks) == 0 && okVals {
			continue
		}
		n++
		c.SeenFn(fn.String())
		if nres := fn.Signature.Results().Len(); nres == 0 || !isErrorType(fn.Signature.Results().At(nres-1).Type()) {
			continue
		}
		cut := map[edgeKey]bool{}
		for _, b := range storeBlocks {
			cutInto(fi, b, cut)
		}
		wit := fi.successWitness(Mode{Kind: mErr}, entryState(), cut)
		c.Evals++
		c.Check(wit == nil, "constructor/"+fnName(fn), rule, w.FnPos(fn), "a success exit leaves both the code-signing validator and the client unset (or possibly nil)", wit...)
	}
	if n == 0 {
		c.Unk("constructor", rule, "-", "no function stores the code-signing revocation fields")
	}
}

// c05Aggregator decides the aggregation function by abstract interpretation.
func c05Aggregator(c *Ctx, A *ssa.Function, rc map[string]int64) {
	w := c.W
	fi := w.Info(A)
	c.SeenFn(A.String())
	var resP, chainP *ssa.Parameter
	for _, p := range A.Params {
		ts := p.Type().String()
		if strings.Contains(ts, "revocation/result.CertRevocationResult") {
			resP = p
		}
		if strings.Contains(ts, "[]*crypto/x509.Certificate") {
			chainP = p
		}
	}
	if resP == nil || chainP == nil {
		c.Unk("aggregator/params", "anchor: results and chain parameters", w.FnPos(A), "not found")
		return
	}
	resD := "param:" + resP.Name()
	isResLoad := func(in ssa.Instruction) bool {
		u, ok := in.(*ssa.UnOp)
		if !ok || u.Op != token.MUL {
			return false
		}
		d := desc(u)
		return strings.HasPrefix(d, resD+"[") && strings.HasSuffix(d, "].Result")
	}
	// the main loop: outermost natural loop containing a load of results[i].Result
	var loop *natLoop
	for _, nl := range naturalLoops(A) {
		nl := nl
		has := false
		for bi := range nl.Blocks {
			for _, in := range A.Blocks[bi].Instrs {
				if isResLoad(in) {
					has = true
				}
			}
		}
		if has && (loop == nil || len(nl.Blocks) > len(loop.Blocks)) {
			loop = &nl
		}
	}
	if loop == nil {
		c.Unk("aggregator/loop", "anchor: the loop over the per-certificate results", w.FnPos(A), "no loop reads "+resD+"[i].Result")
		return
	}
	H := loop.Header
	// d4: guarded by equal lengths; iterates over all results; same index for both slices
	g := fi.GuardsOf(blockTerm(H))
	chD := "param:" + chainP.Name()
	okLen := labelHas(g, "EQ(len("+resD+"),len("+chD+"))") || labelHas(g, "EQ(len("+chD+"),len("+resD+"))")
	c.Evals++
	c.Check(okLen, "aggregator/length-agreement", "the loop is reachable only through len(results) == len(chain) (every certificate has exactly one result; no index can go out of range)", w.InstrPos(blockTerm(H)),
		"the per-certificate loop can run with result and chain slices of different length; guards: "+summarizeLabels(g, 6))
	iff, _ := blockTerm(H).(*ssa.If)
	okIter := false
	hl := ""
	if iff != nil {
		hl = condLabel(iff.Cond, true)
		switch {
		case strings.HasPrefix(hl, "GE(phi((len("+resD+") - const:1)|") && strings.HasSuffix(hl, " - const:1)),const:0)"):
			okIter = true
		case strings.HasPrefix(hl, "LT(") && strings.HasSuffix(hl, ",len("+resD+"))") && (strings.Contains(hl, "const:-1") || strings.Contains(hl, "const:0")):
			okIter = true
		}
	}
	// a single exit: from the header
	for bi := range loop.Blocks {
		b := A.Blocks[bi]
		for _, s := range b.Succs {
			if !loop.Blocks[s.Index] && b != H {
				if _, isRet := blockTerm(s).(*ssa.Return); !isRet {
					okIter = false
				}
			}
		}
	}
	c.Check(okIter, "aggregator/iterates-all", "the loop visits every index of the results slice exactly once (no early exit)", w.InstrPos(blockTerm(H)), "loop condition "+hl)
	var idx ssa.Value
	okIdx := true
	for bi := range loop.Blocks {
		for _, in := range A.Blocks[bi].Instrs {
			ia, ok := in.(*ssa.IndexAddr)
			if !ok {
				continue
			}
			if ia.X == resP || ia.X == chainP {
				if idx == nil {
					idx = ia.Index
				} else if idx != ia.Index {
					okIdx = false
				}
			}
		}
	}
	c.Check(okIdx && idx != nil, "aggregator/same-index", "results and chain are indexed with the same variable (a result is attributed to its own certificate)", w.InstrPos(blockTerm(H)), "different index expressions are used")

	// ---- abstract interpretation -------------------------------------------
	resType := "core/revocation/result.Result"
	phis := headerPhis(H)
	var tracked []ssa.Value
	var trackedPhis []*ssa.Phi
	for _, p := range phis {
		t := p.Type()
		b, isBasic := t.Underlying().(*types.Basic)
		if namedOf(t) == resType || (isBasic && b.Info()&types.IsBoolean != 0) || isPlainInt(t) {
			tracked = append(tracked, p)
			trackedPhis = append(trackedPhis, p)
		}
	}
	var curInput AVal
	inLoop := false
	hook := func(in ssa.Instruction, env map[ssa.Value]AVal) (AVal, bool) {
		if isResLoad(in) {
			if inLoop {
				return curInput, true
			}
			return top, true
		}
		if bo, ok := in.(*ssa.BinOp); ok && (bo.Op == token.EQL || bo.Op == token.NEQ) {
			x, xok := env[bo.X]
			y, yok := env[bo.Y]
			var cnt AVal
			var other ssa.Value
			if xok && x.Kind == aCnt {
				cnt, other = x, bo.Y
			} else if yok && y.Kind == aCnt {
				cnt, other = y, bo.X
			} else {
				return AVal{}, false
			}
			if inLoop || desc(other) != "len("+resD+")" || cnt.Delta != 0 {
				return top, true
			}
			return AVal{Kind: aBool, B: cnt.Eq == (bo.Op == token.EQL)}, true
		}
		return AVal{}, false
	}
	ip := &Interp{Fn: A, Hook: hook, IntTypes: map[string]bool{resType: true}}
	type hstate struct {
		vals                 []AVal
		sawRevoked, sawNonOK bool
		early                bool
	}
	key := func(s hstate) string { return stateKey(s.vals, []bool{s.sawRevoked, s.sawNonOK, s.early}) }
	envOf := func(s hstate) map[ssa.Value]AVal {
		e := map[ssa.Value]AVal{}
		for i, p := range trackedPhis {
			e[p] = s.vals[i]
		}
		return e
	}
	normalize := func(p *ssa.Phi, v AVal, entering bool) AVal {
		if isPlainInt(p.Type()) {
			if entering {
				// counter candidates start at constant 0
				return v
			}
			if v.Kind == aCnt {
				switch {
				case v.Delta == 1 && v.Eq:
					return AVal{Kind: aCnt, Eq: true}
				case v.Delta <= 1:
					return AVal{Kind: aCnt, Eq: false}
				default:
					return top
				}
			}
			return top
		}
		return v
	}
	seen := map[string]bool{}
	var work []hstate
	var violations []string
	nOutcomes := 0
	checkReturn := func(o Outcome, s hstate, what string) {
		nOutcomes++
		if o.Ret == nil || len(o.Ret.Results) == 0 {
			return
		}
		a := ip.val(o.Ret.Results[0], o.Env)
		st := fmt.Sprintf("%s [state %s sawRevoked=%v sawNonOK=%v] returns %s at %s", what, stateKey(s.vals, nil), s.sawRevoked, s.sawNonOK, a, w.InstrPos(o.Ret))
		if a.Kind != aInt {
			if s.sawRevoked || s.sawNonOK {
				violations = append(violations, "aggregate not determined: "+st)
			}
			return
		}
		if s.sawRevoked && a.Int != rc["ResultRevoked"] {
			violations = append(violations, "a revoked certificate does not make the aggregate Revoked: "+st)
		} else if s.sawNonOK && a.Int == rc["ResultOK"] {
			violations = append(violations, "aggregate OK although a certificate was neither OK nor non-revokable: "+st)
		}
	}
	// prologue: from entry to the loop header
	inLoop = false
	for _, o := range ip.Run(A.Blocks[0], nil, map[ssa.Value]AVal{}, map[*ssa.BasicBlock]bool{H: true}, nil) {
		if o.Stop == nil {
			// returns before the loop: nothing is known about the results => must not be OK
			nOutcomes++
			if o.Ret != nil && len(o.Ret.Results) > 0 {
				a := ip.val(o.Ret.Results[0], o.Env)
				if a.Kind != aInt || a.Int == rc["ResultOK"] {
					violations = append(violations, fmt.Sprintf("an exit before the per-certificate loop returns %s at %s", a, w.InstrPos(o.Ret)))
				}
			}
			continue
		}
		var s hstate
		pi := -1
		for i, p := range H.Preds {
			if p == o.From {
				pi = i
			}
		}
		for _, p := range trackedPhis {
			v := ip.val(p.Edges[pi], o.Env)
			if isPlainInt(p.Type()) {
				if k, ok := p.Edges[pi].(*ssa.Const); ok && k.Value != nil && k.Value.ExactString() == "0" {
					v = AVal{Kind: aCnt, Eq: true}
				} else {
					v = top
				}
			}
			s.vals = append(s.vals, v)
		}
		if !seen[key(s)] {
			seen[key(s)] = true
			work = append(work, s)
		}
	}
	inputs := []struct {
		name string
		v    int64
	}{{"OK", rc["ResultOK"]}, {"NonRevokable", rc["ResultNonRevokable"]}, {"Unknown", rc["ResultUnknown"]}, {"Revoked", rc["ResultRevoked"]}, {"other", 97}}
	stops := map[*ssa.BasicBlock]bool{H: true}
	for bi := range loop.Blocks {
		for _, sblk := range A.Blocks[bi].Succs {
			if !loop.Blocks[sblk.Index] {
				stops[sblk] = true
			}
		}
	}
	for len(work) > 0 && len(seen) < 4000 {
		s := work[len(work)-1]
		work = work[:len(work)-1]
		for _, inp := range inputs {
			curInput = AVal{Kind: aInt, Int: inp.v}
			inLoop = true
			outs := ip.Run(H, nil, envOf(s), stops, tracked)
			inLoop = false
			for _, o := range outs {
				if o.Stop == nil {
					// return from inside the loop
					ns := s
					ns.sawRevoked = s.sawRevoked || inp.v == rc["ResultRevoked"]
					ns.sawNonOK = s.sawNonOK || (inp.v != rc["ResultOK"] && inp.v != rc["ResultNonRevokable"])
					checkReturn(o, ns, "return inside the loop on input "+inp.name)
					continue
				}
				if o.Stop == H {
					pi := -1
					for i, p := range H.Preds {
						if p == o.From {
							pi = i
						}
					}
					ns := hstate{sawRevoked: s.sawRevoked || inp.v == rc["ResultRevoked"], sawNonOK: s.sawNonOK || (inp.v != rc["ResultOK"] && inp.v != rc["ResultNonRevokable"])}
					for _, p := range trackedPhis {
						ns.vals = append(ns.vals, normalize(p, ip.val(p.Edges[pi], o.Env), false))
					}
					if !seen[key(ns)] {
						seen[key(ns)] = true
						work = append(work, ns)
					}
					continue
				}
				// loop exit
				if o.From != H {
					continue // early exits are rejected by aggregator/iterates-all
				}
				// the header exit happens before any input is read in this round: evaluate the epilogue with state s
				env := copyEnv(o.Env)
				for _, eo := range ip.Run(o.Stop, o.From, env, nil, nil) {
					checkReturn(eo, s, "after the loop")
				}
			}
		}
	}
	c.Evals += ip.Steps
	c.Extra["aggregator_abstract_states"] = len(seen)
	c.Extra["aggregator_outcomes_checked"] = nOutcomes
	rule := "abstract interpretation (finite domain, loop fixpoint): for every reachable abstract state the aggregate is Revoked if any certificate was Revoked and is not OK if any certificate was neither OK nor NonRevokable"
	if ip.Overflow || len(seen) >= 4000 {
		c.Unk("aggregator/decision", rule, w.FnPos(A), "state space not exhausted")
		return
	}
	if len(seen) == 0 || nOutcomes == 0 {
		c.Unk("aggregator/decision", rule, w.FnPos(A), "the loop was not reached by the abstract interpretation")
		return
	}
	if len(violations) > 0 {
		sort.Strings(violations)
		violations = uniq(violations)
		if len(violations) > 6 {
			violations = violations[:6]
		}
		c.Bad("aggregator/decision", rule, w.FnPos(A), strings.Join(violations, "\n"))
	} else {
		c.OK("aggregator/decision", rule, w.InstrPos(blockTerm(H)))
	}
	// the subject reported for a revoked certificate: a flag-selected value that was assigned chain[i].Subject under Result == Revoked
	c05Subject(c, A, H, chainP, resD, rc)
}

// c05Subject: the subject returned when the aggregate is Revoked names a revoked certificate.
func c05Subject(c *Ctx, A *ssa.Function, H *ssa.BasicBlock, chainP *ssa.Parameter, resD string, rc map[string]int64) {
	w := c.W
	fi := w.Info(A)
	rule := "the subject returned together with a Revoked aggregate is a value assigned from chain[i].Subject only in iterations whose result is Revoked"
	// returns after the loop
	ok := false
	detail := "no string phi carrying the revoked certificate's subject found"
	for _, b := range A.Blocks {
		r, isRet := blockTerm(b).(*ssa.Return)
		if !isRet || len(r.Results) != 2 || !H.Dominates(b) {
			continue
		}
		// walk the phi graph of the subject result: find a header phi all of whose in-loop sources are guarded by Result == Revoked
		seen := map[ssa.Value]bool{}
		var hdrPhis []*ssa.Phi
		var walk func(v ssa.Value)
		walk = func(v ssa.Value) {
			if seen[v] {
				return
			}
			seen[v] = true
			if p, isPhi := v.(*ssa.Phi); isPhi {
				if p.Block() == H {
					hdrPhis = append(hdrPhis, p)
				}
				for _, e := range p.Edges {
					walk(e)
				}
			}
		}
		walk(r.Results[1])
		for _, hp := range hdrPhis {
			// sources flowing into hp from inside the loop
			srcSeen := map[ssa.Value]bool{}
			allGuarded, n := true, 0
			var rec func(v ssa.Value, from *ssa.BasicBlock)
			rec = func(v ssa.Value, from *ssa.BasicBlock) {
				if srcSeen[v] || v == hp {
					return
				}
				srcSeen[v] = true
				if p, isPhi := v.(*ssa.Phi); isPhi {
					for i, e := range p.Edges {
						rec(e, p.Block().Preds[i])
					}
					return
				}
				if k, isK := v.(*ssa.Const); isK && k.Value != nil && k.Value.ExactString() == `""` {
					return
				}
				n++
				d := desc(v)
				if !strings.Contains(d, "param:"+chainP.Name()+"[") || !strings.Contains(d, ".Subject") {
					allGuarded = false
					return
				}
				gl, _ := fi.mustPassBetween([]int{H.Index}, map[int]bool{from.Index: true})
				if _, h := hasLabel(gl, "EQ("+resD+"[", fmt.Sprintf("].Result,const:%d)", rc["ResultRevoked"])); !h {
					allGuarded = false
				}
			}
			for i, e := range hp.Edges {
				if loopBlocks(H)[H.Preds[i].Index] {
					rec(e, H.Preds[i])
				}
			}
			if allGuarded && n > 0 {
				ok = true
			}
		}
	}
	c.Evals++
	c.Check(ok, "aggregator/revoked-subject", rule, w.FnPos(A), detail)
}

func isPlainInt(t types.Type) bool { return types.Identical(t, types.Typ[types.Int]) }
