package main

import (
	"fmt"
	"strings"

	"golang.org/x/tools/go/ssa"
)

func init() {
	register(&Rule{
		ID:    "C06",
		Title: "expiry and certificate validity are judged against the right clock",
		Run:   runC06,
		Explain: "(a) expiry: the expiry result is error-free only through expiry.IsZero() or time.Now().Before(expiry) (equivalently expiry.After(time.Now())), with expiry = SignedAttributes.Expiry; " +
			"(b) signing-authority: every certificate of the whole chain passes !SigningTime.Before(NotBefore) and !SigningTime.After(NotAfter), success only after the loop; " +
			"(c) notary.x509: the regime decision (timestamp verification vs. 'valid now') is decided by abstract interpretation over tsaEnabled x verifyTimestamp option x chain-expired and equals the specified table; " +
			"the tsa-enabled helper answers true only for a listed store with prefix tsa; without timestamping every certificate passes !now.Before(NotBefore) and !now.After(NotAfter) with now = time.Now(); " +
			"(d) the timestamp path's success exits are cut, in data-dependence order, by countersignature present, ParseSignedToken, Info, info.Validate(SignerInfo.Signature), tsa stores loaded by the tsa loader and non-empty, " +
			"signedToken.Verify with Roots built only from those certificates and CurrentTime = the timestamp, ValidateTimestampingCertChain, BoundedAfter(NotBefore) and BoundedBefore(NotAfter) for every certificate of the signing chain, " +
			"and revocation of the TSA chain (validator error and every aggregate other than OK fail-closed); (e) the authentic-timestamp result for notary.x509 is exactly the timestamp function's error.",
		NotCov:  "RFC 3161 token verification (tspclient-go), equal-instant boundaries of time.Time comparisons, the revocation aggregator itself (C05).",
		Trusted: []string{"go/types, go/ssa", "tspclient-go", "time.Time Before/After/IsZero", "notation-core-go x509.ValidateTimestampingCertChain"},
	})
}

func runC06(c *Ctx) {
	w := c.W
	te, _ := w.constString("verifier/trustpolicy", "TypeExpiry")
	tat, _ := w.constString("verifier/trustpolicy", "TypeAuthenticTimestamp")
	var EXP, ATS, T *ssa.Function
	for _, fn := range w.FuncsOfPkg("verifier") {
		if fn.Signature.Results().Len() == 1 && isVRPtr(fn.Signature.Results().At(0).Type()) {
			if allocatesType(w, fn, fmt.Sprintf("%q", te)) {
				EXP = fn
			}
			if allocatesType(w, fn, fmt.Sprintf("%q", tat)) {
				ATS = fn
			}
		}
		if len(findCalls(fn, "tspclient.ParseSignedToken")) > 0 {
			T = fn
		}
	}
	if EXP == nil || ATS == nil || T == nil {
		c.Unk("anchors", "anchors: the functions producing the expiry and authentic-timestamp results and the one parsing the countersignature", "-", fmt.Sprintf("expiry=%v authenticTimestamp=%v timestamp=%v", EXP != nil, ATS != nil, T != nil))
		return
	}
	c06Expiry(c, EXP)
	c06SigningAuthority(c, ATS, T)
	c06Regime(c, T)
	c06TimestampPath(c, T)
	c.MinCount("", 20, "clock obligations")
}

func c06Expiry(c *Ctx, EXP *ssa.Function) {
	w := c.W
	fi := w.Info(EXP)
	c.SeenFn(EXP.String())
	rule := "must-check (disjunctive): the expiry result is error-free only if SignedAttributes.Expiry is zero or time.Now() is before it"
	isExp := func(s string) bool { return strings.HasSuffix(s, ".SignedAttributes.Expiry") }
	n := 0
	cut := fi.edgesMatching(func(l string, iff *ssa.If, truth bool) bool {
		cond := stripNot(iff.Cond, &truth)
		call, ok := cond.(*ssa.Call)
		if !ok || !truth {
			return false
		}
		switch calleeName(call) {
		case "(time.Time).IsZero":
			if isExp(desc(call.Call.Args[0])) {
				n++
				return true
			}
		case "(time.Time).Before":
			if desc(call.Call.Args[0]) == "call:time.Now()" && isExp(desc(call.Call.Args[1])) {
				n++
				return true
			}
		case "(time.Time).After":
			if isExp(desc(call.Call.Args[0])) && desc(call.Call.Args[1]) == "call:time.Now()" {
				n++
				return true
			}
		}
		return false
	})
	wit := fi.successWitness(Mode{Kind: mObj, K: 0}, entryState(), cut)
	c.Evals++
	c.Check(n >= 2 && wit == nil, "expiry/clock", rule, w.FnPos(EXP), "an error-free expiry result is possible for a non-zero expiry that is not after time.Now() (or the comparison uses another clock/operand)", wit...)
}

func stripNot(v ssa.Value, truth *bool) ssa.Value {
	for {
		u, ok := v.(*ssa.UnOp)
		if !ok || u.Op.String() != "!" {
			return v
		}
		*truth = !*truth
		v = u.X
	}
}

// timeGate recognises an If edge on which `t` is known to be inside a bound:
// kind "notbefore": !t.Before(x.NotBefore) ; kind "notafter": !t.After(x.NotAfter).
func timeGate(l string, tDesc, chainD, kind string) bool {
	switch kind {
	case "notbefore":
		return strings.HasPrefix(l, "F(call:(time.Time).Before("+tDesc+","+chainD+"[") && strings.HasSuffix(l, "].NotBefore))")
	default:
		return strings.HasPrefix(l, "F(call:(time.Time).After("+tDesc+","+chainD+"[") && strings.HasSuffix(l, "].NotAfter))")
	}
}

func c06SigningAuthority(c *Ctx, ATS, T *ssa.Function) {
	w := c.W
	fi := w.Info(ATS)
	c.SeenFn(ATS.String())
	sx, _ := w.depConstString("github.com/notaryproject/notation-core-go/signature", "SigningSchemeX509")
	s := w.Summarize(ATS, Mode{Kind: mObj, K: 0})
	c.Evals += s.States
	// (e) notary.x509: tail = T
	okTail, okOther := false, false
	schemeEQ := fmt.Sprintf(".SignedAttributes.SigningScheme,const:%q)", sx)
	for _, ex := range s.Exits {
		if _, h := hasLabel(ex.Checked, "EQ(", schemeEQ); h {
			if ex.Tail == fnName(T) {
				okTail = true
			} else {
				okTail = false
				c.Bad("dispatch/x509-result-is-timestamp-error", "under notary.x509 the authentic-timestamp result's Error is exactly the timestamp function's error", w.InstrPos(ex.Ret), "another success exit exists under notary.x509")
			}
		} else if _, h := hasLabel(ex.Checked, "NE(", schemeEQ); h {
			okOther = true
		} else {
			c.Bad("dispatch/scheme-split", "every error-free authentic-timestamp result is decided by the signing scheme", w.InstrPos(ex.Ret), "success exit not guarded by the scheme test")
		}
	}
	c.Check(okTail, "dispatch/x509-result-is-timestamp-error", "under notary.x509 the authentic-timestamp result's Error is exactly the timestamp function's error", w.FnPos(ATS), "no such exit")
	// (b) signing authority loop
	chainD := ""
	var loop *sliceLoop
	for _, sl := range sliceLoops(ATS) {
		sl := sl
		if strings.HasSuffix(desc(sl.X), ".SignerInfo.CertificateChain") {
			loop = &sl
			chainD = desc(sl.X)
		}
	}
	rule := "signing-authority: every certificate of the whole chain satisfies !SigningTime.Before(NotBefore) and !SigningTime.After(NotAfter); an error-free result is reachable only after the loop"
	if loop == nil || !okOther {
		c.Bad("signing-authority/window", rule, w.FnPos(ATS), "no loop over SignerInfo.CertificateChain on the signing-authority branch")
		return
	}
	tD := strings.TrimSuffix(chainD, ".CertificateChain") + ".SignedAttributes.SigningTime"
	labels, ok := fi.mustPassBetween([]int{loop.Body.Index}, map[int]bool{loop.Header.Index: true})
	h1, h2 := false, false
	for l := range labels {
		if timeGate(l, tD, chainD, "notbefore") {
			h1 = true
		}
		if timeGate(l, tD, chainD, "notafter") {
			h2 = true
		}
	}
	// success on the non-x509 side only through the loop
	cut := fi.edgesMatching(func(l string, _ *ssa.If, _ bool) bool {
		return strings.HasPrefix(l, "EQ(") && strings.HasSuffix(l, schemeEQ)
	})
	cutInto(fi, loop.Header, cut)
	wit := fi.successWitness(Mode{Kind: mObj, K: 0}, entryState(), cut)
	wit2 := fi.successWitness(Mode{Kind: mObj, K: 0}, []state{{loop.Body.Index, 0, -1}}, backEdges(loop.Header))
	c.Evals += 3
	c.Check(ok && h1 && h2 && wit == nil && wit2 == nil, "signing-authority/window", rule, w.InstrPos(blockTerm(loop.Header)),
		fmt.Sprintf("not-before gate=%v not-after gate=%v (time operand must be %s); bypass of the loop=%v; success from inside the loop=%v", h1, h2, tD, wit != nil, wit2 != nil))
}

// backEdges returns the back edges of a loop header as a cut set.
func backEdges(h *ssa.BasicBlock) map[edgeKey]bool {
	cut := map[edgeKey]bool{}
	lb := loopBlocks(h)
	for _, p := range h.Preds {
		if lb[p.Index] && p != h {
			for j, s := range p.Succs {
				if s == h {
					cut[edgeKey{p.Index, j}] = true
				}
			}
		}
	}
	return cut
}

// tsStopBlock: the first block of the timestamp regime (the countersignature presence test).
func tsStopBlock(T *ssa.Function) *ssa.BasicBlock {
	for _, b := range T.Blocks {
		if iff, ok := blockTerm(b).(*ssa.If); ok {
			if strings.Contains(condLabel(iff.Cond, true), ".UnsignedAttributes.TimestampSignature") {
				return b
			}
		}
	}
	calls := findCalls(T, "tspclient.ParseSignedToken")
	if len(calls) > 0 {
		return calls[0].Block()
	}
	return nil
}

func c06Regime(c *Ctx, T *ssa.Function) {
	w := c.W
	fi := w.Info(T)
	c.SeenFn(T.String())
	ts := tsStopBlock(T)
	if ts == nil {
		c.Unk("regime/anchor", "anchor: the first block of the timestamp regime", w.FnPos(T), "not found")
		return
	}
	// the tsa-enabled helper
	var G *ssa.Function
	var gCall *ssa.Call
	for _, ci := range allCalls(T) {
		call, ok := ci.(*ssa.Call)
		if !ok {
			continue
		}
		g := staticCallee(call)
		if g == nil || !w.IsProductFn(g) || g.Signature.Results().Len() != 2 {
			continue
		}
		if g.Signature.Results().At(0).Type().String() == "bool" && isErrorType(g.Signature.Results().At(1).Type()) && mentionsConst(w, g, "tsa") {
			G, gCall = g, call
		}
	}
	if G == nil {
		c.Unk("regime/tsa-enabled-helper", "anchor: the helper deciding whether the statement lists a tsa store", w.FnPos(T), "not found")
		return
	}
	// the helper: true only for a listed store with prefix tsa
	{
		gfi := w.Info(G)
		c.SeenFn(G.String())
		ok, n := true, 0
		for _, b := range G.Blocks {
			r, isRet := blockTerm(b).(*ssa.Return)
			if !isRet || len(r.Results) != 2 {
				continue
			}
			if k, isK := r.Results[0].(*ssa.Const); isK && constString(k) == "true" {
				n++
				gl, _ := gfi.mustPassBetween([]int{0}, map[int]bool{b.Index: true})
				if _, h := hasLabel(gl, "EQ(call:strings.Cut(param:", `,const:":")#0,const:"tsa")`); !h {
					ok = false
				}
			} else if !isK {
				ok = false
			}
		}
		// stores argument provenance
		storesOK := false
		for _, a := range gCall.Call.Args {
			if desc(a) == w.paramFedBy(gCall.Parent(), ".TrustStores") || strings.HasSuffix(desc(a), ".TrustStores") {
				storesOK = true
			}
		}
		c.Evals++
		c.Check(ok && n > 0 && storesOK, "regime/tsa-enabled-helper", "the tsa-enabled helper answers true only for an element of the statement's trust stores whose type prefix equals \"tsa\"", w.FnPos(G), "true can be returned without a listed tsa store")
	}
	oa, _ := w.constString("verifier/trustpolicy", "OptionAfterCertExpiry")
	oal, _ := w.constString("verifier/trustpolicy", "OptionAlways")
	var tsaIn bool
	var optIn string
	hook := func(in ssa.Instruction, env map[ssa.Value]AVal) (AVal, bool) {
		if ex, ok := in.(*ssa.Extract); ok && ex.Tuple == gCall {
			if ex.Index == 0 {
				return AVal{Kind: aBool, B: tsaIn}, true
			}
			return AVal{Kind: aNil}, true
		}
		if v, ok := in.(ssa.Value); ok {
			switch in.(type) {
			case *ssa.UnOp, *ssa.Field:
				if strings.HasSuffix(desc(v), ".VerifyTimestamp") {
					return AVal{Kind: aStr, Str: optIn}, true
				}
			}
		}
		return AVal{}, false
	}
	ip := &Interp{Fn: T, Hook: hook, TrackStrings: true, IntTypes: map[string]bool{}}
	isExpiredEdge := func(from, to *ssa.BasicBlock) bool {
		iff, ok := blockTerm(from).(*ssa.If)
		if !ok || from.Succs[0] != to {
			return false
		}
		l := condLabel(iff.Cond, true)
		return strings.HasPrefix(l, "T(call:(time.Time).After(call:time.Now(),") && strings.HasSuffix(l, "].NotAfter))")
	}
	var bad []string
	nPaths := 0
	table := map[string]string{}
	for _, tsa := range []bool{false, true} {
		for _, opt := range []string{"", oal, oa, "bogus"} {
			tsaIn, optIn = tsa, opt
			outs := ip.Run(T.Blocks[0], nil, map[ssa.Value]AVal{}, map[*ssa.BasicBlock]bool{ts: true}, nil)
			for _, o := range outs {
				nPaths++
				// reconstruct whether the path saw an expired certificate before the decision
				sawExpired := false
				trace := o.Trace
				if o.Stop != nil {
					trace = append(append([]int(nil), trace...), o.Stop.Index)
				}
				for i := 0; i+1 < len(trace); i++ {
					if isExpiredEdge(T.Blocks[trace[i]], T.Blocks[trace[i+1]]) {
						sawExpired = true
					}
				}
				regime := "now"
				if o.Stop == ts {
					regime = "timestamp"
				}
				want := "now"
				if tsa && (opt != oa || sawExpired) {
					want = "timestamp"
				}
				// in the 'now' regime a path that saw an expired certificate during the valid-now scan is irrelevant to the decision;
				// only consider the expiry observed before the decision point: the decision scan happens only when tsa && opt == afterCertExpiry
				if !(tsa && opt == oa) {
					want = "now"
					if tsa {
						want = "timestamp"
					}
				} else if regime == "now" && sawExpired {
					// the path concluded 'not expired' in the decision scan and later met an expired certificate in the valid-now scan
					// (both use time.Now()); the valid-now scan rejects it. Not a decision error.
					if o.Ret != nil && len(o.Ret.Results) == 1 && !isNilConst(o.Ret.Results[0]) {
						continue
					}
				}
				key := fmt.Sprintf("tsa=%v option=%q expired-seen=%v", tsa, opt, sawExpired)
				if prev, ok := table[key]; ok && prev != regime {
					table[key] = "both"
				} else if !ok {
					table[key] = regime
				}
				if regime != want {
					bad = append(bad, key+": regime "+regime+", specified "+want)
				}
			}
		}
	}
	c.Evals += ip.Steps
	c.Extra["regime_paths"] = nPaths
	c.Extra["regime_table"] = table
	rule := "finite decision table by abstract interpretation: timestamp verification is performed exactly when a tsa store is listed and the option is not afterCertExpiry, or it is afterCertExpiry and a certificate of the chain is expired at time.Now(); otherwise the chain is judged at time.Now()"
	if ip.Overflow || nPaths == 0 {
		c.Unk("regime/decision-table", rule, w.FnPos(T), "abstract interpretation did not terminate within bounds")
	} else if len(bad) > 0 {
		bad = uniq(bad)
		if len(bad) > 6 {
			bad = bad[:6]
		}
		c.Bad("regime/decision-table", rule, w.FnPos(T), strings.Join(bad, "\n"))
	} else {
		c.OK("regime/decision-table", rule, w.InstrPos(blockTerm(ts)))
	}
	// the decision scan covers the whole chain with time.Now(): the expired-edge exists and its loop ranges over CertificateChain
	// valid-now regime: success exits that avoid the timestamp regime traverse a loop with both gates
	var nowLoop *sliceLoop
	chainD := ""
	for _, sl := range sliceLoops(T) {
		sl := sl
		d := desc(sl.X)
		if !strings.HasSuffix(d, ".SignerInfo.CertificateChain") {
			continue
		}
		labels, ok := fi.mustPassBetween([]int{sl.Body.Index}, map[int]bool{sl.Header.Index: true})
		if !ok {
			continue
		}
		h1, h2 := false, false
		for l := range labels {
			if timeGate(l, "call:time.Now()", d, "notbefore") {
				h1 = true
			}
			if timeGate(l, "call:time.Now()", d, "notafter") {
				h2 = true
			}
		}
		if h1 && h2 {
			nowLoop = &sl
			chainD = d
		}
	}
	rule2 := "without timestamping every certificate of the whole chain satisfies !now.Before(NotBefore) and !now.After(NotAfter) with now = time.Now(); success only after the loop"
	if nowLoop == nil {
		c.Bad("regime/valid-now", rule2, w.FnPos(T), "no loop over the chain with both bounds against time.Now()")
	} else {
		cut := map[edgeKey]bool{}
		cutInto(fi, ts, cut)
		cutInto(fi, nowLoop.Header, cut)
		wit := fi.successWitness(Mode{Kind: mErr}, entryState(), cut)
		wit2 := fi.successWitness(Mode{Kind: mErr}, []state{{nowLoop.Body.Index, 0, -1}}, backEdges(nowLoop.Header))
		c.Evals += 2
		c.Check(wit == nil && wit2 == nil, "regime/valid-now", rule2, w.InstrPos(blockTerm(nowLoop.Header)), "a success exit bypasses the valid-now scan of "+chainD, append(wit, wit2...)...)
	}
}

func c06TimestampPath(c *Ctx, T *ssa.Function) {
	w := c.W
	fi := w.Info(T)
	ts := tsStopBlock(T)
	if ts == nil {
		return
	}
	s := fi.summarizeFrom(Mode{Kind: mErr}, []state{{ts.Index, 0, -1}}, nil)
	c.Evals += s.States
	tok := "call:tspclient.ParseSignedToken("
	c.requireOnExits("timestamp", T, s.Exits, []Need{
		{Name: "countersignature-present", What: "len(UnsignedAttributes.TimestampSignature) != 0", Alt: [][]string{{"NE(len(", ".UnsignedAttributes.TimestampSignature),const:0)"}, {"GT(len(", ".UnsignedAttributes.TimestampSignature),const:0)"}}},
		{Name: "parse-token", What: "tspclient.ParseSignedToken(TimestampSignature) err == nil", Subs: []string{"EQ(" + tok, ".UnsignedAttributes.TimestampSignature)#err,nil)"}},
		{Name: "token-info", What: "signedToken.Info() err == nil", Subs: []string{"EQ(call:(*tspclient.SignedToken).Info(" + tok, "#err,nil)"}},
		{Name: "message-imprint", What: "info.Validate(SignerInfo.Signature) err == nil (the countersignature is over the signature value)", Subs: []string{"EQ(call:(*tspclient.TSTInfo).Validate(call:(*tspclient.SignedToken).Info(", ".SignerInfo.Signature)#err,nil)"}},
		{Name: "token-verify", What: "signedToken.Verify(ctx, opts) err == nil", Subs: []string{"EQ(call:(*tspclient.SignedToken).Verify(" + tok, "#err,nil)"}},
		{Name: "tsa-cert-chain", What: "ValidateTimestampingCertChain(chain returned by Verify) err == nil", Subs: []string{"EQ(call:core/x509.ValidateTimestampingCertChain(call:(*tspclient.SignedToken).Verify(", "#0)#err,nil)"}},
		{Name: "tsa-revocation-error", What: "timestamping validator err == nil", Subs: []string{"EQ(call:invoke:core/revocation.Validator.ValidateContext(", "#err,nil)"}},
		{Name: "tsa-revocation-ok", What: "aggregate over the TSA chain == ResultOK", Subs: []string{"EQ(call:ngo/verifier.", "(call:invoke:core/revocation.Validator.ValidateContext(", "#0,call:(*tspclient.SignedToken).Verify(", "#0,const:1)"}},
	})
	// tsa stores: loaded via a loader call whose wrapper passes the tsa constant (C03 c), non-empty
	var loadCall *ssa.Call
	for _, ci := range allCalls(T) {
		call, ok := ci.(*ssa.Call)
		if !ok {
			continue
		}
		g := staticCallee(call)
		if g != nil && w.IsProductFn(g) && isErrorType(g.Signature.Results().At(g.Signature.Results().Len()-1).Type()) && strings.Contains(g.Signature.Results().At(0).Type().String(), "x509.Certificate") && mentionsConst(w, g, "tsa") {
			loadCall = call
		}
	}
	if loadCall == nil {
		c.Bad("timestamp/tsa-stores", "the TSA roots are loaded by the tsa-typed loader", w.FnPos(T), "no call of a loader that selects tsa stores")
		return
	}
	ld := desc(loadCall)
	c.requireOnExits("timestamp", T, s.Exits, []Need{
		{Name: "tsa-stores-loaded", What: "tsa loader err == nil", Subs: []string{"EQ(" + ld + "#err,nil)"}},
		{Name: "tsa-stores-non-empty", What: "len(tsa certificates) != 0", Alt: [][]string{{"NE(len(" + res(loadCall, 0) + "),const:0)"}, {"GT(len(" + res(loadCall, 0) + "),const:0)"}}},
	})
	// Verify options: Roots <- pool filled only with loader certificates; CurrentTime <- timestamp.Value
	var verify *ssa.Call
	for _, ci := range findCalls(T, "(*tspclient.SignedToken).Verify") {
		verify = ci.(*ssa.Call)
	}
	if verify != nil {
		al, _ := unwrapLoadAlloc(verify.Call.Args[2])
		var roots, cur ssa.Value
		if al != nil {
			for _, r := range *al.Referrers() {
				if fa, ok := r.(*ssa.FieldAddr); ok {
					for _, rr := range *fa.Referrers() {
						if st, ok := rr.(*ssa.Store); ok && st.Addr == fa {
							switch fieldName(al.Type(), fa.Field) {
							case "Roots":
								roots = st.Val
							case "CurrentTime":
								cur = st.Val
							}
						}
					}
				}
			}
		}
		okRoots := false
		detail := "Roots is " + desc(roots)
		if roots != nil && desc(roots) == "call:crypto/x509.NewCertPool()" {
			okRoots = true
			n := 0
			for _, r := range *roots.Referrers() {
				call, ok := r.(*ssa.Call)
				if !ok {
					continue
				}
				switch calleeName(call) {
				case "(*crypto/x509.CertPool).AddCert":
					n++
					if !strings.HasPrefix(desc(call.Call.Args[1]), res(loadCall, 0)+"[") {
						okRoots = false
						detail = "a certificate from " + desc(call.Call.Args[1]) + " is added to the TSA root pool"
					}
				default:
					if call != verify {
						okRoots = false
						detail = "the root pool is also filled by " + calleeName(call)
					}
				}
			}
			if n == 0 {
				okRoots = false
			}
		}
		c.Evals++
		c.Check(okRoots, "timestamp/roots-from-tsa-stores", "provenance: the roots of the countersignature verification are exactly the certificates of the policy's tsa stores", w.InstrPos(verify), detail)
		c.Check(cur != nil && strings.Contains(desc(cur), "(*tspclient.TSTInfo).Validate(") && strings.HasSuffix(desc(cur), ".Value"), "timestamp/verify-at-timestamp", "provenance: the TSA chain is verified at the timestamp's own time", w.InstrPos(verify), "CurrentTime is "+desc(cur))
	} else {
		c.Bad("timestamp/roots-from-tsa-stores", "provenance: the roots of the countersignature verification are exactly the certificates of the policy's tsa stores", w.FnPos(T), "signedToken.Verify not called")
	}
	// window loop over the signing chain
	var win *sliceLoop
	for _, sl := range sliceLoops(T) {
		sl := sl
		d := desc(sl.X)
		if !strings.HasSuffix(d, ".SignerInfo.CertificateChain") {
			continue
		}
		labels, ok := fi.mustPassBetween([]int{sl.Body.Index}, map[int]bool{sl.Header.Index: true})
		if !ok {
			continue
		}
		_, h1 := hasLabel(labels, "T(call:(*tspclient.Timestamp).BoundedAfter(call:(*tspclient.TSTInfo).Validate(", ","+d+"[", "].NotBefore))")
		_, h2 := hasLabel(labels, "T(call:(*tspclient.Timestamp).BoundedBefore(call:(*tspclient.TSTInfo).Validate(", ","+d+"[", "].NotAfter))")
		if h1 && h2 {
			win = &sl
		}
	}
	rule := "the timestamp's range lies inside the validity window of every certificate of the signing chain (BoundedAfter(NotBefore) and BoundedBefore(NotAfter)); success only after the loop"
	if win == nil {
		c.Bad("timestamp/window", rule, w.FnPos(T), "no loop over the signing chain with both bounded comparisons of the validated timestamp")
	} else {
		cut := map[edgeKey]bool{}
		cutInto(fi, win.Header, cut)
		wit := fi.successWitness(Mode{Kind: mErr}, []state{{ts.Index, 0, -1}}, cut)
		wit2 := fi.successWitness(Mode{Kind: mErr}, []state{{win.Body.Index, 0, -1}}, backEdges(win.Header))
		c.Evals += 2
		c.Check(wit == nil && wit2 == nil, "timestamp/window", rule, w.InstrPos(blockTerm(win.Header)), "the window check can be bypassed", append(wit, wit2...)...)
	}
	// revocation of the TSA chain: the validator receives the chain returned by Verify
	for _, ci := range allCalls(T) {
		call, ok := ci.(*ssa.Call)
		if !ok || calleeName(call) != "invoke:core/revocation.Validator.ValidateContext" {
			continue
		}
		al, _ := unwrapLoadAlloc(call.Call.Args[1])
		var chain ssa.Value
		if al != nil {
			for _, r := range *al.Referrers() {
				if fa, ok := r.(*ssa.FieldAddr); ok && fieldName(al.Type(), fa.Field) == "CertChain" {
					for _, rr := range *fa.Referrers() {
						if st, ok := rr.(*ssa.Store); ok && st.Addr == fa {
							chain = st.Val
						}
					}
				}
			}
		}
		c.Check(chain != nil && strings.HasPrefix(desc(chain), "call:(*tspclient.SignedToken).Verify(") && strings.HasSuffix(desc(chain), "#0"), "timestamp/revocation-of-tsa-chain",
			"provenance: the timestamping validator is consulted with the TSA chain returned by the countersignature verification", w.InstrPos(call), "CertChain is "+desc(chain))
	}
}
