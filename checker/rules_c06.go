package main

import (
	"fmt"
	"sort"
	"strings"

	"golang.org/x/tools/go/ssa"
)

func init() {
	register(&Rule{
		ID:    "C06",
		Title: "expiry and certificate validity are judged against the right clock",
		Run:   runC06,
		Explain: "(a) expiry: the expiry result is error-free only through expiry.IsZero() or time.Now().Before(expiry) (equivalently expiry.After(time.Now())), with expiry = SignedAttributes.Expiry; " +
			"(b) signing-authority: every certificate of the whole chain passes !SigningTime.Before(NotBefore) and !SigningTime.After(NotAfter), success only after the loop; " +
			"(c) notary.x509: the regime decision (timestamp verification vs. 'valid now') is decided by abstract interpretation over tsaEnabled x verifyTimestamp option x chain-expired and equals the specified table; " +
			"the tsa-enabled helper answers true only for a listed store with prefix tsa; without timestamping every certificate passes !now.Before(NotBefore) and !now.After(NotAfter) with now = time.Now(); " +
			"(d) the timestamp path's success exits are cut, in data-dependence order, by countersignature present, ParseSignedToken, Info, info.Validate(SignerInfo.Signature), tsa stores loaded by the tsa loader and non-empty, " +
			"signedToken.Verify with Roots built only from those certificates and CurrentTime = the timestamp, ValidateTimestampingCertChain, BoundedAfter(NotBefore) and BoundedBefore(NotAfter) for every certificate of the signing chain, " +
			"and revocation of the TSA chain (validator error and every aggregate other than OK fail-closed); (e) the authentic-timestamp result for notary.x509 is exactly the timestamp function's error. " +
			"Shapes: instants compared with Before/After/Compare are one canonical relation; a whole-chain check is an inline loop, a module helper containing the loop, or slices.IndexFunc/ContainsFunc with a predicate; " +
			"a result's error may be a literal per exit or one variable assigned on the branches — a local that one literal reports, or the Error field of a result object created up front (by a literal or a constructor), judged per reaching definition of the field — and the result may be built by a constructor function that is handed the error; " +
			"the expiry gate may be established by a module helper that is handed the expiry (a predicate or an error function, judged with the caller's arguments) or kept in a boolean local before the branch; an index loop is a whole-chain scan only if its counter runs 0,1,2,...; captured variables of a closure predicate are read as their read-only bindings; provenance is read in the frame of the single caller of an unexported function (struct-of-options fields, pointer to a read-only local copy, narrowed parameters); " +
			"the timestamp function is designated by its role (its error is the notary.x509 result) and judged as a whole: the decision table follows the helpers that take part in the decision (answering a boolean or an enumeration), the must-pass facts of the timestamp path are composed through the helpers the function gates on.",
		NotCov:  "RFC 3161 token verification (tspclient-go), equal-instant boundaries of time.Time comparisons, the revocation aggregator itself (C05).",
		Trusted: []string{"go/types, go/ssa", "tspclient-go", "time.Time Before/After/Compare/IsZero", "slices.IndexFunc/ContainsFunc, strings.Cut/HasPrefix", "notation-core-go x509.ValidateTimestampingCertChain"},
	})
}

func runC06(c *Ctx) {
	w := c.W
	te, _ := w.constString("verifier/trustpolicy", "TypeExpiry")
	tat, _ := w.constString("verifier/trustpolicy", "TypeAuthenticTimestamp")
	// anchors by role: the function that produces the result of type expiry / authenticTimestamp — it fills the result in
	// itself or has a constructor build it (a constructor that is handed the error or the type is not the producer: it has
	// no say on them) — and the function that parses the countersignature
	var EXP, ATS, P *ssa.Function
	for _, fn := range w.FuncsOfPkg("verifier") {
		if ct := c06CtorOf(w, fn); fn.Signature.Results().Len() == 1 && isVRPtr(fn.Signature.Results().At(0).Type()) && (ct == nil || (ct.errParam < 0 && ct.typeParam < 0)) {
			if c06YieldsType(w, fn, fmt.Sprintf("%q", te)) {
				EXP = fn
			}
			if c06YieldsType(w, fn, fmt.Sprintf("%q", tat)) {
				ATS = fn
			}
		}
		if len(findCalls(fn, "tspclient.ParseSignedToken")) > 0 {
			P = fn
		}
	}
	if EXP == nil || ATS == nil || P == nil {
		c.Unk("anchors", "anchors: the functions producing the expiry and authentic-timestamp results and the one parsing the countersignature", "-", fmt.Sprintf("expiry=%v authenticTimestamp=%v timestamp=%v", EXP != nil, ATS != nil, P != nil))
		return
	}
	sc := newC06Scanner(w)
	c06Expiry(c, EXP)
	// the timestamp function: the function whose error is the authentic-timestamp result under notary.x509 (it may parse the
	// countersignature itself or leave that to a helper); if the dispatch does not designate one, the remaining obligations
	// are still judged on the function that parses the countersignature
	T := c06SigningAuthority(c, sc, ATS)
	if T == nil {
		T = P
	}
	c06Regime(c, sc, T)
	c06TimestampPath(c, sc, T)
	c.MinCount("", 22, "clock obligations")
}

func c06Expiry(c *Ctx, EXP *ssa.Function) {
	w := c.W
	fr := c06FrameOf(w, EXP)
	c.SeenFn(EXP.String())
	rule := "must-check (disjunctive): the expiry result is error-free only if SignedAttributes.Expiry is zero or time.Now() is before it"
	// The passing edges are recognised by the fact they carry, in canonical form (c06Canon): "the expiry is the zero time" and
	// "time.Now() is strictly before the expiry" — whether the latter is spelled now.Before(e), e.After(now) or with Compare.
	// The fact may be established by a module helper that is handed the expiry (a predicate, or a function answering an
	// error) or be kept in a boolean local before it is branched on (c06Gate).
	// The error may be returned in a literal per exit, collected in a variable that one literal reports, or assigned to the
	// field of a result created up front (c06Witness).
	g := &c06Gate{w: w, kinds: map[string]bool{}, pass: c06ExpiryPass}
	wit := g.witness(EXP, Mode{Kind: mObj, K: 0}, fr.lift, nil)
	c.Evals += 1 + g.evals
	c.Check(len(g.kinds) == 2 && wit == nil, "expiry/clock", rule, w.FnPos(EXP), "an error-free expiry result is possible for a non-zero expiry that is not after time.Now() (or the comparison uses another clock/operand)", wit...)
}

// c06ExpiryPass: the (lifted, canonical) label says "the signature's expiry is the zero time" or "time.Now() is strictly
// before the signature's expiry".
func c06ExpiryPass(l string) string {
	isExp := func(s string) bool { return strings.HasSuffix(s, ".SignedAttributes.Expiry") }
	op, args := splitTopArgs(l)
	switch {
	case op == "T" && len(args) == 1 && strings.HasPrefix(args[0], "call:(time.Time).IsZero(") && strings.HasSuffix(args[0], ")"):
		if isExp(strings.TrimSuffix(strings.TrimPrefix(args[0], "call:(time.Time).IsZero("), ")")) {
			return "zero"
		}
	case op == "BEFORE" && len(args) == 2:
		if args[0] == "call:time.Now()" && isExp(args[1]) {
			return "before"
		}
	}
	return ""
}

func stripNot(v ssa.Value, truth *bool) ssa.Value {
	for {
		u, ok := v.(*ssa.UnOp)
		if !ok || u.Op.String() != "!" {
			return v
		}
		*truth = !*truth
		v = u.X
	}
}

// c06WindowFacts: the scan proves, for every element, that the instant tD is inside the element's validity window:
// tD is not before NotBefore, and NotAfter is not before tD (canonical forms of !tD.Before(NotBefore), !tD.After(NotAfter)).
func c06WindowFacts(s *c06Scan, tD string) (bool, bool) {
	return s.Facts["NOTBEFORE("+tD+","+s.Chain+"[*].NotBefore)"], s.Facts["NOTBEFORE("+s.Chain+"[*].NotAfter,"+tD+")"]
}

func c06SigningAuthority(c *Ctx, sc *c06Scanner, ATS *ssa.Function) *ssa.Function {
	w := c.W
	fi := w.Info(ATS)
	fr := c06FrameOf(w, ATS)
	c.SeenFn(ATS.String())
	sx, _ := w.depConstString("github.com/notaryproject/notation-core-go/signature", "SigningSchemeX509")
	// exits: one per returned literal, or — when one literal reports an error variable — one per assignment that reaches it
	exits, states := c06ObjExits(w, ATS, 0)
	exits = fr.liftExits(exits)
	c.Evals += states
	// (e) notary.x509: every error-free result under that scheme is the tail of one and the same module function, and that
	// function (T, "the timestamp function") is the one the countersignature is parsed in or under. T is designated by this
	// role, not by where the parsing sits: the obligations on the regime and on the timestamp path are then judged on T as a
	// whole (through its helpers), which is what the result depends on.
	var T *ssa.Function
	okTail, okOther := false, false
	schemeEQ := fmt.Sprintf(".SignedAttributes.SigningScheme,const:%q)", sx)
	for _, ex := range exits {
		if _, h := hasLabel(ex.Checked, "EQ(", schemeEQ); h {
			var tf *ssa.Function
			if ex.Tail != "" {
				for _, g := range w.moduleCallees(ATS) {
					if g != ATS && fnName(g) == ex.Tail && g.Signature.Results().Len() > 0 && isErrorType(g.Signature.Results().At(g.Signature.Results().Len()-1).Type()) && c06ReachesParse(w, g) {
						tf = g
					}
				}
			}
			if tf != nil && (T == nil || T == tf) {
				T = tf
				okTail = true
			} else {
				okTail = false
				c.Bad("dispatch/x509-result-is-timestamp-error", "under notary.x509 the authentic-timestamp result's Error is exactly the timestamp function's error", w.InstrPos(ex.Ret), "another success exit exists under notary.x509")
			}
		} else if _, h := hasLabel(ex.Checked, "NE(", schemeEQ); h {
			okOther = true
		} else {
			c.Bad("dispatch/scheme-split", "every error-free authentic-timestamp result is decided by the signing scheme", w.InstrPos(ex.Ret), "success exit not guarded by the scheme test")
		}
	}
	c.Check(okTail, "dispatch/x509-result-is-timestamp-error", "under notary.x509 the authentic-timestamp result's Error is exactly the timestamp function's error", w.FnPos(ATS), "no such exit")
	// (b) signing authority: a whole-chain scan (c06Scan) of SignerInfo.CertificateChain whose per-element facts are the two
	// bounds against that SignerInfo's SigningTime, and behind which every error-free result of the non-x509 side lies
	rule := "signing-authority: every certificate of the whole chain satisfies !SigningTime.Before(NotBefore) and !SigningTime.After(NotAfter); an error-free result is reachable only after the loop"
	cut := fi.edgesMatching(func(l string, _ *ssa.If, _ bool) bool {
		l = fr.lift(l)
		return strings.HasPrefix(l, "EQ(") && strings.HasSuffix(l, schemeEQ)
	})
	var cand *c06Scan
	var candWit []string
	h1, h2 := false, false
	for _, s := range sc.lifted(ATS, fr) {
		if !strings.HasSuffix(s.Chain, ".SignerInfo.CertificateChain") {
			continue
		}
		tD := strings.TrimSuffix(s.Chain, ".CertificateChain") + ".SignedAttributes.SigningTime"
		g1, g2 := c06WindowFacts(s, tD)
		wit := sc.covers(fi, Mode{Kind: mObj, K: 0}, entryState(), cut, s)
		c.Evals += 2
		if cand == nil || (g1 && g2 && wit == nil) {
			cand, candWit, h1, h2 = s, wit, g1, g2
		}
	}
	if cand == nil || !okOther {
		c.Bad("signing-authority/window", rule, w.FnPos(ATS), "no loop over SignerInfo.CertificateChain on the signing-authority branch")
		return T
	}
	tD := strings.TrimSuffix(cand.Chain, ".CertificateChain") + ".SignedAttributes.SigningTime"
	c.Check(h1 && h2 && candWit == nil, "signing-authority/window", rule, cand.Site,
		fmt.Sprintf("not-before gate=%v not-after gate=%v (time operand must be %s); an error-free result that does not lie behind the complete scan=%v", h1, h2, tD, candWit != nil), candWit...)
	return T
}

// backEdges returns the back edges of a loop header as a cut set.
func backEdges(h *ssa.BasicBlock) map[edgeKey]bool {
	cut := map[edgeKey]bool{}
	lb := loopBlocks(h)
	for _, p := range h.Preds {
		if lb[p.Index] && p != h {
			for j, s := range p.Succs {
				if s == h {
					cut[edgeKey{p.Index, j}] = true
				}
			}
		}
	}
	return cut
}

// tsStopBlock: the first block of the timestamp regime (the countersignature presence test).
func tsStopBlock(T *ssa.Function) *ssa.BasicBlock {
	for _, b := range T.Blocks {
		if iff, ok := blockTerm(b).(*ssa.If); ok {
			// a test of the countersignature itself (its length, or the slice against nil) — not any condition that merely
			// depends on it (the verdict of a helper that was handed the parsed token mentions it too)
			_, args := splitTopArgs(condLabel(iff.Cond, true))
			if len(args) == 2 && (strings.HasSuffix(args[0], ".UnsignedAttributes.TimestampSignature") ||
				(strings.HasPrefix(args[0], "len(") && strings.HasSuffix(args[0], ".UnsignedAttributes.TimestampSignature)"))) {
				return b
			}
		}
	}
	calls := findCalls(T, "tspclient.ParseSignedToken")
	if len(calls) > 0 {
		return calls[0].Block()
	}
	return nil
}

func c06Regime(c *Ctx, sc *c06Scanner, T *ssa.Function) {
	w := c.W
	fi := w.Info(T)
	// the provenance of what T is handed (the policy's stores and option, the envelope's signer info) is read in the frame
	// of the function that owns it (c06FrameOf)
	fr := c06FrameOf(w, T)
	c.SeenFn(T.String())
	tsBlocks := c06TsBlocks(w, T)
	if len(tsBlocks) == 0 {
		c.Unk("regime/anchor", "anchor: the first block of the timestamp regime", w.FnPos(T), "not found")
		return
	}
	// the tsa-enabled helper: the (bool, error) module function that tests the store type, called by T or by a helper of
	// T; of a chain of wrappers the innermost one is the helper (the wrappers are followed by the decision table)
	var G, gIn *ssa.Function
	var gCall *ssa.Call
	isCand := func(g *ssa.Function) bool {
		if g == nil || !w.IsProductFn(g) || g.Blocks == nil || g.Signature.Results().Len() != 2 {
			return false
		}
		return g.Signature.Results().At(0).Type().String() == "bool" && isErrorType(g.Signature.Results().At(1).Type()) && !c06ReachesParse(w, g) && (mentionsConst(w, g, "tsa") || mentionsConst(w, g, "tsa:"))
	}
	for _, f := range w.moduleCallees(T) {
		if c06ReachesParse(w, f) && f != T {
			continue // a helper of the timestamp regime: the decision has been taken when it runs
		}
		for _, ci := range allCalls(f) {
			call, ok := ci.(*ssa.Call)
			if !ok {
				continue
			}
			g := staticCallee(call)
			if !isCand(g) {
				continue
			}
			inner := true
			for _, h := range w.moduleCallees(g)[1:] {
				if isCand(h) {
					inner = false
				}
			}
			if inner {
				G, gCall, gIn = g, call, f
			}
		}
	}
	if G == nil {
		c.Unk("regime/tsa-enabled-helper", "anchor: the helper deciding whether the statement lists a tsa store", w.FnPos(T), "not found")
		return
	}
	// the helper: true only for a listed store with prefix tsa
	{
		gfi := w.Info(G)
		c.SeenFn(G.String())
		ok, n := true, 0
		for _, b := range G.Blocks {
			r, isRet := blockTerm(b).(*ssa.Return)
			if !isRet || len(r.Results) != 2 {
				continue
			}
			if k, isK := r.Results[0].(*ssa.Const); isK && constString(k) == "true" {
				n++
				gl, _ := gfi.mustPassBetween([]int{0}, map[int]bool{b.Index: true})
				// the type of a store value is what precedes its first ":". It equals "tsa" when Cut(value, ":") yields "tsa", and
				// equally when the value starts with "tsa:" ("tsa" contains no ":", so that colon is the first one).
				_, h := hasLabel(gl, "EQ(call:strings.Cut(param:", `,const:":")#0,const:"tsa")`)
				if !h {
					for l := range gl {
						if strings.HasPrefix(l, "T(call:strings.HasPrefix(param:") && strings.HasSuffix(l, `],const:"tsa:"))`) {
							h = true
						}
					}
				}
				if !h {
					ok = false
				}
			} else if !isK {
				ok = false
			}
		}
		// stores argument provenance
		storesOK := false
		gLift := c06LifterIn(w, gIn, T, fr)
		for _, a := range gCall.Call.Args {
			if d := gLift(desc(a)); d == w.paramFedBy(fr.Fn, ".TrustStores") || strings.HasSuffix(d, ".TrustStores") {
				storesOK = true
			}
		}
		// The same provenance decided on SSA values across the call tree (c06Prov), for the shapes in which the list does
		// not travel as a parameter of its own: bundled with other policy parameters into a struct (by value, by pointer,
		// as a method receiver, built by a constructor), captured by a closure, or handed on over more than one level.
		// What is judged is the list the helper really scans (the operand of its prefix test is an element of it) if
		// that can be told, otherwise what the helper is handed: on every call chain it is the very value read from the
		// TrustStores field of a trust policy statement — each hop hands on the same value (a parameter is the argument at
		// EVERY static call site of a function that cannot be called otherwise; a field of a bundle is what was stored into
		// that field where the bundle was built, the bundle being complete before its first read and never written again).
		if !storesOK {
			if lists := c06ScannedLists(G); len(lists) > 0 {
				storesOK = true
				for _, l := range lists {
					if !c06FromPolicyStores(w, G, l) {
						storesOK = false
					}
				}
			} else {
				for _, a := range gCall.Call.Args {
					if c06FromPolicyStores(w, gIn, a) {
						storesOK = true
					}
				}
			}
		}
		c.Evals++
		c.Check(ok && n > 0 && storesOK, "regime/tsa-enabled-helper", "the tsa-enabled helper answers true only for an element of the statement's trust stores whose type prefix equals \"tsa\"", w.FnPos(G), "true can be returned without a listed tsa store")
		c06TsaNeverMissed(c, sc, G)
	}
	oa, _ := w.constString("verifier/trustpolicy", "OptionAfterCertExpiry")
	oal, _ := w.constString("verifier/trustpolicy", "OptionAlways")
	// the decision table: every abstract path of T (followed through the helpers that take part in the decision:
	// c06Explorer) from the entry to a return or to the timestamp regime, for every combination of the abstract inputs
	stops := map[*ssa.BasicBlock]bool{}
	for _, b := range tsBlocks {
		stops[b] = true
	}
	xp := &c06Explorer{w: w, sc: sc, root: T, stops: stops, G: G}
	var bad []string
	nPaths := 0
	table := map[string]string{}
	for _, tsa := range []bool{false, true} {
		for _, opt := range []string{"", oal, oa, "bogus"} {
			for _, expIn := range []bool{false, true} {
				xp.tsaIn, xp.optIn, xp.expIn = tsa, opt, expIn
				for _, o := range xp.Run(fr) {
					nPaths++
					// whether the path saw an expired certificate before the decision (an edge "NotAfter is before time.Now()" of
					// the path, in T or in a helper it followed) or was told so by the scan call it evaluated
					sawExpired := o.Saw
					regime := "now"
					if o.Stop != nil {
						regime = "timestamp"
					}
					want := "now"
					if tsa && (opt != oa || sawExpired) {
						want = "timestamp"
					}
					// in the 'now' regime a path that saw an expired certificate during the valid-now scan is irrelevant to the decision;
					// only consider the expiry observed before the decision point: the decision scan happens only when tsa && opt == afterCertExpiry
					if !(tsa && opt == oa) {
						want = "now"
						if tsa {
							want = "timestamp"
						}
					} else if regime == "now" && sawExpired {
						// the path concluded 'not expired' in the decision scan and later met an expired certificate in the valid-now scan
						// (both use time.Now()): infeasible, and the valid-now scan rejects it. Not a decision error — provided the path
						// does end in a failure (the value it returns is a non-nil error on this very path).
						if o.Ret != nil && len(o.Vals) > 0 && o.Vals[len(o.Vals)-1].Kind == aNonNil {
							continue
						}
					}
					key := fmt.Sprintf("tsa=%v option=%q expired-seen=%v", tsa, opt, sawExpired)
					if prev, ok := table[key]; ok && prev != regime {
						table[key] = "both"
					} else if !ok {
						table[key] = regime
					}
					if regime != want {
						bad = append(bad, key+": regime "+regime+", specified "+want)
					}
				}
			}
		}
	}
	// "exactly when" also means that the specified rows exist. Every row above is a path the code has; the inputs "tsa store
	// listed" and "option" are enumerated, but "a certificate is expired" is learnt on the way (an edge of the decision scan,
	// or the answer of a proven scan call), so the row tsa x afterCertExpiry x expired exists only if some path can learn it
	// before the decision. If none can (the test of the decision scan was weakened by a conjunct, the flag is never set),
	// afterCertExpiry never reaches the timestamp regime: an expired chain is then judged at time.Now() although the clock
	// specified for it is the countersignature's (the deviation is on the strict side, like timestamping without a tsa store,
	// which the table flags as well).
	if len(table) > 0 {
		if key := fmt.Sprintf("tsa=%v option=%q expired-seen=%v", true, oa, true); table[key] == "" {
			bad = append(bad, key+": no path learns that a certificate is expired and goes on to the timestamp regime, specified timestamp")
		}
	}
	c.Evals += xp.Steps
	c.Extra["regime_paths"] = nPaths
	c.Extra["regime_table"] = table
	rule := "finite decision table by abstract interpretation: timestamp verification is performed exactly when a tsa store is listed and the option is not afterCertExpiry, or it is afterCertExpiry and a certificate of the chain is expired at time.Now(); otherwise the chain is judged at time.Now()"
	if xp.Overflow || nPaths == 0 {
		c.Unk("regime/decision-table", rule, w.FnPos(T), "abstract interpretation did not terminate within bounds")
	} else if len(bad) > 0 {
		bad = uniq(bad)
		if len(bad) > 6 {
			bad = bad[:6]
		}
		c.Bad("regime/decision-table", rule, w.FnPos(T), strings.Join(bad, "\n"))
	} else {
		c.OK("regime/decision-table", rule, w.InstrPos(blockTerm(tsBlocks[0])))
	}
	// the decision scan looks at every certificate (c06Explorer.blindIterations)
	{
		var sites []string
		for s := range xp.Blind {
			sites = append(sites, s)
		}
		sort.Strings(sites)
		c.Extra["regime_decision_loops"] = xp.Loops
		c.Check(len(sites) == 0, "regime/expired-scan-complete", "the decision \"no certificate of the chain is expired\" (afterCertExpiry) is taken only after every certificate's NotAfter was compared with time.Now(): no iteration of a deciding loop bypasses the comparison", w.FnPos(T), "an iteration of the loop can go round without the comparison: an expired certificate is not noticed and the chain is judged at time.Now() instead of the countersignature's time", sites...)
	}
	// valid-now regime: a whole-chain scan (inline loop, helper, or library search: c06Scan) of SignerInfo.CertificateChain
	// whose per-element facts are both bounds against time.Now(), behind which every success exit that avoids the timestamp
	// regime lies
	rule2 := "without timestamping every certificate of the whole chain satisfies !now.Before(NotBefore) and !now.After(NotAfter) with now = time.Now(); success only after the loop"
	base := map[edgeKey]bool{}
	for _, b := range tsBlocks {
		cutInto(fi, b, base)
	}
	var nowScan *c06Scan
	var nowWit []string
	for _, s := range sc.lifted(T, fr) {
		if !strings.HasSuffix(s.Chain, ".SignerInfo.CertificateChain") {
			continue
		}
		if h1, h2 := c06WindowFacts(s, "call:time.Now()"); !h1 || !h2 {
			continue
		}
		wit := sc.covers(fi, Mode{Kind: mErr}, entryState(), base, s)
		c.Evals += 2
		if nowScan == nil || wit == nil {
			nowScan, nowWit = s, wit
		}
	}
	if nowScan == nil {
		c.Bad("regime/valid-now", rule2, w.FnPos(T), "no loop over the chain with both bounds against time.Now()")
	} else {
		c.Check(nowWit == nil, "regime/valid-now", rule2, nowScan.Site, "a success exit bypasses the valid-now scan of "+nowScan.Chain, nowWit...)
	}
}

func c06TimestampPath(c *Ctx, sc *c06Scanner, T *ssa.Function) {
	w := c.W
	fi := w.Info(T)
	fr := c06FrameOf(w, T)
	tsBlocks := c06TsBlocks(w, T)
	if len(tsBlocks) == 0 {
		return
	}
	// the exits of T behind the entry of the timestamp regime, with the facts every path to them passes — in T or, composed
	// by the engine with the arguments in place of the parameters, in the helpers whose verdict T gates on
	var starts []state
	for _, b := range tsBlocks {
		starts = append(starts, state{b.Index, 0, -1})
	}
	s := fi.summarizeFrom(Mode{Kind: mErr}, starts, nil)
	c.Evals += s.States
	s.Exits = fr.liftExits(s.Exits)
	tok := "call:tspclient.ParseSignedToken("
	c.requireOnExits("timestamp", T, s.Exits, []Need{
		{Name: "countersignature-present", What: "len(UnsignedAttributes.TimestampSignature) != 0", Alt: [][]string{{"NE(len(", ".UnsignedAttributes.TimestampSignature),const:0)"}, {"GT(len(", ".UnsignedAttributes.TimestampSignature),const:0)"}}},
		{Name: "parse-token", What: "tspclient.ParseSignedToken(TimestampSignature) err == nil", Subs: []string{"EQ(" + tok, ".UnsignedAttributes.TimestampSignature)#err,nil)"}},
		{Name: "token-info", What: "signedToken.Info() err == nil", Subs: []string{"EQ(call:(*tspclient.SignedToken).Info(" + tok, "#err,nil)"}},
		{Name: "message-imprint", What: "info.Validate(SignerInfo.Signature) err == nil (the countersignature is over the signature value)", Subs: []string{"EQ(call:(*tspclient.TSTInfo).Validate(call:(*tspclient.SignedToken).Info(", ".SignerInfo.Signature)#err,nil)"}},
		{Name: "token-verify", What: "signedToken.Verify(ctx, opts) err == nil", Subs: []string{"EQ(call:(*tspclient.SignedToken).Verify(" + tok, "#err,nil)"}},
		{Name: "tsa-cert-chain", What: "ValidateTimestampingCertChain(chain returned by Verify) err == nil", Subs: []string{"EQ(call:core/x509.ValidateTimestampingCertChain(call:(*tspclient.SignedToken).Verify(", "#0)#err,nil)"}},
		{Name: "tsa-revocation-error", What: "timestamping validator err == nil", Subs: []string{"EQ(call:invoke:core/revocation.Validator.ValidateContext(", "#err,nil)"}},
		{Name: "tsa-revocation-ok", What: "aggregate over the TSA chain == ResultOK", Subs: []string{"EQ(call:ngo/verifier.", "(call:invoke:core/revocation.Validator.ValidateContext(", "#0,call:(*tspclient.SignedToken).Verify(", "#0,const:1)"}},
	})
	// the function of T's call tree in which the countersignature is verified (T itself or a helper): the provenance of the
	// roots and of the verification time is read there, its labels are read in T's frame (c06LifterIn)
	var verify *ssa.Call
	for _, call := range c06TreeCalls(w, T, "(*tspclient.SignedToken).Verify") {
		verify = call
	}
	VF := T
	if verify != nil {
		VF = verify.Parent()
	}
	vLift := c06LifterIn(w, VF, T, fr)
	// tsa stores: loaded via a loader call whose wrapper passes the tsa constant (C03 c), non-empty
	var loadCall *ssa.Call
	for _, ci := range allCalls(VF) {
		call, ok := ci.(*ssa.Call)
		if !ok {
			continue
		}
		g := staticCallee(call)
		if g != nil && w.IsProductFn(g) && g.Signature.Results().Len() > 0 && isErrorType(g.Signature.Results().At(g.Signature.Results().Len()-1).Type()) && strings.Contains(g.Signature.Results().At(0).Type().String(), "x509.Certificate") && mentionsConst(w, g, "tsa") {
			loadCall = call
		}
	}
	if loadCall == nil {
		c.Bad("timestamp/tsa-stores", "the TSA roots are loaded by the tsa-typed loader", w.FnPos(T), "no call of a loader that selects tsa stores")
		return
	}
	ld := vLift(desc(loadCall))
	ld0 := vLift(res(loadCall, 0))
	c.requireOnExits("timestamp", T, s.Exits, []Need{
		{Name: "tsa-stores-loaded", What: "tsa loader err == nil", Subs: []string{"EQ(" + ld + "#err,nil)"}},
		{Name: "tsa-stores-non-empty", What: "len(tsa certificates) != 0", Alt: [][]string{{"NE(len(" + ld0 + "),const:0)"}, {"GT(len(" + ld0 + "),const:0)"}}},
	})
	// Verify options: Roots <- pool filled only with loader certificates; CurrentTime <- timestamp.Value
	if verify != nil {
		al, _ := unwrapLoadAlloc(verify.Call.Args[2])
		var roots, cur ssa.Value
		if al != nil {
			for _, r := range *al.Referrers() {
				if fa, ok := r.(*ssa.FieldAddr); ok {
					for _, rr := range *fa.Referrers() {
						if st, ok := rr.(*ssa.Store); ok && st.Addr == fa {
							switch fieldName(al.Type(), fa.Field) {
							case "Roots":
								roots = st.Val
							case "CurrentTime":
								cur = st.Val
							}
						}
					}
				}
			}
		}
		okRoots := false
		detail := "Roots is " + desc(roots)
		if roots != nil && desc(roots) == "call:crypto/x509.NewCertPool()" {
			okRoots = true
			n := 0
			for _, r := range *roots.Referrers() {
				call, ok := r.(*ssa.Call)
				if !ok {
					continue
				}
				switch calleeName(call) {
				case "(*crypto/x509.CertPool).AddCert":
					n++
					if !strings.HasPrefix(desc(call.Call.Args[1]), res(loadCall, 0)+"[") {
						okRoots = false
						detail = "a certificate from " + desc(call.Call.Args[1]) + " is added to the TSA root pool"
					}
				default:
					if call != verify {
						okRoots = false
						detail = "the root pool is also filled by " + calleeName(call)
					}
				}
			}
			if n == 0 {
				okRoots = false
			}
		}
		c.Evals++
		c.Check(okRoots, "timestamp/roots-from-tsa-stores", "provenance: the roots of the countersignature verification are exactly the certificates of the policy's tsa stores", w.InstrPos(verify), detail)
		c.Check(cur != nil && strings.Contains(desc(cur), "(*tspclient.TSTInfo).Validate(") && strings.HasSuffix(desc(cur), ".Value"), "timestamp/verify-at-timestamp", "provenance: the TSA chain is verified at the timestamp's own time", w.InstrPos(verify), "CurrentTime is "+desc(cur))
	} else {
		c.Bad("timestamp/roots-from-tsa-stores", "provenance: the roots of the countersignature verification are exactly the certificates of the policy's tsa stores", w.FnPos(T), "signedToken.Verify not called")
	}
	// window: a whole-chain scan (c06Scan) of the signing chain whose per-element facts are both bounded comparisons of the
	// validated timestamp, behind which every success exit of the timestamp regime lies
	var win *c06Scan
	var winWit []string
	for _, sn := range sc.lifted(T, fr) {
		if !strings.HasSuffix(sn.Chain, ".SignerInfo.CertificateChain") {
			continue
		}
		h1 := c06HasFact(sn.Facts, "T(call:(*tspclient.Timestamp).BoundedAfter(call:(*tspclient.TSTInfo).Validate(", ","+sn.Chain+"[*].NotBefore))")
		h2 := c06HasFact(sn.Facts, "T(call:(*tspclient.Timestamp).BoundedBefore(call:(*tspclient.TSTInfo).Validate(", ","+sn.Chain+"[*].NotAfter))")
		if !h1 || !h2 {
			continue
		}
		wit := sc.covers(fi, Mode{Kind: mErr}, starts, nil, sn)
		c.Evals += 2
		if win == nil || wit == nil {
			win, winWit = sn, wit
		}
	}
	rule := "the timestamp's range lies inside the validity window of every certificate of the signing chain (BoundedAfter(NotBefore) and BoundedBefore(NotAfter)); success only after the loop"
	if win == nil {
		c.Bad("timestamp/window", rule, w.FnPos(T), "no loop over the signing chain with both bounded comparisons of the validated timestamp")
	} else {
		c.Check(winWit == nil, "timestamp/window", rule, win.Site, "the window check can be bypassed", winWit...)
	}
	// revocation of the TSA chain: the validator receives the chain returned by Verify (the call may sit in a helper that is
	// handed the chain: its parameter is the caller's argument)
	for _, call := range c06TreeCalls(w, T, "invoke:core/revocation.Validator.ValidateContext") {
		al, _ := unwrapLoadAlloc(call.Call.Args[1])
		var chain ssa.Value
		if al != nil {
			for _, r := range *al.Referrers() {
				if fa, ok := r.(*ssa.FieldAddr); ok && fieldName(al.Type(), fa.Field) == "CertChain" {
					for _, rr := range *fa.Referrers() {
						if st, ok := rr.(*ssa.Store); ok && st.Addr == fa {
							chain = st.Val
						}
					}
				}
			}
		}
		d := "?"
		if chain != nil {
			d = c06LifterIn(w, call.Parent(), T, fr)(desc(chain))
		}
		c.Check(chain != nil && strings.HasPrefix(d, "call:(*tspclient.SignedToken).Verify(") && strings.HasSuffix(d, "#0"), "timestamp/revocation-of-tsa-chain",
			"provenance: the timestamping validator is consulted with the TSA chain returned by the countersignature verification", w.InstrPos(call), "CertChain is "+d)
	}
}
