package main

import (
	"fmt"
	"go/types"
	"sort"
	"strings"

	"golang.org/x/tools/go/ssa"
)

func init() {
	register(&Rule{
		ID:    "C07",
		Title: "what the library signs, it verifies, and it reports what was signed",
		Run:   runC07,
		Explain: "(a) reader/writer agreement: the signers marshal envelope.Payload; every json.Unmarshal of a verified envelope's Payload.Content decodes into *envelope.Payload or a generic map; " +
			"(b) notation.VerifyBlob returns the TargetArtifact of the payload decoded from the outcome the verifier returned, together with that outcome; VerificationOutcome.UserMetadata returns that payload's annotations; " +
			"(c) tables: the signer's and the verifier's crypto.Hash -> digest.Algorithm relation are equal and cover every hash core-go derives from the six key specs (the relation is read off a package-level map literal that is never written, or off a function of the hash — switch, if-chain, wrapper over the map, with a bool / error / no found-answer — evaluated abstractly once per hash value; found by type / signature in whatever package declares it); proto.HashAlgorithmFromKeySpec agrees with core-go's KeySpec.SignatureAlgorithm().Hash() on the six key specs " +
			"(both evaluated by abstract interpretation); EncodeKeySpec and DecodeKeySpec are mutually inverse on the six constants; the payload content type written by the signer is the constant the verifier accepts; " +
			"(d) payload construction: SanitizeTargetArtifact copies exactly media type, digest, size and annotations of its argument; both signers sign Payload{SanitizeTargetArtifact(desc parameter)} " +
			"(marshalled in the signing function or in a module helper it hands that parameter to; the bytes are followed through the helper's result into the request); " +
			"expiry = SigningTime.Add(ExpiryDuration) only when the duration is non-zero (patched into the request, computed ahead of it from the very value stored as SigningTime, or computed / stored by a module helper that is handed these); the plugin request carries ExpiryDuration/time.Second; " +
			"the blob digest algorithm at signing is table[keySpec.SignatureAlgorithm().Hash()] with a fail-closed miss (anchored at the signer's invocation of the generator; the argument is decided per origin, so the table may be applied next to the invocation or in a module helper); " +
			"(e) the blob descriptor generator (function literal or bound method of an object filled with the inputs; made by a builder both wrappers call, by the wrappers themselves or through a constructor) is {given media type, digest and byte count of the given reader under the requested algorithm}, " +
			"runs the same code for SignBlob and VerifyBlob and holds the same inputs (reader, ContentMediaType and UserMetadata exactly as given); " +
			"every function that holds a generator evaluates it at most once on every path (it drains the caller's reader: counted callee-ward over the call tree, through closures, bound methods, objects holding it and interface hand-overs); " +
			"(f) in the signing call tree (from notation.Sign / SignOCI / SignBlob and the implementations of Signer.Sign / BlobSigner.SignBlob, through module callees and function values) a value handed back by a fallible step is consumed only behind the nil-error edge of that step, or where no success-capable exit can follow (cut set: the nil-error edges removed, no path call -> consumption -> success exit). " +
			"Values are decided per origin: through phis (single exit with a defaulted local), through module helpers (callee parameters = call arguments) and, for helpers that are handed less than the signer, at their closed list of call sites.",
		NotCov:  "the sign->verify round trip itself for all keys and formats (cryptography and envelope encoders of notation-core-go).",
		Trusted: []string{"go/types, go/ssa", "encoding/json", "notation-core-go signature (Sign, Verify, KeySpec)"},
	})
}

func runC07(c *Ctx) {
	w := c.W
	c07ReaderWriter(c)
	c07Returns(c)
	c07Tables(c)
	c07Payload(c)
	c07BlobDescriptor(c)
	c07GeneratorOnce(c)
	c07StepsSucceeded(c)
	_ = w
	c.MinCount("", 20, "agreement obligations")
}

// ---- (a) ---------------------------------------------------------------------

func c07ReaderWriter(c *Ctx) {
	w := c.W
	nRead, nWrite := 0, 0
	for _, fn := range w.Funcs {
		for _, ci := range allCalls(fn) {
			call, ok := ci.(*ssa.Call)
			if !ok {
				continue
			}
			switch calleeName(call) {
			case "encoding/json.Unmarshal":
				src := desc(call.Call.Args[0])
				_, srcIsParam := call.Call.Args[0].(*ssa.Parameter)
				if !strings.HasSuffix(src, ".Payload.Content") && !(srcIsParam && fn.Pkg != nil && fn.Pkg.Pkg.Path() == modPath+"/signer") {
					continue
				}
				if srcIsParam {
					// helper receiving the payload content: the caller passes Payload.Content
					okCaller := false
					for _, f2 := range w.Funcs {
						for _, c2 := range allCalls(f2) {
							if cc, ok := c2.(*ssa.Call); ok && staticCallee(cc) == fn {
								for _, a := range cc.Call.Args {
									if strings.HasSuffix(desc(a), ".Payload.Content") {
										okCaller = true
									}
								}
							}
						}
					}
					if !okCaller {
						continue
					}
				}
				nRead++
				c.Evals++
				tgt := unwrap(call.Call.Args[1])
				tt := abbrev(types.TypeString(tgt.Type(), nil))
				key := fmt.Sprintf("reader/%s#%d", fnName(fn), nRead)
				ok := tt == "*ngo/internal/envelope.Payload" || tt == "*map[string]interface{}" || tt == "*map[string]any"
				c.Check(ok, key, "reader/writer agreement: the verified payload content is decoded into *envelope.Payload (the type the signers marshal) or a generic map", w.InstrPos(call),
					"the payload content is decoded into "+tt+" (json decodes by field name: a different struct silently yields zero values)")
				fresh, why := freshDecodeTarget(w.Info(fn), call)
				c.Check(fresh, key+"/fresh-target", "the verified payload content is decoded into a fresh variable (json.Unmarshal keeps what the input omits: decoding over the request's payload would fill the gaps of the signed one)", w.InstrPos(call), why)
			}
		}
	}
	// writers: the json.Marshal(envelope.Payload) sites of the signers. A site is counted once per signing function its
	// bytes are handed to (c07Writers follows result 0 of the Marshal call through the returns of module helpers into the
	// request that is signed): two signers sharing one marshalling helper are still two signers marshalling
	// envelope.Payload, which is what the vacuity guard below stands for.
	for _, wr := range c07Writers(w, c07Sanitiser(w)) {
		fns := c07SinkFns([]*c07Writer{wr})
		if len(fns) == 0 {
			fns = []*ssa.Function{wr.In}
		}
		for _, g := range fns {
			nWrite++
			c.OK(fmt.Sprintf("writer/%s", fnName(g)), "the signer marshals envelope.Payload", w.InstrPos(wr.Marshal))
		}
	}
	if nRead < 3 {
		c.Unk("reader#count", "vacuity guard: the two verifier methods and the plugin signer decode a verified payload content", "-", fmt.Sprintf("%d found", nRead))
	}
	if nWrite < 2 {
		c.Unk("writer#count", "vacuity guard: both signers marshal envelope.Payload", "-", fmt.Sprintf("%d found", nWrite))
	}
}

// ---- (b) ---------------------------------------------------------------------

func c07Returns(c *Ctx) {
	w := c.W
	// Both clauses are about the value returned at each success-capable exit. That value is decided per origin
	// (c07Origins): the exit may return it directly, through a local that is defaulted and overwritten (a phi — at the
	// return block the engine keeps the exits apart by predecessor, deeper phis carry the facts of their edges), or
	// through a module helper that computes it. Each origin is judged under the exit's must-pass facts plus the facts
	// of the way it was produced; the clause itself (which payload, decoded from what, empty only when nothing was
	// signed) is unchanged.
	fn := w.Func("", "VerifyBlob")
	if fn == nil {
		c.Unk("returns/VerifyBlob", "anchor: notation.VerifyBlob", "-", "not found")
	} else {
		c.SeenFn(fn.String())
		s := w.Summarize(fn, Mode{Kind: mErr})
		c.Evals += s.States
		rule := "notation.VerifyBlob returns, with the outcome the verifier produced, the TargetArtifact of the payload decoded from that outcome's verified content (or the empty descriptor when there is no verified content)"
		ok := len(s.Exits) > 0
		detail := ""
		nPayload := 0
		root := &c07Frame{Fn: fn}
		for _, ex := range s.Exits {
			r := ex.Ret
			if len(r.Results) != 3 {
				ok = false
				continue
			}
			vo := desc(c07ExitValue(ex, 1))
			if !strings.HasPrefix(vo, "call:invoke:ngo.BlobVerifier.VerifyBlob(") || !strings.HasSuffix(vo, "#0") {
				ok, detail = false, "the outcome returned is "+vo
			}
			origins, complete := c07Origins(w, root, c07ExitValue(ex, 0), ex.Checked)
			if !complete {
				ok, detail = false, "the descriptor returned at "+w.InstrPos(r)+" is too deep to follow"
			}
			for _, o := range origins {
				d0 := o.F.lift(desc(o.V))
				if c07ZeroValue(o.V) {
					// allowed only when the outcome has no envelope content
					if _, h := hasLabel(o.Guards, "EQ("+vo+".EnvelopeContent,nil)"); !h {
						ok, detail = false, "an empty descriptor is returned although the outcome carries verified content (exit "+w.InstrPos(r)+")"
					}
					continue
				}
				// <alloc Payload>.TargetArtifact, decoded from vo.EnvelopeContent.Payload.Content
				if !strings.HasSuffix(d0, ".TargetArtifact") || !strings.HasPrefix(d0, "alloc:ngo/internal/envelope.Payload<") {
					ok, detail = false, "the descriptor returned is "+d0
					continue
				}
				al := strings.TrimSuffix(d0, ".TargetArtifact")
				if _, h := hasLabel(o.Guards, "EQ(call:encoding/json.Unmarshal(call:invoke:ngo.BlobVerifier.VerifyBlob(", "#0.EnvelopeContent.Payload.Content,"+al+")#err,nil)"); !h {
					ok, detail = false, "the returned descriptor is not decoded from the verified outcome's payload"
				}
				nPayload++
			}
		}
		c.Check(ok && nPayload > 0, "returns/VerifyBlob", rule, w.FnPos(fn), detail)
	}
	um := w.Method("", "VerificationOutcome", "UserMetadata")
	if um == nil {
		c.Unk("returns/UserMetadata", "anchor: (*VerificationOutcome).UserMetadata", "-", "not found")
		return
	}
	c.SeenFn(um.String())
	s := w.Summarize(um, Mode{Kind: mErr})
	c.Evals += s.States
	recv := "param:" + um.Params[0].Name()
	ok := len(s.Exits) > 0
	detail := ""
	nAnn := 0
	root := &c07Frame{Fn: um}
	for _, ex := range s.Exits {
		origins, complete := c07Origins(w, root, c07ExitValue(ex, 0), ex.Checked)
		if !complete {
			ok, detail = false, "the map returned at "+w.InstrPos(ex.Ret)+" is too deep to follow"
		}
		for _, o := range origins {
			d0 := o.F.lift(desc(o.V))
			if mm, isMk := o.V.(*ssa.MakeMap); isMk {
				// a map made on the spot: it must stay empty, and only when the signed annotations are nil
				if !c07MapNeverFilled(mm) {
					ok, detail = false, "a map made and filled in "+fnName(o.F.Fn)+" is returned"
				}
				l, h := hasLabel(o.Guards, "EQ(alloc:ngo/internal/envelope.Payload<", ".TargetArtifact.Annotations,nil)")
				if !h {
					ok, detail = false, "an empty map is returned although annotations exist"
				} else if i := strings.Index(l, ".TargetArtifact.Annotations,nil)"); !strings.HasPrefix(l, "EQ(alloc:") || i < 0 {
					ok, detail = false, "an empty map is returned under "+l
				} else if _, h := hasLabel(o.Guards, "EQ(call:encoding/json.Unmarshal("+recv+".EnvelopeContent.Payload.Content,"+l[len("EQ("):i]+")#err,nil)"); !h {
					// the annotations found nil must be those of the payload decoded from the outcome, not of some other payload
					ok, detail = false, "an empty map is returned because "+l[len("EQ("):i]+" has no annotations, which is not the payload decoded from the outcome's content"
				}
				continue
			}
			if !strings.HasPrefix(d0, "alloc:ngo/internal/envelope.Payload<") || !strings.HasSuffix(d0, ".TargetArtifact.Annotations") {
				ok, detail = false, "UserMetadata returns "+d0
				continue
			}
			al := strings.TrimSuffix(d0, ".TargetArtifact.Annotations")
			if _, h := hasLabel(o.Guards, "EQ(call:encoding/json.Unmarshal("+recv+".EnvelopeContent.Payload.Content,"+al+")#err,nil)"); !h {
				ok, detail = false, "the annotations are not decoded from the outcome's payload content"
			}
			nAnn++
		}
	}
	c.Check(ok && nAnn > 0, "returns/UserMetadata", "UserMetadata returns exactly the annotations of the payload decoded from the outcome's verified content", w.FnPos(um), detail)
}

// c07ZeroValue: the zero value of a struct type — the zero constant, or a composite literal no field of which is set.
func c07ZeroValue(v ssa.Value) bool {
	if k, ok := v.(*ssa.Const); ok {
		return k.Value == nil && !k.IsNil()
	}
	al, ok := unwrapLoadAlloc(v)
	if !ok || al.Comment != "complit" || al.Referrers() == nil {
		return false
	}
	for _, r := range *al.Referrers() {
		switch x := r.(type) {
		case *ssa.UnOp, *ssa.DebugRef:
		case *ssa.FieldAddr:
			if addrWritten(x, 0) {
				return false
			}
		default:
			return false
		}
	}
	return true
}

// c07MapNeverFilled: nothing is ever put into the map made here (it is only handed on: returned, merged into a phi).
func c07MapNeverFilled(mm *ssa.MakeMap) bool {
	if mm.Referrers() == nil {
		return true
	}
	for _, r := range *mm.Referrers() {
		switch r.(type) {
		case *ssa.Return, *ssa.Phi, *ssa.DebugRef:
		default:
			return false
		}
	}
	return true
}

// ---- (c) ---------------------------------------------------------------------

type keySpecIn struct {
	name string
	typ  int64
	size int64
}

// evalKeySpecFn abstractly evaluates a loop-free function of a KeySpec value
// (fields Type, Size supplied as inputs) and returns the set of abstract
// values of result 0 over all paths returning a nil error (or all paths when
// the function has a single result).
func evalKeySpecFn(fn *ssa.Function, typ, size int64, trackStrings bool) ([]AVal, *Interp) {
	ip := &Interp{Fn: fn, TrackStrings: trackStrings, IntTypes: map[string]bool{"*": true}}
	ip.Hook = func(in ssa.Instruction, env map[ssa.Value]AVal) (AVal, bool) {
		var v ssa.Value
		switch x := in.(type) {
		case *ssa.Field:
			v = x
		case *ssa.UnOp:
			v = x
		default:
			return AVal{}, false
		}
		d := desc(v)
		if len(fn.Params) == 0 {
			return AVal{}, false
		}
		p := "param:" + fn.Params[0].Name()
		switch d {
		case p + ".Type":
			return AVal{Kind: aInt, Int: typ}, true
		case p + ".Size":
			return AVal{Kind: aInt, Int: size}, true
		}
		return AVal{}, false
	}
	var out []AVal
	for _, o := range ip.Run(fn.Blocks[0], nil, map[ssa.Value]AVal{}, nil, nil) {
		if o.Ret == nil {
			continue
		}
		if len(o.Ret.Results) == 2 {
			e := ip.val(o.Ret.Results[1], o.Env)
			if e.Kind != aNil {
				continue
			}
		}
		out = append(out, ip.val(o.Ret.Results[0], o.Env))
	}
	return out, ip
}

func evalScalarFn(fn *ssa.Function, in AVal) []AVal {
	ip := &Interp{Fn: fn, TrackStrings: true, IntTypes: map[string]bool{"*": true}}
	env := map[ssa.Value]AVal{}
	if len(fn.Params) > 0 {
		env[fn.Params[0]] = in
	}
	var out []AVal
	for _, o := range ip.Run(fn.Blocks[0], nil, env, nil, nil) {
		if o.Ret == nil {
			continue
		}
		if len(o.Ret.Results) == 2 {
			if e := ip.val(o.Ret.Results[1], o.Env); e.Kind != aNil {
				continue
			}
		}
		out = append(out, ip.val(o.Ret.Results[0], o.Env))
	}
	return out
}

func c07Tables(c *Ctx) {
	w := c.W
	// the signer's relation == the verifier's relation. The relation is read off whatever carries it (c07HashTables): a map
	// literal, or a function of the hash evaluated abstractly per hash value; found by type / signature, not by name.
	ms, site, whyS := c07PkgRelation(w, "signer")
	mv, _, whyV := c07PkgRelation(w, "verifier")
	for _, t := range c07HashTables(w).Tables {
		c.Evals += t.Steps
		if t.Fn != nil {
			c.SeenFn(t.Fn.String())
		}
	}
	eq := c07SameRelation(ms, mv)
	tabDetail := fmt.Sprintf("signer=%v verifier=%v", ms, mv)
	for _, y := range []string{whyS, whyV} {
		if y != "" {
			tabDetail += "; " + y
		}
	}
	c.Check(eq && len(ms) >= 3, "tables/hash-to-digest-algorithm", "agreement: the signer's and the verifier's crypto.Hash -> digest.Algorithm tables are the same map", site, tabDetail)
	want := map[string]string{}
	if p := w.ByPath["crypto"]; p != nil {
		for _, n := range []string{"SHA256", "SHA384", "SHA512"} {
			if k, ok := p.Types.Scope().Lookup(n).(*types.Const); ok {
				want[k.Val().ExactString()] = strings.ToLower(n)
			}
		}
	}
	okWant := len(want) == 3
	for k, v := range want {
		if ms[k] != v || mv[k] != v {
			okWant = false
		}
	}
	c.Check(okWant, "tables/hash-to-digest-algorithm-total", "the tables map SHA256/384/512 to the digest algorithm of the same name (total over the hashes of the six key specs)", site, tabDetail)

	// key specs
	specs := []keySpecIn{{"RSA-2048", 1, 2048}, {"RSA-3072", 1, 3072}, {"RSA-4096", 1, 4096}, {"EC-256", 2, 256}, {"EC-384", 2, 384}, {"EC-521", 2, 521}}
	// KeyType constants from core-go
	if p := w.ByPath["github.com/notaryproject/notation-core-go/internal/algorithm"]; p != nil {
		for i := range specs {
			n := "KeyTypeRSA"
			if strings.HasPrefix(specs[i].name, "EC") {
				n = "KeyTypeEC"
			}
			if k, ok := p.Types.Scope().Lookup(n).(*types.Const); ok {
				fmt.Sscan(k.Val().ExactString(), &specs[i].typ)
			}
		}
	}
	hfk := w.Func("plugin/proto", "HashAlgorithmFromKeySpec")
	enc := w.Func("plugin/proto", "EncodeKeySpec")
	dec := w.Func("plugin/proto", "DecodeKeySpec")
	var sigAlg, hashFn *ssa.Function
	if sp := w.SSA["github.com/notaryproject/notation-core-go/internal/algorithm"]; sp != nil {
		for _, recvName := range []string{"KeySpec", "Algorithm"} {
			t := sp.Type(recvName)
			if t == nil {
				continue
			}
			ms := w.Prog.MethodSets.MethodSet(t.Type())
			for i := 0; i < ms.Len(); i++ {
				f := w.Prog.MethodValue(ms.At(i))
				if f == nil {
					continue
				}
				if recvName == "KeySpec" && f.Name() == "SignatureAlgorithm" {
					sigAlg = f
				}
				if recvName == "Algorithm" && f.Name() == "Hash" {
					hashFn = f
				}
			}
		}
	}
	if hfk == nil || enc == nil || dec == nil || sigAlg == nil || hashFn == nil {
		c.Unk("tables/keyspec", "anchors: proto.HashAlgorithmFromKeySpec, EncodeKeySpec, DecodeKeySpec and core-go's KeySpec.SignatureAlgorithm / Algorithm.Hash", "-",
			fmt.Sprintf("%v %v %v %v %v", hfk != nil, enc != nil, dec != nil, sigAlg != nil, hashFn != nil))
		return
	}
	c.SeenFn(hfk.String())
	c.SeenFn(enc.String())
	c.SeenFn(dec.String())
	// names of crypto.Hash values
	hashName := map[int64]string{5: "SHA-256", 6: "SHA-384", 7: "SHA-512"}
	if p := w.ByPath["crypto"]; p != nil {
		for n, s := range map[string]string{"SHA256": "SHA-256", "SHA384": "SHA-384", "SHA512": "SHA-512"} {
			if k, ok := p.Types.Scope().Lookup(n).(*types.Const); ok {
				var v int64
				fmt.Sscan(k.Val().ExactString(), &v)
				hashName[v] = s
			}
		}
	}
	for _, sp := range specs {
		// proto
		pv, ip1 := evalKeySpecFn(hfk, sp.typ, sp.size, true)
		c.Evals += ip1.Steps
		// core: SignatureAlgorithm then Hash
		av, ip2 := evalKeySpecFn(sigAlg, sp.typ, sp.size, false)
		c.Evals += ip2.Steps
		var coreHashes []string
		for _, a := range av {
			if a.Kind != aInt {
				coreHashes = append(coreHashes, "⊤")
				continue
			}
			for _, h := range evalScalarFn(hashFn, a) {
				if h.Kind == aInt {
					coreHashes = append(coreHashes, hashName[h.Int])
				} else {
					coreHashes = append(coreHashes, "⊤")
				}
			}
		}
		var protoHashes []string
		for _, a := range pv {
			if a.Kind == aStr {
				protoHashes = append(protoHashes, a.Str)
			} else {
				protoHashes = append(protoHashes, "⊤")
			}
		}
		sort.Strings(coreHashes)
		sort.Strings(protoHashes)
		ok := len(coreHashes) == 1 && len(protoHashes) == 1 && coreHashes[0] == protoHashes[0] && coreHashes[0] != "" && coreHashes[0] != "⊤"
		c.Check(ok, "tables/hash-of-keyspec/"+sp.name, "agreement (abstract interpretation of both functions): the hash announced to the plugin for the key spec equals the hash core-go binds to that key spec", w.FnPos(hfk),
			fmt.Sprintf("proto says %v, core-go says %v", protoHashes, coreHashes))
		// the digest table covers it
		if ok {
			hk := ""
			for num, nm := range hashName {
				if nm == coreHashes[0] {
					hk = fmt.Sprint(num)
				}
			}
			_, h1 := ms[hk]
			_, h2 := mv[hk]
			c.Check(h1 && h2, "tables/digest-table-covers/"+sp.name, "the digest algorithm tables have an entry for the hash of this key spec", site, "missing "+hk)
		}
		// Encode then Decode
		evs, ip3 := evalKeySpecFn(enc, sp.typ, sp.size, true)
		c.Evals += ip3.Steps
		okRT := len(evs) == 1 && evs[0].Kind == aStr && evs[0].Str == sp.name
		detail := fmt.Sprintf("EncodeKeySpec(%s) = %v", sp.name, evs)
		if okRT {
			// decode
			ip := &Interp{Fn: dec, TrackStrings: true, IntTypes: map[string]bool{"*": true}}
			env := map[ssa.Value]AVal{dec.Params[0]: {Kind: aStr, Str: sp.name}}
			n := 0
			for _, o := range ip.Run(dec.Blocks[0], nil, env, nil, nil) {
				if o.Ret == nil || len(o.Ret.Results) != 2 {
					continue
				}
				if e := ip.val(o.Ret.Results[1], o.Env); e.Kind != aNil {
					continue
				}
				n++
				al, _ := unwrapLoadAlloc(o.Ret.Results[0])
				if al == nil {
					okRT, detail = false, "DecodeKeySpec result not a local struct"
					continue
				}
				var gotT, gotS AVal
				st := al.Type().Underlying().(*types.Pointer).Elem().Underlying().(*types.Struct)
				for i := 0; i < st.NumFields(); i++ {
					switch st.Field(i).Name() {
					case "Type":
						gotT = ip.FieldOf(al, i, o.Env)
					case "Size":
						gotS = ip.FieldOf(al, i, o.Env)
					}
				}
				if gotT.Kind != aInt || gotS.Kind != aInt || gotT.Int != sp.typ || gotS.Int != sp.size {
					okRT, detail = false, fmt.Sprintf("DecodeKeySpec(%q) = {Type:%v Size:%v}", sp.name, gotT, gotS)
				}
			}
			c.Evals += ip.Steps
			if n != 1 {
				okRT, detail = false, fmt.Sprintf("DecodeKeySpec(%q) has %d successful paths", sp.name, n)
			}
		}
		c.Check(okRT, "tables/keyspec-codec/"+sp.name, "EncodeKeySpec and DecodeKeySpec are mutually inverse on this key spec (abstract interpretation)", w.FnPos(enc), detail)
	}
}

// ---- (d) ---------------------------------------------------------------------

func c07Payload(c *Ctx) {
	w := c.W
	san := c07Sanitiser(w)
	if san == nil {
		c.Unk("payload/sanitize", "anchor: the descriptor sanitiser of internal/envelope", "-", "not found")
		return
	}
	c.SeenFn(san.String())
	copied := map[string]string{}
	for _, b := range san.Blocks {
		for _, in := range b.Instrs {
			if st, ok := in.(*ssa.Store); ok {
				if fa, ok := st.Addr.(*ssa.FieldAddr); ok {
					copied[fieldName(fa.X.Type(), fa.Field)] = desc(st.Val)
				}
			}
		}
	}
	p := "param:" + san.Params[0].Name()
	okS := len(copied) == 4
	for _, f := range []string{"MediaType", "Digest", "Size", "Annotations"} {
		if copied[f] != p+"."+f {
			okS = false
		}
	}
	c.Check(okS, "payload/sanitize", "the sanitiser copies exactly MediaType, Digest, Size and Annotations of its argument", w.FnPos(san), fmt.Sprintf("copied: %v", copied))
	// both signers: Payload{TargetArtifact: Sanitize(desc param)}, its bytes and the payload type constant in the request.
	// Decided per signing function = the function that stores the marshalled bytes into the request (c07Writers): the
	// Marshal call may sit in that function or in a module helper whose result it stores; in the second case the payload
	// must be built from the helper's parameter and the signing function must pass its own descriptor parameter for it.
	pt, _ := w.constString("internal/envelope", "MediaTypePayloadV1")
	signerPkg := w.Pkg("signer")
	var writers []*c07Writer
	for _, wr := range c07Writers(w, san) {
		if signerPkg != nil && fnPkg(wr.In) == signerPkg.Pkg {
			writers = append(writers, wr)
		}
	}
	for _, wr := range writers {
		c.SeenFn(wr.In.String())
		site := w.InstrPos(wr.Marshal)
		if len(wr.Sinks) == 0 {
			c.Check(wr.TargetOK, "payload/signed-descriptor/"+fnName(wr.In), "the payload signed is Payload{TargetArtifact: sanitise(desc parameter)}", site, "TargetArtifact is "+wr.Target)
			c.Bad("payload/bytes-signed/"+fnName(wr.In), "the marshalled payload bytes are what is handed to the signer / plugin", site, "the marshalled bytes do not reach the request")
			continue
		}
		for _, sk := range wr.Sinks {
			g := sk.Fn
			c.SeenFn(g.String())
			c.Evals++
			// the descriptor the payload is about is the signing function's descriptor parameter
			okD := wr.TargetOK && sk.DescParam != nil && namedOf(sk.DescParam.Type()) == "ocispec.Descriptor"
			detail := "TargetArtifact is " + wr.Target
			nDesc := 0
			for _, p := range g.Params {
				if namedOf(p.Type()) == "ocispec.Descriptor" {
					nDesc++
				}
			}
			if nDesc != 1 {
				// "the" descriptor parameter must be unambiguous
				okD = false
				detail += fmt.Sprintf("; %s has %d descriptor parameters", fnName(g), nDesc)
			}
			if sk.DescWhy != "" {
				detail += "; " + sk.DescWhy
			}
			c.Check(okD, "payload/signed-descriptor/"+fnName(g), "the payload signed is Payload{TargetArtifact: sanitise(desc parameter)}", site, detail)
			c.OK("payload/bytes-signed/"+fnName(g), "the marshalled payload bytes are what is handed to the signer / plugin", site)
			// the payload type constant is written next to the bytes (same object)
			okType := false
			owner := desc(sk.Store.Addr.(*ssa.FieldAddr).X)
			// (searched where the bytes are stored: the signing function, or the request constructor it hands them to)
			for _, b := range sk.Store.Parent().Blocks {
				for _, in := range b.Instrs {
					st, isSt := in.(*ssa.Store)
					if !isSt {
						continue
					}
					fa, isFa := st.Addr.(*ssa.FieldAddr)
					if !isFa {
						continue
					}
					f := fieldName(fa.X.Type(), fa.Field)
					if (f == "ContentType" || f == "PayloadType") && desc(fa.X) == owner && desc(st.Val) == fmt.Sprintf("const:%q", pt) {
						okType = true
					}
				}
			}
			c.Check(okType, "payload/content-type-written/"+fnName(g), "the payload content type written is envelope.MediaTypePayloadV1 (the one the verifier accepts)", site, "another content type is written next to the bytes stored at "+w.InstrPos(sk.Store))
		}
	}
	if n := len(c07SinkFns(writers)); n < 2 {
		c.Unk("payload/signers#count", "vacuity guard: two signers build the payload", "-", fmt.Sprintf("%d found", n))
	}
	// expiry
	for _, fn := range w.FuncsOfPkg("signer") {
		fi := w.Info(fn)
		for _, b := range fn.Blocks {
			for _, in := range b.Instrs {
				st, isSt := in.(*ssa.Store)
				if !isSt {
					continue
				}
				fa, isFa := st.Addr.(*ssa.FieldAddr)
				if !isFa {
					continue
				}
				switch fieldName(fa.X.Type(), fa.Field) {
				case "Expiry":
					if namedOf(fa.X.Type()) != "core/signature.SignRequest" {
						continue
					}
					d := desc(st.Val)
					// decided on the SSA value: directly SigningTime.Add(d) under the guard, a variable computed ahead of the
					// request, or the result of a module helper — every origin is that sum (under the guard) or the zero time — see c07ExpiryValue
					okE, why := c07ExpiryValue(w, fi, st, fa)
					c.Evals++
					c.Check(okE, "payload/expiry", "expiry = SigningTime.Add(ExpiryDuration) of the same request, set only when the duration is non-zero", w.InstrPos(st), fmt.Sprintf("value %s; guards %s; %s", d, summarizeLabels(fi.GuardsOf(st), 4), why))
				case "ExpiryDurationInSeconds":
					d := desc(st.Val)
					// decided in the function that fills the request when it has the options; a request constructor that is
					// handed the number instead is decided at its (closed list of) call sites
					okP := c07DecidedUpward(w, fn, d, func(f *ssa.Function, d string) bool {
						return d == "("+paramWhere(f, hasField("ExpiryDuration"))+".ExpiryDuration / const:1000000000)"
					}, 0)
					c.Check(okP, "payload/expiry-plugin", "the plugin request carries ExpiryDuration / time.Second", w.InstrPos(st), "value "+d)
				case "SigningScheme":
					if namedOf(fa.X.Type()) == "core/signature.SignRequest" {
						c.Check(desc(st.Val) == `const:"notary.x509"`, "payload/signing-scheme", "the local signer signs under scheme notary.x509", w.InstrPos(st), "value "+desc(st.Val))
					}
				}
			}
		}
	}
	// the two expiry clauses must have been decided somewhere: a signer that never writes the field signs without expiry whatever was requested
	for _, kw := range [][2]string{{"payload/expiry", "SignRequest.Expiry"}, {"payload/expiry-plugin", "GenerateEnvelopeRequest.ExpiryDurationInSeconds"}} {
		if _, seen := c.byKey[c.Prop+"/"+kw[0]]; !seen {
			c.Unk(kw[0], "anchor: the store into "+kw[1]+" in the signer package", "-", "the field is never written: the requested expiry duration is not carried into the signature")
		}
	}
	// blob digest algorithm at signing.
	//
	// Anchored at the signer package's invocations of the descriptor generator (by type: a call of a
	// BlobDescriptorGenerator value). The clause: the function that is given the key spec delivers a descriptor only
	// through a successful invocation, and the algorithm handed to it is R[hash(signature algorithm(key spec))] with the key
	// found — R being the relation of the tables (map or function, c07HashTables). The algorithm is decided per origin
	// (c07GeneratorArgument), so the application of the table may stand in the invoking function or in a module helper it
	// calls; the found-fact must hold whenever that origin arrives (in a helper: on the success exit that delivered it).
	want, _, _ := c07PkgRelation(w, "signer")
	signerPkg2 := w.Pkg("signer")
	nGen := 0
	// (an invocation whose algorithm is a parameter / captured variable of the function it stands in — the evaluation moved
	// into a helper or closure that is handed the algorithm — is decided per call site, in the caller: c07GenSite)
	for _, gc := range c07GeneratorSites(w) {
		fn := gc.Root
		if signerPkg2 == nil || fnPkg(gc.In) != signerPkg2.Pkg || fnPkg(fn) != signerPkg2.Pkg {
			continue
		}
		nGen++
		s := w.Summarize(fn, Mode{Kind: mErr})
		c.Evals += s.States
		c.SeenFn(fn.String())
		// the key spec parameter is identified by its type, not by its position: the table must be keyed by the hash of
		// the key spec the function was given, wherever in the parameter list it stands (none or several: undecidable here, "param:?")
		ksParam, nKs := "param:?", 0
		for _, p := range fn.Params {
			if t := namedOf(p.Type()); t == "core/internal/algorithm.KeySpec" || t == "core/signature.KeySpec" {
				ksParam = "param:" + p.Name()
				nKs++
			}
		}
		if nKs != 1 {
			ksParam = "param:?"
		}
		key := "call:(core/internal/algorithm.Algorithm).Hash(call:(core/internal/algorithm.KeySpec).SignatureAlgorithm(" + ksParam + "))"
		apps, why := c07GeneratorArgument(w, gc, want)
		okL := why == ""
		for _, a := range apps {
			if nKs == 0 && a.App.In == fn && c07KeyOfObtainedKeySpec(w, a.App) {
				// the function is not handed the key spec but asks for it itself: keyed by the hash of the key spec it obtained
				if !a.Found {
					okL, why = false, "the algorithm "+desc(a.App.Val)+" reaches the invocation without the test that the key was found ("+strings.Join(a.App.foundLabels(), " / ")+")"
				}
				continue
			}
			if a.Key != key {
				// not the rendering "hash of the signature algorithm of my key spec parameter": decide on the values where the
				// key comes from — the three steps (obtain the key spec, hash of its signature algorithm, apply the table) may be
				// cut into helpers at either boundary, see c07KeyOfKeySpec
				if okK, whyK := c07KeyOfKeySpec(w, fn, a); !okK {
					okL, why = false, "the table is keyed by "+a.Key+", not by "+key+" ("+whyK+")"
					continue
				}
			}
			if !a.Found {
				okL, why = false, "the algorithm "+desc(a.App.Val)+" reaches the invocation without the test that the key was found ("+strings.Join(a.App.foundLabels(), " / ")+")"
			}
		}
		siteL := w.InstrPos(gc.Call)
		if len(apps) > 0 {
			siteL = w.InstrPos(apps[0].App.At)
		}
		c.Check(okL, "payload/blob-digest-algorithm/lookup", "must-check: the descriptor generator is invoked only with table[keySpec.SignatureAlgorithm().Hash()] of the key spec "+fnName(fn)+" was given, found in the table (a miss fails closed)", siteL, why)
		// (exits that return, over the failing branch of its own nil test, the error just tested are not success exits: c07LiveExits)
		c.requireOnExits("payload/blob-digest-algorithm", fn, c07LiveExits(s.Exits), []Need{
			{Name: "generator", What: "descriptor generator applied to that digest algorithm", Subs: []string{"EQ(" + gc.F.lift(desc(gc.Call)) + "#err,nil)"}},
		})
	}
	if nGen == 0 {
		c.Unk("payload/blob-digest-algorithm", "anchor: the signer function that looks up the digest algorithm and invokes the descriptor generator", "-", "not found")
	}
}

// c07Sanitiser: the descriptor sanitiser of internal/envelope, by its exported name or, failing that, by role.
func c07Sanitiser(w *World) *ssa.Function {
	san := w.Func("internal/envelope", "SanitizeTargetArtifact")
	if san == nil {
		// by role: func(Descriptor) Descriptor in internal/envelope
		for _, fn := range w.FuncsOfPkg("internal/envelope") {
			sig := fn.Signature
			if sig.Params().Len() == 1 && sig.Results().Len() == 1 && namedOf(sig.Params().At(0).Type()) == "ocispec.Descriptor" && namedOf(sig.Results().At(0).Type()) == "ocispec.Descriptor" {
				san = fn
			}
		}
	}
	return san
}

// ---- (e) blob descriptor ---------------------------------------------------

// c07BlobDescriptor: who invokes a BlobDescriptorGenerator and with what; the
// generator both wrappers build is the same function of the caller's options.
func c07BlobDescriptor(c *Ctx) {
	w := c.W
	// every invocation of a generator passes R[<hash of the signature algorithm / key spec>], R the relation of the tables
	// (c07GeneratorArgument: decided per origin of the argument; the table may be a map or a function)
	// An invocation that stands in a helper / closure which is handed the algorithm is decided at every call site of that
	// helper, in the caller's terms (c07GeneratorSites; only for a closed list of call sites).
	seenCall := map[*ssa.Call]bool{}
	want, _, _ := c07PkgRelation(w, "signer")
	for _, gc := range c07GeneratorSites(w) {
		fn, call := gc.Root, gc.Call
		seenCall[call] = true
		c.Evals++
		c.SeenFn(fn.String())
		apps, why := c07GeneratorArgument(w, gc, want)
		for _, a := range apps {
			if !strings.HasPrefix(a.Key, "call:(core/internal/algorithm.Algorithm).Hash(") {
				why = "the table is keyed by " + a.Key + ", not by the hash of a signature algorithm"
			}
		}
		c.Check(why == "", fmt.Sprintf("blob-descriptor/generator-call/%s", fnName(fn)), "who-may-call: a blob descriptor generator is invoked only with algorithms[hash bound to the signing key / signature algorithm] (signer and verifier derive the digest algorithm the same way)", w.InstrPos(call),
			"the generator is invoked with "+desc(call.Call.Args[0])+"; "+why)
	}
	n := len(seenCall)
	if n < 2 {
		c.Unk("blob-descriptor/generator-call#count", "vacuity guard: the signer and the verifier each invoke the generator", "-", fmt.Sprintf("%d invocations found", n))
	}
	// Both wrappers hand on a generator that runs the same code over the same inputs. The generator is found by role (the
	// BlobDescriptorGenerator argument the wrapper passes on, c07WrapperGenerators) and traced to the function value: made
	// by a builder function both wrappers call, or by the wrapper itself (a literal, or a method value bound to an object
	// the wrapper fills). What matters for the property is the code the generator runs (Body) and what was put into it,
	// seen from the wrapper (the caller's raw options) — not which function happens to create the function value.
	normalise := func(fn *ssa.Function, v ssa.Value) string {
		if v == nil {
			return "?"
		}
		d := desc(v)
		for _, p := range fn.Params {
			d = strings.ReplaceAll(d, "param:"+p.Name()+".BlobVerifierVerifyOptions.", "OPTS.")
			d = strings.ReplaceAll(d, "param:"+p.Name()+".", "OPTS.")
			d = strings.ReplaceAll(d, "param:"+p.Name(), "P:"+abbrev(p.Type().String()))
		}
		return d
	}
	isString := func(t types.Type) bool { b, ok := t.Underlying().(*types.Basic); return ok && b.Kind() == types.String }
	isReader := func(t types.Type) bool { return t.String() == "io.Reader" }
	isStringMap := func(t types.Type) bool { return abbrev(types.TypeString(t.Underlying(), nil)) == "map[string]string" }
	shapes := map[string]string{}
	bodies := map[string]string{}
	var all []c07GenUse
	for _, name := range []string{"SignBlob", "VerifyBlob"} {
		fn := w.Func("", name)
		if fn == nil {
			c.Unk("blob-descriptor/wrapper/"+name, "anchor: notation."+name, "-", "not found")
			continue
		}
		c.SeenFn(fn.String())
		uses, why := c07WrapperGenerators(w, fn)
		if len(uses) == 0 || why != "" {
			if why == "" {
				why = "no descriptor generator (made here or by a module function called here) is handed on"
			}
			c.Bad("blob-descriptor/wrapper/"+name, "the wrapper hands the signer / verifier a descriptor generator whose making is visible (a shared builder's result, or a function value the wrapper creates)", w.FnPos(fn), why)
			continue
		}
		var bs, sh []string
		for _, u := range uses {
			bs = append(bs, fnName(u.Gen.Body))
			// the inputs, by role: what the generator holds as media type, reader and user metadata, in the wrapper's terms
			sh = append(sh, "mediaType="+normalise(fn, u.inWrapper(u.Gen.capture(isString)))+" | reader="+normalise(fn, u.inWrapper(u.Gen.capture(isReader)))+
				" | userMetadata="+normalise(fn, u.inWrapper(u.Gen.capture(isStringMap))))
			known := false
			for _, o := range all {
				if o.Gen.Made == u.Gen.Made {
					known = true
				}
			}
			if !known {
				all = append(all, u)
			}
		}
		bodies[name] = strings.Join(uniq(sortStrings(bs)), " , ")
		shapes[name] = strings.Join(uniq(sortStrings(sh)), " ; ")
	}
	if len(bodies) == 2 && bodies["SignBlob"] != bodies["VerifyBlob"] {
		c.Bad("blob-descriptor/same-builder", "sibling agreement: the descriptor generators SignBlob and VerifyBlob hand on run the same code", w.FnPos(w.Func("", "VerifyBlob")), "different generators: "+bodies["SignBlob"]+" vs "+bodies["VerifyBlob"])
	}
	if len(shapes) == 2 {
		okShape := shapes["SignBlob"] == shapes["VerifyBlob"] && strings.Contains(shapes["SignBlob"], "mediaType=OPTS.ContentMediaType |") && strings.HasSuffix(shapes["SignBlob"], "userMetadata=OPTS.UserMetadata") &&
			strings.Contains(shapes["SignBlob"], "reader=P:io.Reader |")
		c.Check(okShape, "blob-descriptor/same-inputs", "sibling agreement: SignBlob and VerifyBlob put the same inputs into the generator — the reader, the caller's ContentMediaType and UserMetadata exactly as given (so the same option string signs and verifies)", w.FnPos(w.Func("", "SignBlob")),
			"SignBlob: ["+shapes["SignBlob"]+"], VerifyBlob: ["+shapes["VerifyBlob"]+"]")
	}
	// a builder returns nothing but generators it creates
	seenBuilder := map[*ssa.Function]bool{}
	for _, u := range all {
		builder := u.Gen.Maker
		if u.Call == nil || u.Gen.Made.Parent() != builder || seenBuilder[builder] {
			continue
		}
		seenBuilder[builder] = true
		c.SeenFn(builder.String())
		for _, b := range builder.Blocks {
			if r, ok := blockTerm(b).(*ssa.Return); ok && len(r.Results) == 1 {
				found := false
				for _, o := range all {
					if o.Gen.Maker == builder && unwrap(r.Results[0]) == ssa.Value(o.Gen.Made) {
						found = true
					}
				}
				if !found {
					c.Unk("blob-descriptor/generator-body", "anchor: the function value the builder returns as descriptor generator (function literal or bound method)", w.InstrPos(r), "the builder returns "+desc(r.Results[0])+", not a function value it creates")
				}
			}
		}
	}
	// the generator's body: MediaType <- the captured media type, Digest <- digester.Digest(), Size <- io.Copy count of the captured reader
	for _, gen := range all {
		cl := gen.Gen.Body
		c.SeenFn(cl.String())
		stored := map[string]string{}
		for _, b := range cl.Blocks {
			for _, in := range b.Instrs {
				if st, ok := in.(*ssa.Store); ok {
					if fa, ok := st.Addr.(*ssa.FieldAddr); ok && namedOf(fa.X.Type()) == "ocispec.Descriptor" {
						stored[fieldName(fa.X.Type(), fa.Field)] = desc(st.Val)
					}
				}
			}
		}
		// how the given media type / reader read inside the body: the capture of that type, provided what was captured is
		// what the wrapper gave (a builder must capture its own parameter, not something it derived from it)
		given := func(cp c07Capture) string {
			if !strings.HasPrefix(cp.Reads, "?:") && gen.inWrapper(cp) == nil {
				return "?:the-builder-captures-" + desc(cp.Val)
			}
			return cp.Reads
		}
		mtFV := given(gen.Gen.capture(isString))
		rdFV := given(gen.Gen.capture(isReader))
		// the digest: Digester().Digest() after copying into Digester().Hash(), or NewDigest(alg, h) after copying into h = alg.Hash()
		okDigest := strings.HasPrefix(stored["Digest"], "call:invoke:digest.Digester.Digest(")
		if strings.HasPrefix(stored["Digest"], "call:digest.NewDigest(param:") {
			_, dargs := splitTopArgs(strings.TrimPrefix(stored["Digest"], "call:"))
			if len(dargs) == 2 && dargs[1] == "call:(digest.Algorithm).Hash("+dargs[0]+")" && strings.HasPrefix(stored["Size"], "call:io.Copy("+dargs[1]+",") {
				okDigest = true
			}
		}
		// Size: the count io.Copy returns for copying the captured reader itself (not something derived from it) into the hash
		okSize := false
		if sz := stored["Size"]; strings.HasPrefix(sz, "call:io.Copy(") && strings.HasSuffix(sz, "#0") {
			_, cargs := splitTopArgs(strings.TrimSuffix(strings.TrimPrefix(sz, "call:"), "#0"))
			okSize = len(cargs) == 2 && cargs[1] == rdFV
		}
		okGen := stored["MediaType"] == mtFV && okDigest && okSize
		c.Check(okGen, "blob-descriptor/generator-body", "the generated descriptor is {MediaType: the given content media type, Digest: digest of the bytes read with the requested algorithm, Size: number of bytes read}", w.FnPos(cl), fmt.Sprintf("fields: %v (the captured media type reads as %s, the captured reader as %s)", stored, mtFV, rdFV))
		// the digester comes from the algorithm argument
		okAlg := false
		for _, ci := range allCalls(cl) {
			if call, ok := ci.(*ssa.Call); ok && (calleeName(call) == "(digest.Algorithm).Digester" || calleeName(call) == "(digest.Algorithm).Hash") {
				// the generator's own algorithm argument (a parameter of the body, not something read off a receiver)
				if p, isP := loadOrigin(unwrap(call.Call.Args[0])).(*ssa.Parameter); isP && p.Parent() == cl && namedOf(p.Type()) == "digest.Algorithm" {
					okAlg = true
				}
			}
		}
		c.Check(okAlg, "blob-descriptor/generator-algorithm", "the digester is created from the algorithm the generator was called with", w.FnPos(cl), "the digest algorithm argument is not used")
	}
}

// freeVarOfParam returns "free:<name>" of the closure's free variable that is bound to the
// enclosing function's parameter (or its spill cell) whose type satisfies pred.
func freeVarOfParam(outer, cl *ssa.Function, pred func(types.Type) bool) string {
	for _, b := range outer.Blocks {
		for _, in := range b.Instrs {
			mc, ok := in.(*ssa.MakeClosure)
			if !ok || mc.Fn != ssa.Value(cl) {
				continue
			}
			for i, bd := range mc.Bindings {
				var p *ssa.Parameter
				switch x := bd.(type) {
				case *ssa.Parameter:
					p = x
				case *ssa.Alloc:
					if sv := onlyDirectStore(x); sv != nil {
						p, _ = sv.(*ssa.Parameter)
					}
				}
				if p != nil && pred(p.Type()) {
					return "free:" + cl.FreeVars[i].Name()
				}
			}
		}
	}
	return "free:?"
}
