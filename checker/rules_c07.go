package main

import (
	"fmt"
	"go/types"
	"sort"
	"strings"

	"golang.org/x/tools/go/ssa"
)

func init() {
	register(&Rule{
		ID:    "C07",
		Title: "what the library signs, it verifies, and it reports what was signed",
		Run:   runC07,
		Explain: "(a) reader/writer agreement: the signers marshal envelope.Payload; every json.Unmarshal of a verified envelope's Payload.Content decodes into *envelope.Payload or a generic map; " +
			"(b) notation.VerifyBlob returns the TargetArtifact of the payload decoded from the outcome the verifier returned, together with that outcome; VerificationOutcome.UserMetadata returns that payload's annotations; " +
			"(c) tables: signer.algorithms == verifier.algorithms and both cover every hash core-go derives from the six key specs; proto.HashAlgorithmFromKeySpec agrees with core-go's KeySpec.SignatureAlgorithm().Hash() on the six key specs " +
			"(both evaluated by abstract interpretation); EncodeKeySpec and DecodeKeySpec are mutually inverse on the six constants; the payload content type written by the signer is the constant the verifier accepts; " +
			"(d) payload construction: SanitizeTargetArtifact copies exactly media type, digest, size and annotations of its argument; both signers sign Payload{SanitizeTargetArtifact(desc parameter)} " +
			"(marshalled in the signing function or in a module helper it hands that parameter to; the bytes are followed through the helper's result into the request); " +
			"expiry = SigningTime.Add(ExpiryDuration) only when the duration is non-zero (patched into the request, or computed ahead of it from the very value stored as SigningTime); the plugin request carries ExpiryDuration/time.Second; " +
			"the blob digest algorithm at signing is algorithms[keySpec.SignatureAlgorithm().Hash()] with a fail-closed miss; " +
			"(e) the blob descriptor generator (function literal or bound method of an object the builder fills) is {given media type, digest and byte count of the given reader under the requested algorithm}.",
		NotCov:  "the sign->verify round trip itself for all keys and formats (cryptography and envelope encoders of notation-core-go).",
		Trusted: []string{"go/types, go/ssa", "encoding/json", "notation-core-go signature (Sign, Verify, KeySpec)"},
	})
}

func runC07(c *Ctx) {
	w := c.W
	c07ReaderWriter(c)
	c07Returns(c)
	c07Tables(c)
	c07Payload(c)
	c07BlobDescriptor(c)
	_ = w
	c.MinCount("", 20, "agreement obligations")
}

// ---- (a) ---------------------------------------------------------------------

func c07ReaderWriter(c *Ctx) {
	w := c.W
	nRead, nWrite := 0, 0
	for _, fn := range w.Funcs {
		for _, ci := range allCalls(fn) {
			call, ok := ci.(*ssa.Call)
			if !ok {
				continue
			}
			switch calleeName(call) {
			case "encoding/json.Unmarshal":
				src := desc(call.Call.Args[0])
				_, srcIsParam := call.Call.Args[0].(*ssa.Parameter)
				if !strings.HasSuffix(src, ".Payload.Content") && !(srcIsParam && fn.Pkg != nil && fn.Pkg.Pkg.Path() == modPath+"/signer") {
					continue
				}
				if srcIsParam {
					// helper receiving the payload content: the caller passes Payload.Content
					okCaller := false
					for _, f2 := range w.Funcs {
						for _, c2 := range allCalls(f2) {
							if cc, ok := c2.(*ssa.Call); ok && staticCallee(cc) == fn {
								for _, a := range cc.Call.Args {
									if strings.HasSuffix(desc(a), ".Payload.Content") {
										okCaller = true
									}
								}
							}
						}
					}
					if !okCaller {
						continue
					}
				}
				nRead++
				c.Evals++
				tgt := unwrap(call.Call.Args[1])
				tt := abbrev(types.TypeString(tgt.Type(), nil))
				key := fmt.Sprintf("reader/%s#%d", fnName(fn), nRead)
				ok := tt == "*ngo/internal/envelope.Payload" || tt == "*map[string]interface{}" || tt == "*map[string]any"
				c.Check(ok, key, "reader/writer agreement: the verified payload content is decoded into *envelope.Payload (the type the signers marshal) or a generic map", w.InstrPos(call),
					"the payload content is decoded into "+tt+" (json decodes by field name: a different struct silently yields zero values)")
				fresh, why := freshDecodeTarget(w.Info(fn), call)
				c.Check(fresh, key+"/fresh-target", "the verified payload content is decoded into a fresh variable (json.Unmarshal keeps what the input omits: decoding over the request's payload would fill the gaps of the signed one)", w.InstrPos(call), why)
			}
		}
	}
	// writers: the json.Marshal(envelope.Payload) sites of the signers. A site is counted once per signing function its
	// bytes are handed to (c07Writers follows result 0 of the Marshal call through the returns of module helpers into the
	// request that is signed): two signers sharing one marshalling helper are still two signers marshalling
	// envelope.Payload, which is what the vacuity guard below stands for.
	for _, wr := range c07Writers(w, c07Sanitiser(w)) {
		fns := c07SinkFns([]*c07Writer{wr})
		if len(fns) == 0 {
			fns = []*ssa.Function{wr.In}
		}
		for _, g := range fns {
			nWrite++
			c.OK(fmt.Sprintf("writer/%s", fnName(g)), "the signer marshals envelope.Payload", w.InstrPos(wr.Marshal))
		}
	}
	if nRead < 3 {
		c.Unk("reader#count", "vacuity guard: the two verifier methods and the plugin signer decode a verified payload content", "-", fmt.Sprintf("%d found", nRead))
	}
	if nWrite < 2 {
		c.Unk("writer#count", "vacuity guard: both signers marshal envelope.Payload", "-", fmt.Sprintf("%d found", nWrite))
	}
}

// ---- (b) ---------------------------------------------------------------------

func c07Returns(c *Ctx) {
	w := c.W
	fn := w.Func("", "VerifyBlob")
	if fn == nil {
		c.Unk("returns/VerifyBlob", "anchor: notation.VerifyBlob", "-", "not found")
	} else {
		c.SeenFn(fn.String())
		fi := w.Info(fn)
		s := w.Summarize(fn, Mode{Kind: mErr})
		c.Evals += s.States
		rule := "notation.VerifyBlob returns, with the outcome the verifier produced, the TargetArtifact of the payload decoded from that outcome's verified content (or the empty descriptor when there is no verified content)"
		ok := len(s.Exits) > 0
		detail := ""
		nPayload := 0
		for _, ex := range s.Exits {
			r := ex.Ret
			if len(r.Results) != 3 {
				ok = false
				continue
			}
			vo := desc(r.Results[1])
			if !strings.HasPrefix(vo, "call:invoke:ngo.BlobVerifier.VerifyBlob(") || !strings.HasSuffix(vo, "#0") {
				ok, detail = false, "the outcome returned is "+vo
			}
			d0 := desc(r.Results[0])
			if strings.HasPrefix(d0, "const:zero:") || strings.HasPrefix(d0, "alloc:ocispec.Descriptor<complit>") {
				// allowed only when the outcome has no envelope content
				if _, h := hasLabel(ex.Checked, "EQ("+vo+".EnvelopeContent,nil)"); !h {
					ok, detail = false, "an empty descriptor is returned although the outcome carries verified content (exit "+w.InstrPos(r)+")"
				}
				continue
			}
			// <alloc Payload>.TargetArtifact, decoded from vo.EnvelopeContent.Payload.Content
			if !strings.HasSuffix(d0, ".TargetArtifact") || !strings.HasPrefix(d0, "alloc:ngo/internal/envelope.Payload<") {
				ok, detail = false, "the descriptor returned is "+d0
				continue
			}
			al := strings.TrimSuffix(d0, ".TargetArtifact")
			if _, h := hasLabel(ex.Checked, "EQ(call:encoding/json.Unmarshal(call:invoke:ngo.BlobVerifier.VerifyBlob(", "#0.EnvelopeContent.Payload.Content,"+al+")#err,nil)"); !h {
				ok, detail = false, "the returned descriptor is not decoded from the verified outcome's payload"
			}
			nPayload++
		}
		_ = fi
		c.Check(ok && nPayload > 0, "returns/VerifyBlob", rule, w.FnPos(fn), detail)
	}
	um := w.Method("", "VerificationOutcome", "UserMetadata")
	if um == nil {
		c.Unk("returns/UserMetadata", "anchor: (*VerificationOutcome).UserMetadata", "-", "not found")
		return
	}
	c.SeenFn(um.String())
	s := w.Summarize(um, Mode{Kind: mErr})
	c.Evals += s.States
	recv := "param:" + um.Params[0].Name()
	ok := len(s.Exits) > 0
	detail := ""
	nAnn := 0
	for _, ex := range s.Exits {
		d0 := desc(ex.Ret.Results[0])
		if strings.HasPrefix(d0, "makemap:") {
			// empty map only when the signed annotations are nil
			if _, h := hasLabel(ex.Checked, "EQ(alloc:ngo/internal/envelope.Payload<", ".TargetArtifact.Annotations,nil)"); !h {
				ok, detail = false, "an empty map is returned although annotations exist"
			}
			continue
		}
		if !strings.HasPrefix(d0, "alloc:ngo/internal/envelope.Payload<") || !strings.HasSuffix(d0, ".TargetArtifact.Annotations") {
			ok, detail = false, "UserMetadata returns "+d0
			continue
		}
		al := strings.TrimSuffix(d0, ".TargetArtifact.Annotations")
		if _, h := hasLabel(ex.Checked, "EQ(call:encoding/json.Unmarshal("+recv+".EnvelopeContent.Payload.Content,"+al+")#err,nil)"); !h {
			ok, detail = false, "the annotations are not decoded from the outcome's payload content"
		}
		nAnn++
	}
	c.Check(ok && nAnn > 0, "returns/UserMetadata", "UserMetadata returns exactly the annotations of the payload decoded from the outcome's verified content", w.FnPos(um), detail)
}

// ---- (c) ---------------------------------------------------------------------

type keySpecIn struct {
	name string
	typ  int64
	size int64
}

// evalKeySpecFn abstractly evaluates a loop-free function of a KeySpec value
// (fields Type, Size supplied as inputs) and returns the set of abstract
// values of result 0 over all paths returning a nil error (or all paths when
// the function has a single result).
func evalKeySpecFn(fn *ssa.Function, typ, size int64, trackStrings bool) ([]AVal, *Interp) {
	ip := &Interp{Fn: fn, TrackStrings: trackStrings, IntTypes: map[string]bool{"*": true}}
	ip.Hook = func(in ssa.Instruction, env map[ssa.Value]AVal) (AVal, bool) {
		var v ssa.Value
		switch x := in.(type) {
		case *ssa.Field:
			v = x
		case *ssa.UnOp:
			v = x
		default:
			return AVal{}, false
		}
		d := desc(v)
		if len(fn.Params) == 0 {
			return AVal{}, false
		}
		p := "param:" + fn.Params[0].Name()
		switch d {
		case p + ".Type":
			return AVal{Kind: aInt, Int: typ}, true
		case p + ".Size":
			return AVal{Kind: aInt, Int: size}, true
		}
		return AVal{}, false
	}
	var out []AVal
	for _, o := range ip.Run(fn.Blocks[0], nil, map[ssa.Value]AVal{}, nil, nil) {
		if o.Ret == nil {
			continue
		}
		if len(o.Ret.Results) == 2 {
			e := ip.val(o.Ret.Results[1], o.Env)
			if e.Kind != aNil {
				continue
			}
		}
		out = append(out, ip.val(o.Ret.Results[0], o.Env))
	}
	return out, ip
}

func evalScalarFn(fn *ssa.Function, in AVal) []AVal {
	ip := &Interp{Fn: fn, TrackStrings: true, IntTypes: map[string]bool{"*": true}}
	env := map[ssa.Value]AVal{}
	if len(fn.Params) > 0 {
		env[fn.Params[0]] = in
	}
	var out []AVal
	for _, o := range ip.Run(fn.Blocks[0], nil, env, nil, nil) {
		if o.Ret == nil {
			continue
		}
		if len(o.Ret.Results) == 2 {
			if e := ip.val(o.Ret.Results[1], o.Env); e.Kind != aNil {
				continue
			}
		}
		out = append(out, ip.val(o.Ret.Results[0], o.Env))
	}
	return out
}

func c07Tables(c *Ctx) {
	w := c.W
	// signer.algorithms == verifier.algorithms
	es, ps := w.pkgVarInit("signer", w.globalWhere("signer", isHashDigestMap))
	ev, pv := w.pkgVarInit("verifier", w.globalWhere("verifier", isHashDigestMap))
	var ms, mv map[string]string
	if es != nil && ev != nil {
		ms, _ = mapLiteral(ps, es)
		mv, _ = mapLiteral(pv, ev)
	}
	eq := ms != nil && mv != nil && len(ms) == len(mv)
	for k, v := range ms {
		if mv[k] != v {
			eq = false
		}
	}
	site := "-"
	if es != nil {
		site = w.Pos(es.Pos())
	}
	c.Check(eq && len(ms) >= 3, "tables/hash-to-digest-algorithm", "agreement: the signer's and the verifier's crypto.Hash -> digest.Algorithm tables are the same map", site, fmt.Sprintf("signer=%v verifier=%v", ms, mv))
	want := map[string]string{}
	if p := w.ByPath["crypto"]; p != nil {
		for _, n := range []string{"SHA256", "SHA384", "SHA512"} {
			if k, ok := p.Types.Scope().Lookup(n).(*types.Const); ok {
				want[k.Val().ExactString()] = strings.ToLower(n)
			}
		}
	}
	okWant := len(want) == 3
	for k, v := range want {
		if ms[k] != v || mv[k] != v {
			okWant = false
		}
	}
	c.Check(okWant, "tables/hash-to-digest-algorithm-total", "the tables map SHA256/384/512 to the digest algorithm of the same name (total over the hashes of the six key specs)", site, fmt.Sprintf("signer=%v verifier=%v", ms, mv))

	// key specs
	specs := []keySpecIn{{"RSA-2048", 1, 2048}, {"RSA-3072", 1, 3072}, {"RSA-4096", 1, 4096}, {"EC-256", 2, 256}, {"EC-384", 2, 384}, {"EC-521", 2, 521}}
	// KeyType constants from core-go
	if p := w.ByPath["github.com/notaryproject/notation-core-go/internal/algorithm"]; p != nil {
		for i := range specs {
			n := "KeyTypeRSA"
			if strings.HasPrefix(specs[i].name, "EC") {
				n = "KeyTypeEC"
			}
			if k, ok := p.Types.Scope().Lookup(n).(*types.Const); ok {
				fmt.Sscan(k.Val().ExactString(), &specs[i].typ)
			}
		}
	}
	hfk := w.Func("plugin/proto", "HashAlgorithmFromKeySpec")
	enc := w.Func("plugin/proto", "EncodeKeySpec")
	dec := w.Func("plugin/proto", "DecodeKeySpec")
	var sigAlg, hashFn *ssa.Function
	if sp := w.SSA["github.com/notaryproject/notation-core-go/internal/algorithm"]; sp != nil {
		for _, recvName := range []string{"KeySpec", "Algorithm"} {
			t := sp.Type(recvName)
			if t == nil {
				continue
			}
			ms := w.Prog.MethodSets.MethodSet(t.Type())
			for i := 0; i < ms.Len(); i++ {
				f := w.Prog.MethodValue(ms.At(i))
				if f == nil {
					continue
				}
				if recvName == "KeySpec" && f.Name() == "SignatureAlgorithm" {
					sigAlg = f
				}
				if recvName == "Algorithm" && f.Name() == "Hash" {
					hashFn = f
				}
			}
		}
	}
	if hfk == nil || enc == nil || dec == nil || sigAlg == nil || hashFn == nil {
		c.Unk("tables/keyspec", "anchors: proto.HashAlgorithmFromKeySpec, EncodeKeySpec, DecodeKeySpec and core-go's KeySpec.SignatureAlgorithm / Algorithm.Hash", "-",
			fmt.Sprintf("%v %v %v %v %v", hfk != nil, enc != nil, dec != nil, sigAlg != nil, hashFn != nil))
		return
	}
	c.SeenFn(hfk.String())
	c.SeenFn(enc.String())
	c.SeenFn(dec.String())
	// names of crypto.Hash values
	hashName := map[int64]string{5: "SHA-256", 6: "SHA-384", 7: "SHA-512"}
	if p := w.ByPath["crypto"]; p != nil {
		for n, s := range map[string]string{"SHA256": "SHA-256", "SHA384": "SHA-384", "SHA512": "SHA-512"} {
			if k, ok := p.Types.Scope().Lookup(n).(*types.Const); ok {
				var v int64
				fmt.Sscan(k.Val().ExactString(), &v)
				hashName[v] = s
			}
		}
	}
	for _, sp := range specs {
		// proto
		pv, ip1 := evalKeySpecFn(hfk, sp.typ, sp.size, true)
		c.Evals += ip1.Steps
		// core: SignatureAlgorithm then Hash
		av, ip2 := evalKeySpecFn(sigAlg, sp.typ, sp.size, false)
		c.Evals += ip2.Steps
		var coreHashes []string
		for _, a := range av {
			if a.Kind != aInt {
				coreHashes = append(coreHashes, "⊤")
				continue
			}
			for _, h := range evalScalarFn(hashFn, a) {
				if h.Kind == aInt {
					coreHashes = append(coreHashes, hashName[h.Int])
				} else {
					coreHashes = append(coreHashes, "⊤")
				}
			}
		}
		var protoHashes []string
		for _, a := range pv {
			if a.Kind == aStr {
				protoHashes = append(protoHashes, a.Str)
			} else {
				protoHashes = append(protoHashes, "⊤")
			}
		}
		sort.Strings(coreHashes)
		sort.Strings(protoHashes)
		ok := len(coreHashes) == 1 && len(protoHashes) == 1 && coreHashes[0] == protoHashes[0] && coreHashes[0] != "" && coreHashes[0] != "⊤"
		c.Check(ok, "tables/hash-of-keyspec/"+sp.name, "agreement (abstract interpretation of both functions): the hash announced to the plugin for the key spec equals the hash core-go binds to that key spec", w.FnPos(hfk),
			fmt.Sprintf("proto says %v, core-go says %v", protoHashes, coreHashes))
		// the digest table covers it
		if ok {
			hk := ""
			for num, nm := range hashName {
				if nm == coreHashes[0] {
					hk = fmt.Sprint(num)
				}
			}
			_, h1 := ms[hk]
			_, h2 := mv[hk]
			c.Check(h1 && h2, "tables/digest-table-covers/"+sp.name, "the digest algorithm tables have an entry for the hash of this key spec", site, "missing "+hk)
		}
		// Encode then Decode
		evs, ip3 := evalKeySpecFn(enc, sp.typ, sp.size, true)
		c.Evals += ip3.Steps
		okRT := len(evs) == 1 && evs[0].Kind == aStr && evs[0].Str == sp.name
		detail := fmt.Sprintf("EncodeKeySpec(%s) = %v", sp.name, evs)
		if okRT {
			// decode
			ip := &Interp{Fn: dec, TrackStrings: true, IntTypes: map[string]bool{"*": true}}
			env := map[ssa.Value]AVal{dec.Params[0]: {Kind: aStr, Str: sp.name}}
			n := 0
			for _, o := range ip.Run(dec.Blocks[0], nil, env, nil, nil) {
				if o.Ret == nil || len(o.Ret.Results) != 2 {
					continue
				}
				if e := ip.val(o.Ret.Results[1], o.Env); e.Kind != aNil {
					continue
				}
				n++
				al, _ := unwrapLoadAlloc(o.Ret.Results[0])
				if al == nil {
					okRT, detail = false, "DecodeKeySpec result not a local struct"
					continue
				}
				var gotT, gotS AVal
				st := al.Type().Underlying().(*types.Pointer).Elem().Underlying().(*types.Struct)
				for i := 0; i < st.NumFields(); i++ {
					switch st.Field(i).Name() {
					case "Type":
						gotT = ip.FieldOf(al, i, o.Env)
					case "Size":
						gotS = ip.FieldOf(al, i, o.Env)
					}
				}
				if gotT.Kind != aInt || gotS.Kind != aInt || gotT.Int != sp.typ || gotS.Int != sp.size {
					okRT, detail = false, fmt.Sprintf("DecodeKeySpec(%q) = {Type:%v Size:%v}", sp.name, gotT, gotS)
				}
			}
			c.Evals += ip.Steps
			if n != 1 {
				okRT, detail = false, fmt.Sprintf("DecodeKeySpec(%q) has %d successful paths", sp.name, n)
			}
		}
		c.Check(okRT, "tables/keyspec-codec/"+sp.name, "EncodeKeySpec and DecodeKeySpec are mutually inverse on this key spec (abstract interpretation)", w.FnPos(enc), detail)
	}
}

// ---- (d) ---------------------------------------------------------------------

func c07Payload(c *Ctx) {
	w := c.W
	san := c07Sanitiser(w)
	if san == nil {
		c.Unk("payload/sanitize", "anchor: the descriptor sanitiser of internal/envelope", "-", "not found")
		return
	}
	c.SeenFn(san.String())
	copied := map[string]string{}
	for _, b := range san.Blocks {
		for _, in := range b.Instrs {
			if st, ok := in.(*ssa.Store); ok {
				if fa, ok := st.Addr.(*ssa.FieldAddr); ok {
					copied[fieldName(fa.X.Type(), fa.Field)] = desc(st.Val)
				}
			}
		}
	}
	p := "param:" + san.Params[0].Name()
	okS := len(copied) == 4
	for _, f := range []string{"MediaType", "Digest", "Size", "Annotations"} {
		if copied[f] != p+"."+f {
			okS = false
		}
	}
	c.Check(okS, "payload/sanitize", "the sanitiser copies exactly MediaType, Digest, Size and Annotations of its argument", w.FnPos(san), fmt.Sprintf("copied: %v", copied))
	// both signers: Payload{TargetArtifact: Sanitize(desc param)}, its bytes and the payload type constant in the request.
	// Decided per signing function = the function that stores the marshalled bytes into the request (c07Writers): the
	// Marshal call may sit in that function or in a module helper whose result it stores; in the second case the payload
	// must be built from the helper's parameter and the signing function must pass its own descriptor parameter for it.
	pt, _ := w.constString("internal/envelope", "MediaTypePayloadV1")
	signerPkg := w.Pkg("signer")
	var writers []*c07Writer
	for _, wr := range c07Writers(w, san) {
		if signerPkg != nil && fnPkg(wr.In) == signerPkg.Pkg {
			writers = append(writers, wr)
		}
	}
	for _, wr := range writers {
		c.SeenFn(wr.In.String())
		site := w.InstrPos(wr.Marshal)
		if len(wr.Sinks) == 0 {
			c.Check(wr.TargetOK, "payload/signed-descriptor/"+fnName(wr.In), "the payload signed is Payload{TargetArtifact: sanitise(desc parameter)}", site, "TargetArtifact is "+wr.Target)
			c.Bad("payload/bytes-signed/"+fnName(wr.In), "the marshalled payload bytes are what is handed to the signer / plugin", site, "the marshalled bytes do not reach the request")
			continue
		}
		for _, sk := range wr.Sinks {
			g := sk.Fn
			c.SeenFn(g.String())
			c.Evals++
			// the descriptor the payload is about is the signing function's descriptor parameter
			okD := wr.TargetOK && sk.DescParam != nil && namedOf(sk.DescParam.Type()) == "ocispec.Descriptor"
			detail := "TargetArtifact is " + wr.Target
			nDesc := 0
			for _, p := range g.Params {
				if namedOf(p.Type()) == "ocispec.Descriptor" {
					nDesc++
				}
			}
			if nDesc != 1 {
				// "the" descriptor parameter must be unambiguous
				okD = false
				detail += fmt.Sprintf("; %s has %d descriptor parameters", fnName(g), nDesc)
			}
			if sk.DescWhy != "" {
				detail += "; " + sk.DescWhy
			}
			c.Check(okD, "payload/signed-descriptor/"+fnName(g), "the payload signed is Payload{TargetArtifact: sanitise(desc parameter)}", site, detail)
			c.OK("payload/bytes-signed/"+fnName(g), "the marshalled payload bytes are what is handed to the signer / plugin", site)
			// the payload type constant is written next to the bytes (same object)
			okType := false
			owner := desc(sk.Store.Addr.(*ssa.FieldAddr).X)
			for _, b := range g.Blocks {
				for _, in := range b.Instrs {
					st, isSt := in.(*ssa.Store)
					if !isSt {
						continue
					}
					fa, isFa := st.Addr.(*ssa.FieldAddr)
					if !isFa {
						continue
					}
					f := fieldName(fa.X.Type(), fa.Field)
					if (f == "ContentType" || f == "PayloadType") && desc(fa.X) == owner && desc(st.Val) == fmt.Sprintf("const:%q", pt) {
						okType = true
					}
				}
			}
			c.Check(okType, "payload/content-type-written/"+fnName(g), "the payload content type written is envelope.MediaTypePayloadV1 (the one the verifier accepts)", site, "another content type is written next to the bytes stored at "+w.InstrPos(sk.Store))
		}
	}
	if n := len(c07SinkFns(writers)); n < 2 {
		c.Unk("payload/signers#count", "vacuity guard: two signers build the payload", "-", fmt.Sprintf("%d found", n))
	}
	// expiry
	for _, fn := range w.FuncsOfPkg("signer") {
		fi := w.Info(fn)
		for _, b := range fn.Blocks {
			for _, in := range b.Instrs {
				st, isSt := in.(*ssa.Store)
				if !isSt {
					continue
				}
				fa, isFa := st.Addr.(*ssa.FieldAddr)
				if !isFa {
					continue
				}
				switch fieldName(fa.X.Type(), fa.Field) {
				case "Expiry":
					if namedOf(fa.X.Type()) != "core/signature.SignRequest" {
						continue
					}
					d := desc(st.Val)
					ed := paramWhere(fn, hasField("ExpiryDuration")) + ".ExpiryDuration"
					// decided on the SSA value: directly SigningTime.Add(d) under the guard, or a variable computed ahead of the
					// request whose every origin is that sum (under the guard) or the zero time — see c07ExpiryValue
					okE, why := c07ExpiryValue(fi, st, fa, ed)
					c.Evals++
					c.Check(okE, "payload/expiry", "expiry = SigningTime.Add(ExpiryDuration) of the same request, set only when the duration is non-zero", w.InstrPos(st), fmt.Sprintf("value %s; guards %s; %s", d, summarizeLabels(fi.GuardsOf(st), 4), why))
				case "ExpiryDurationInSeconds":
					d := desc(st.Val)
					c.Check(d == "("+paramWhere(fn, hasField("ExpiryDuration"))+".ExpiryDuration / const:1000000000)", "payload/expiry-plugin", "the plugin request carries ExpiryDuration / time.Second", w.InstrPos(st), "value "+d)
				case "SigningScheme":
					if namedOf(fa.X.Type()) == "core/signature.SignRequest" {
						c.Check(desc(st.Val) == `const:"notary.x509"`, "payload/signing-scheme", "the local signer signs under scheme notary.x509", w.InstrPos(st), "value "+desc(st.Val))
					}
				}
			}
		}
	}
	// the two expiry clauses must have been decided somewhere: a signer that never writes the field signs without expiry whatever was requested
	for _, kw := range [][2]string{{"payload/expiry", "SignRequest.Expiry"}, {"payload/expiry-plugin", "GenerateEnvelopeRequest.ExpiryDurationInSeconds"}} {
		if _, seen := c.byKey[c.Prop+"/"+kw[0]]; !seen {
			c.Unk(kw[0], "anchor: the store into "+kw[1]+" in the signer package", "-", "the field is never written: the requested expiry duration is not carried into the signature")
		}
	}
	// blob digest algorithm at signing
	var gd *ssa.Function
	sAlg := "global:ngo/signer." + w.globalWhere("signer", isHashDigestMap)
	for _, fn := range w.FuncsOfPkg("signer") {
		for _, b := range fn.Blocks {
			for _, in := range b.Instrs {
				if lk, ok := in.(*ssa.Lookup); ok && desc(lk.X) == sAlg {
					gd = fn
					s := w.Summarize(fn, Mode{Kind: mErr})
					c.Evals += s.States
					c.SeenFn(fn.String())
					// the key spec parameter is identified by its type, not by its position: the lookup must be keyed by the hash of
					// the key spec the function was given, wherever in the parameter list it stands (none or several: undecidable here, "param:?")
					ksParam, nKs := "param:?", 0
					for _, p := range fn.Params {
						if t := namedOf(p.Type()); t == "core/internal/algorithm.KeySpec" || t == "core/signature.KeySpec" {
							ksParam = "param:" + p.Name()
							nKs++
						}
					}
					if nKs != 1 {
						ksParam = "param:?"
					}
					key := "call:(core/internal/algorithm.Algorithm).Hash(call:(core/internal/algorithm.KeySpec).SignatureAlgorithm(" + ksParam + "))"
					c.requireOnExits("payload/blob-digest-algorithm", fn, s.Exits, []Need{
						{Name: "lookup", What: "algorithms[keySpec.SignatureAlgorithm().Hash()] found", Subs: []string{"T(ok(" + sAlg + "[" + key + "]))"}},
						{Name: "generator", What: "descriptor generator applied to that digest algorithm", Subs: []string{"EQ(call:dyn:param:", "(" + sAlg + "[call:(core/internal/algorithm.Algorithm).Hash(call:(core/internal/algorithm.KeySpec).SignatureAlgorithm(", "#err,nil)"}},
					})
				}
			}
		}
	}
	if gd == nil {
		c.Unk("payload/blob-digest-algorithm", "anchor: the signer function that looks up the digest algorithm", "-", "not found")
	}
}

// c07Sanitiser: the descriptor sanitiser of internal/envelope, by its exported name or, failing that, by role.
func c07Sanitiser(w *World) *ssa.Function {
	san := w.Func("internal/envelope", "SanitizeTargetArtifact")
	if san == nil {
		// by role: func(Descriptor) Descriptor in internal/envelope
		for _, fn := range w.FuncsOfPkg("internal/envelope") {
			sig := fn.Signature
			if sig.Params().Len() == 1 && sig.Results().Len() == 1 && namedOf(sig.Params().At(0).Type()) == "ocispec.Descriptor" && namedOf(sig.Results().At(0).Type()) == "ocispec.Descriptor" {
				san = fn
			}
		}
	}
	return san
}

// ---- (e) blob descriptor ---------------------------------------------------

// c07BlobDescriptor: who invokes a BlobDescriptorGenerator and with what; the
// generator both wrappers build is the same function of the caller's options.
func c07BlobDescriptor(c *Ctx) {
	w := c.W
	// every invocation of a generator passes algorithms[<hash of the signature algorithm / key spec>]
	n := 0
	for _, fn := range w.Funcs {
		for _, ci := range allCalls(fn) {
			call, ok := ci.(*ssa.Call)
			if !ok || call.Call.IsInvoke() || staticCallee(call) != nil {
				continue
			}
			if namedOf(call.Call.Value.Type()) != "ngo.BlobDescriptorGenerator" {
				continue
			}
			n++
			c.Evals++
			c.SeenFn(fn.String())
			d := desc(call.Call.Args[0])
			ok2 := (strings.HasPrefix(d, "global:ngo/signer."+w.globalWhere("signer", isHashDigestMap)+"[") || strings.HasPrefix(d, "global:ngo/verifier."+w.globalWhere("verifier", isHashDigestMap)+"[")) &&
				strings.Contains(d, "call:(core/internal/algorithm.Algorithm).Hash(")
			c.Check(ok2, fmt.Sprintf("blob-descriptor/generator-call/%s", fnName(fn)), "who-may-call: a blob descriptor generator is invoked only with algorithms[hash bound to the signing key / signature algorithm] (signer and verifier derive the digest algorithm the same way)", w.InstrPos(call),
				"the generator is invoked with "+d)
		}
	}
	if n < 2 {
		c.Unk("blob-descriptor/generator-call#count", "vacuity guard: the signer and the verifier each invoke the generator", "-", fmt.Sprintf("%d invocations found", n))
	}
	// both wrappers build the generator from the caller's raw options with the same builder
	var builder *ssa.Function
	shapes := map[string]string{}
	for _, name := range []string{"SignBlob", "VerifyBlob"} {
		fn := w.Func("", name)
		if fn == nil {
			c.Unk("blob-descriptor/wrapper/"+name, "anchor: notation."+name, "-", "not found")
			continue
		}
		c.SeenFn(fn.String())
		found := false
		for _, ci := range allCalls(fn) {
			call, ok := ci.(*ssa.Call)
			if !ok {
				continue
			}
			g := staticCallee(call)
			if g == nil || !w.IsProductFn(g) || g.Signature.Results().Len() != 1 || namedOf(g.Signature.Results().At(0).Type()) != "ngo.BlobDescriptorGenerator" {
				continue
			}
			found = true
			if builder == nil {
				builder = g
			} else if builder != g {
				c.Bad("blob-descriptor/same-builder", "sibling agreement: SignBlob and VerifyBlob build the descriptor generator with the same function", w.InstrPos(call), "different builders: "+fnName(builder)+" vs "+fnName(g))
			}
			var parts []string
			for _, a := range call.Call.Args {
				d := desc(a)
				// normalise the options parameter name
				for _, p := range fn.Params {
					d = strings.ReplaceAll(d, "param:"+p.Name()+".BlobVerifierVerifyOptions.", "OPTS.")
					d = strings.ReplaceAll(d, "param:"+p.Name()+".", "OPTS.")
					d = strings.ReplaceAll(d, "param:"+p.Name(), "P:"+abbrev(p.Type().String()))
				}
				parts = append(parts, d)
			}
			shapes[name] = strings.Join(parts, " | ")
		}
		if !found {
			c.Bad("blob-descriptor/wrapper/"+name, "the wrapper builds its descriptor generator with the shared builder", w.FnPos(fn), "no call of a function returning BlobDescriptorGenerator")
		}
	}
	if len(shapes) == 2 {
		okShape := shapes["SignBlob"] == shapes["VerifyBlob"] && strings.Contains(shapes["SignBlob"], "OPTS.ContentMediaType") && strings.Contains(shapes["SignBlob"], "OPTS.UserMetadata")
		c.Check(okShape, "blob-descriptor/same-inputs", "sibling agreement: SignBlob and VerifyBlob hand the builder the same inputs — the reader, the caller's ContentMediaType and UserMetadata exactly as given (so the same option string signs and verifies)", w.FnPos(w.Func("", "SignBlob")),
			"SignBlob passes ["+shapes["SignBlob"]+"], VerifyBlob passes ["+shapes["VerifyBlob"]+"]")
	}
	if builder != nil {
		// the generator's closure: MediaType <- contentMediaType parameter, Digest <- digester.Digest(), Size <- io.Copy count; metadata added through the shared helper
		c.SeenFn(builder.String())
		// The generator is whatever function value the builder creates: a function literal capturing the builder's parameters, or
		// a method value bound to an object the builder fills from its parameters (c07Generators gives, for either, the body
		// and how a captured parameter reads inside it). A builder in which no generator body is found is not decided.
		gens := c07Generators(w, builder)
		if len(gens) == 0 {
			c.Unk("blob-descriptor/generator-body", "anchor: the function value the builder returns as descriptor generator (function literal or bound method)", w.FnPos(builder), "no function value is created in "+fnName(builder))
		}
		// every value the builder returns is one of these function values
		for _, b := range builder.Blocks {
			if r, ok := blockTerm(b).(*ssa.Return); ok && len(r.Results) == 1 {
				found := false
				for _, gen := range gens {
					if unwrap(r.Results[0]) == ssa.Value(gen.Made) {
						found = true
					}
				}
				if !found && len(gens) > 0 {
					c.Unk("blob-descriptor/generator-body", "anchor: the function value the builder returns as descriptor generator (function literal or bound method)", w.InstrPos(r), "the builder returns "+desc(r.Results[0])+", not a function value it creates")
				}
			}
		}
		for _, gen := range gens {
			cl := gen.Body
			c.SeenFn(cl.String())
			stored := map[string]string{}
			for _, b := range cl.Blocks {
				for _, in := range b.Instrs {
					if st, ok := in.(*ssa.Store); ok {
						if fa, ok := st.Addr.(*ssa.FieldAddr); ok && namedOf(fa.X.Type()) == "ocispec.Descriptor" {
							stored[fieldName(fa.X.Type(), fa.Field)] = desc(st.Val)
						}
					}
				}
			}
			mtFV := gen.Captured(func(t types.Type) bool { b, ok := t.Underlying().(*types.Basic); return ok && b.Kind() == types.String })
			rdFV := gen.Captured(func(t types.Type) bool { return t.String() == "io.Reader" })
			// the digest: Digester().Digest() after copying into Digester().Hash(), or NewDigest(alg, h) after copying into h = alg.Hash()
			okDigest := strings.HasPrefix(stored["Digest"], "call:invoke:digest.Digester.Digest(")
			if strings.HasPrefix(stored["Digest"], "call:digest.NewDigest(param:") {
				_, dargs := splitTopArgs(strings.TrimPrefix(stored["Digest"], "call:"))
				if len(dargs) == 2 && dargs[1] == "call:(digest.Algorithm).Hash("+dargs[0]+")" && strings.HasPrefix(stored["Size"], "call:io.Copy("+dargs[1]+",") {
					okDigest = true
				}
			}
			// Size: the count io.Copy returns for copying the builder's reader itself (not something derived from it) into the hash
			okSize := false
			if sz := stored["Size"]; strings.HasPrefix(sz, "call:io.Copy(") && strings.HasSuffix(sz, "#0") {
				_, cargs := splitTopArgs(strings.TrimSuffix(strings.TrimPrefix(sz, "call:"), "#0"))
				okSize = len(cargs) == 2 && cargs[1] == rdFV
			}
			okGen := stored["MediaType"] == mtFV && okDigest && okSize
			c.Check(okGen, "blob-descriptor/generator-body", "the generated descriptor is {MediaType: the given content media type, Digest: digest of the bytes read with the requested algorithm, Size: number of bytes read}", w.FnPos(cl), fmt.Sprintf("fields: %v (the builder's media type parameter reads as %s, its reader as %s)", stored, mtFV, rdFV))
			// the digester comes from the algorithm argument
			okAlg := false
			for _, ci := range allCalls(cl) {
				if call, ok := ci.(*ssa.Call); ok && (calleeName(call) == "(digest.Algorithm).Digester" || calleeName(call) == "(digest.Algorithm).Hash") {
					// the generator's own algorithm argument (a parameter of the body, not something read off a receiver)
					if p, isP := loadOrigin(unwrap(call.Call.Args[0])).(*ssa.Parameter); isP && p.Parent() == cl && namedOf(p.Type()) == "digest.Algorithm" {
						okAlg = true
					}
				}
			}
			c.Check(okAlg, "blob-descriptor/generator-algorithm", "the digester is created from the algorithm the generator was called with", w.FnPos(cl), "the digest algorithm argument is not used")
		}
	}
}

// freeVarOfParam returns "free:<name>" of the closure's free variable that is bound to the
// enclosing function's parameter (or its spill cell) whose type satisfies pred.
func freeVarOfParam(outer, cl *ssa.Function, pred func(types.Type) bool) string {
	for _, b := range outer.Blocks {
		for _, in := range b.Instrs {
			mc, ok := in.(*ssa.MakeClosure)
			if !ok || mc.Fn != ssa.Value(cl) {
				continue
			}
			for i, bd := range mc.Bindings {
				var p *ssa.Parameter
				switch x := bd.(type) {
				case *ssa.Parameter:
					p = x
				case *ssa.Alloc:
					if sv := onlyDirectStore(x); sv != nil {
						p, _ = sv.(*ssa.Parameter)
					}
				}
				if p != nil && pred(p.Type()) {
					return "free:" + cl.FreeVars[i].Name()
				}
			}
		}
	}
	return "free:?"
}
