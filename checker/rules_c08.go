package main

import (
	"fmt"
	"go/token"
	"go/types"
	"strings"

	"golang.org/x/tools/go/ssa"
)

func init() {
	register(&Rule{
		ID:    "C08",
		Title: "the policy statement applied is the one scoped to the artifact's repository",
		Run:   runC08,
		Explain: "Statements are followed by role and dataflow: a value denotes element i of the document's TrustPolicies (its address, the element loaded, or the range variable's copy); what is known about it is the set of branch facts between the point where that element is taken and the point where it is remembered / cloned (facts of one iteration), composed through boolean module helpers, predicate closures (captured variables replaced by their only value) and slices.IndexFunc. " +
			"A test of a held value against a constant — the answer of a module classifier (function, method, closure; an enumeration constant or one of several flags), a variable of the iteration that holds such an answer, constants or a flag — stands for the facts that held when the assignment executed last gave it that constant: the value is followed through the variables (phis) that hold it to the assignments, each judged where it is made (on-the-spot return, result variable, answer accumulated over a loop, answer of another classifier handed on, flag assigned from a condition); a variable that may still hold a value from before the current statement came to life, or a classifier that writes to what its parameters reach, is not followed. " +
			"A candidate may also be remembered by its position in the list (an integer variable, 'none' = a negative constant; also returned by a scan helper): the element at that position is the statement remembered, provided the document is not written between remembering and use. " +
			"(a) OCI selection: in the method or in the module helper it hands the document to, a statement (its clone, a pointer to it that is cloned before it is returned, or its position) becomes the exact candidate only under equality-membership (slices.Contains, an element compared with ==, slices.Index found) of a value derived from the reference in that statement's own registryScopes, the wildcard candidate only under membership of the constant '*'; " +
			"that value is reference[:LastIndex(reference,\"@\")] (LastIndexByte '@' alike), and every success exit of the method lies behind 'separator found' and 'format validated' for it; the loop has no early exit; " +
			"(b) precedence decided by abstract interpretation over the candidates ('none' / 'remembered', tagged exact or wildcard; the tag travels through phis, clones, element access by a remembered position, result tuples of scan helpers — one or both candidates, with or without an error — and helpers that pick among candidates), frame by frame up to the selection method: exact, else wildcard, else a nil statement with a non-nil error; " +
			"the verifier functions that select a statement — directly or through helpers that hand the (statement, error) pair on — let no success pass a failed selection, and the outermost function of each call chain turns the selection error into ErrorNoApplicableTrustPolicy (or returns unchanged the error of a helper that has already done so); " +
			"(c) blob selection: every statement a success exit can hand out is an element of the receiver's statements that satisfied Name == requested name (resp. its own global flag) when it was cloned; no success with nil or after an exhausted search (the edge on which the loop runs out of statements, as opposed to a break); the global statement is used iff no name is given (guards of calls inside verifier helpers are moved into the caller's frame); " +
			"(d) ownership: every statement handed out is the result of a clone (also through helpers); each clone shares no mutable storage with the document (every slice, map and pointer component, recursively through struct-valued fields, is freshly made or nil, also when a module copier helper makes the copy; a value-receiver clone that overwrites the reference-typed fields of its own copy counts, delegation to another clone method is judged there).",
		NotCov:  "the languages of the scope regular expressions; uniqueness of scopes is C09.",
		Trusted: []string{"go/types, go/ssa", "strings.LastIndex / strings.LastIndexByte", "slices.IndexFunc returns the first index whose element satisfies the predicate, or -1", "Go slice/map aliasing semantics"},
	})
}

func runC08(c *Ctx) {
	c08OCI(c)
	c08Blob(c)
	c08Clones(c)
	c08CallSites(c)
	c.MinCount("oci/selection-complete", 1, "completeness rule of the exact selection")
	c.MinCount("", 14, "selection obligations")
}

func hasRefComponents(t types.Type, depth int) bool {
	if depth > 6 {
		return true
	}
	switch u := t.Underlying().(type) {
	case *types.Basic:
		return false
	case *types.Slice, *types.Map, *types.Pointer, *types.Chan, *types.Signature, *types.Interface:
		return true
	case *types.Array:
		return hasRefComponents(u.Elem(), depth+1)
	case *types.Struct:
		for i := 0; i < u.NumFields(); i++ {
			if hasRefComponents(u.Field(i).Type(), depth+1) {
				return true
			}
		}
		return false
	}
	return true
}

// sharesNothing: value v (of type t) produced in fn shares no mutable storage
// with fn's inputs when control reaches ret.
func (w *World) sharesNothing(fn *ssa.Function, v ssa.Value, t types.Type, ret *ssa.Return, depth int) (bool, string) {
	if depth > 9 {
		return false, "too deep"
	}
	if !hasRefComponents(t, 0) {
		return true, ""
	}
	fi := w.Info(fn)
	// The copy is made by a module helper (a slice or map copier extracted from the clone): what the helper returns is
	// fresh if every one of its returns is — judged in the helper's own frame, for whatever argument it is given.
	// (Pointers are left to the delegation rule below, struct values to the struct case.)
	switch t.Underlying().(type) {
	case *types.Slice, *types.Map:
		if handled, ok, why := w.c08HelperFresh(v, t, depth); handled {
			return ok, why
		}
	}
	switch u := t.Underlying().(type) {
	case *types.Slice:
		switch x := v.(type) {
		case *ssa.Phi:
			for _, e := range x.Edges {
				if e == v {
					continue
				}
				if ok, why := w.sharesNothing(fn, e, t, ret, depth+1); !ok {
					return false, why
				}
			}
			return len(x.Edges) > 0, "empty phi"
		case *ssa.MakeSlice:
			return !hasRefComponents(u.Elem(), 0), "elements with references"
		case *ssa.Const:
			return x.IsNil(), "constant"
		case *ssa.Call:
			if bi, ok := x.Call.Value.(*ssa.Builtin); ok && bi.Name() == "append" {
				base := x.Call.Args[0]
				if isNilConst(base) {
					return !hasRefComponents(u.Elem(), 0), "elements with references"
				}
				if ms, ok := base.(*ssa.MakeSlice); ok {
					_ = ms
					return !hasRefComponents(u.Elem(), 0), "elements with references"
				}
			}
			if g := staticCallee(x); g != nil && (fnName(g) == "slices.Clone" || fnName(g) == "maps.Clone") {
				return !hasRefComponents(u.Elem(), 0), "elements with references"
			}
		}
		return false, "slice " + desc(v) + " is not freshly made (append(nil, x...), make) and aliases its source"
	case *types.Map:
		switch x := v.(type) {
		case *ssa.MakeMap:
			return !hasRefComponents(u.Elem(), 0), "elements with references"
		case *ssa.Const:
			return x.IsNil(), "constant"
		case *ssa.Phi:
			for _, e := range x.Edges {
				if ok, why := w.sharesNothing(fn, e, t, ret, depth+1); !ok {
					return false, why
				}
			}
			return true, ""
		case *ssa.Call:
			if g := staticCallee(x); g != nil && fnName(g) == "maps.Clone" {
				return !hasRefComponents(u.Elem(), 0), "elements with references"
			}
		}
		return false, "map " + desc(v) + " is not freshly made and aliases its source"
	case *types.Pointer:
		al, ok := v.(*ssa.Alloc)
		if !ok {
			// delegation: the result of another clone method of the same statement type shares nothing if that
			// method's result does — and that method is judged under its own clone/… obligation (this is also the
			// shape of the pointer-receiver wrapper the compiler generates for a value-receiver clone).
			if call, isCall := v.(*ssa.Call); isCall {
				if g := staticCallee(call); g != nil && g != fn && isCloneMethod(g) && types.Identical(g.Signature.Results().At(0).Type(), t) {
					return true, ""
				}
			}
			return false, "pointer " + desc(v) + " is not a fresh allocation"
		}
		return w.allocFieldsFresh(fn, al, u.Elem(), ret, depth+1)
	case *types.Struct:
		switch x := v.(type) {
		case *ssa.Call:
			g := staticCallee(x)
			if g == nil || g.Blocks == nil || !w.IsProductFn(g) {
				return false, "struct value from " + desc(v)
			}
			for _, b := range g.Blocks {
				if r, ok := blockTerm(b).(*ssa.Return); ok {
					if len(r.Results) != 1 {
						return false, "unexpected result arity"
					}
					if ok, why := w.sharesNothing(g, r.Results[0], t, r, depth+1); !ok {
						return false, fnName(g) + ": " + why
					}
				}
			}
			return true, ""
		case *ssa.UnOp:
			if x.Op == token.MUL {
				if al, ok := x.X.(*ssa.Alloc); ok {
					return w.allocFieldsFresh(fn, al, t, ret, depth+1)
				}
			}
		}
		_ = fi
		return false, "struct value " + desc(v) + " is copied by value and keeps its reference-typed fields"
	}
	return false, "unsupported type " + t.String()
}

// allocFieldsFresh: every reference-carrying field of the struct in al is, on
// every path from the entry to ret, either stored a fresh value or known nil.
func (w *World) allocFieldsFresh(fn *ssa.Function, al *ssa.Alloc, t types.Type, ret *ssa.Return, depth int) (bool, string) {
	st, ok := t.Underlying().(*types.Struct)
	if !ok {
		return false, "not a struct"
	}
	fi := w.Info(fn)
	// is the alloc initialised as a whole from another value?
	wholeInit := false
	for _, r := range *al.Referrers() {
		if s, ok := r.(*ssa.Store); ok && s.Addr == al {
			wholeInit = true
		}
	}
	for i := 0; i < st.NumFields(); i++ {
		ft := st.Field(i).Type()
		if !hasRefComponents(ft, 0) {
			continue
		}
		var storeBlocks []*ssa.BasicBlock
		for _, r := range *al.Referrers() {
			fa, ok := r.(*ssa.FieldAddr)
			if !ok || fa.Field != i {
				continue
			}
			for _, rr := range *fa.Referrers() {
				s, ok := rr.(*ssa.Store)
				if !ok || s.Addr != fa {
					if _, isLoad := rr.(*ssa.UnOp); !isLoad {
						if _, dbg := rr.(*ssa.DebugRef); !dbg {
							// the field address escapes or is a nested struct: look inside nested FieldAddr stores
							if nfa, ok := rr.(*ssa.FieldAddr); ok {
								_ = nfa
								return false, "nested field writes on " + st.Field(i).Name() + " not supported"
							}
						}
					}
					continue
				}
				if ok2, why := w.sharesNothing(fn, s.Val, ft, ret, depth+1); !ok2 {
					return false, "field " + st.Field(i).Name() + ": " + why
				}
				// the fresh value must not be overwritten by the copy of the whole source value: the whole-value
				// assignment comes first (same block: earlier; otherwise in a dominating block)
				for _, wr := range *al.Referrers() {
					if ws, ok := wr.(*ssa.Store); ok && ws.Addr == ssa.Value(al) {
						before := ws.Block() == s.Block() && instrIndex(ws) < instrIndex(s) || ws.Block() != s.Block() && ws.Block().Dominates(s.Block())
						if !before {
							return false, "field " + st.Field(i).Name() + " can be overwritten by the copy of the whole value after it was given a fresh value"
						}
					}
				}
				storeBlocks = append(storeBlocks, s.Block())
			}
		}
		if !wholeInit {
			continue // zero value unless stored; every store was checked
		}
		// paths that avoid all fresh stores must know the field is nil
		cut := map[edgeKey]bool{}
		for _, b := range storeBlocks {
			cutInto(fi, b, cut)
		}
		fd := desc(al) + "." + st.Field(i).Name()
		for e := range fi.edgesMatching(func(l string, _ *ssa.If, _ bool) bool {
			return l == "EQ("+fd+",nil)" || l == "EQ(len("+fd+"),const:0)"
		}) {
			cut[e] = true
		}
		if fi.reachHit(entryState(), cut, map[int]bool{ret.Block().Index: true}) || (ret.Block().Index == 0 && len(storeBlocks) == 0) {
			return false, "field " + st.Field(i).Name() + " keeps the source's " + ft.String() + " on some path"
		}
	}
	return true, ""
}

// isCloneMethod: a parameterless method (*T) -> *T on one of the two statement types.
func isCloneMethod(fn *ssa.Function) bool {
	sig := fn.Signature
	if sig.Recv() == nil || sig.Params().Len() != 0 || sig.Results().Len() != 1 || fn.Parent() != nil {
		return false
	}
	rt := sig.Results().At(0).Type()
	rn := namedOf(rt)
	if rn != namedOf(sig.Recv().Type()) {
		return false
	}
	if _, isPtr := rt.Underlying().(*types.Pointer); !isPtr {
		return false
	}
	return rn == "ngo/verifier/trustpolicy.OCITrustPolicy" || rn == "ngo/verifier/trustpolicy.BlobTrustPolicy"
}

func c08Clones(c *Ctx) {
	w := c.W
	n := 0
	for _, fn := range w.FuncsOfPkg("verifier/trustpolicy") {
		if !isCloneMethod(fn) {
			continue
		}
		rt := fn.Signature.Results().At(0).Type()
		n++
		c.SeenFn(fn.String())
		ok := true
		why := ""
		for _, b := range fn.Blocks {
			if r, isRet := blockTerm(b).(*ssa.Return); isRet {
				if o, y := w.sharesNothing(fn, r.Results[0], rt, r, 0); !o {
					ok, why = false, y
				}
			}
		}
		c.Evals++
		c.Check(ok, "clone/"+fnName(fn), "ownership (deep copy): the statement returned by the clone shares no slice, map or pointer with the policy document, recursively through struct-valued fields", w.FnPos(fn), why)
		// every field of the statement is carried over
		al := (*ssa.Alloc)(nil)
		for _, b := range fn.Blocks {
			if r, isRet := blockTerm(b).(*ssa.Return); isRet {
				al, _ = r.Results[0].(*ssa.Alloc)
			}
		}
		if al != nil {
			st := al.Type().Underlying().(*types.Pointer).Elem().Underlying().(*types.Struct)
			stored := map[string]string{}
			for _, r := range *al.Referrers() {
				if fa, ok := r.(*ssa.FieldAddr); ok {
					for _, rr := range *fa.Referrers() {
						if s, ok := rr.(*ssa.Store); ok && s.Addr == fa {
							stored[st.Field(fa.Field).Name()] = desc(s.Val)
							// a nested clone: a module call whose receiver/argument is the receiver's field of the same name
							if cc, isCall := s.Val.(*ssa.Call); isCall && staticCallee(cc) != nil && w.IsProductFn(staticCallee(cc)) {
								for _, a := range callArgs(cc) {
									stored[st.Field(fa.Field).Name()] += " <- " + desc(a)
								}
							}
						}
					}
				}
			}
			okAll := true
			missing := ""
			recv := "param:" + fn.Params[0].Name()
			whole := false
			for _, r := range *al.Referrers() {
				if s, ok := r.(*ssa.Store); ok && s.Addr == al && desc(s.Val) == recv {
					whole = true // cloned := *t
				}
			}
			for i := 0; i < st.NumFields(); i++ {
				f := st.Field(i).Name()
				if whole && stored[f] == "" {
					continue
				}
				if !strings.Contains(stored[f], recv+"."+f) && !(whole && strings.Contains(stored[f], desc(al)+"."+f)) {
					okAll = false
					missing += f + " "
				}
			}
			c.Check(okAll, "clone-complete/"+fnName(fn), "the clone carries over every field of the statement from the same field of its receiver", w.FnPos(fn), "fields not copied from the receiver's same field: "+missing)
		}
	}
	if n < 2 {
		c.Unk("clone#count", "vacuity guard: two clone methods (OCI and blob statements)", "-", fmt.Sprintf("%d found", n))
	}
}

// selectionFns returns the exported methods of the two document types that return a statement and an error: the
// selection API. (An unexported method of the same shape is a helper of these: it is followed from them.)
func selectionFns(w *World) []*ssa.Function {
	var out []*ssa.Function
	for _, fn := range w.FuncsOfPkg("verifier/trustpolicy") {
		sig := fn.Signature
		if sig.Recv() == nil || sig.Results().Len() != 2 || fn.Parent() != nil {
			continue
		}
		if obj := fn.Object(); obj == nil || !obj.Exported() {
			continue
		}
		rn := namedOf(sig.Results().At(0).Type())
		if (rn == "ngo/verifier/trustpolicy.OCITrustPolicy" || rn == "ngo/verifier/trustpolicy.BlobTrustPolicy") && isErrorType(sig.Results().At(1).Type()) {
			dn := namedOf(sig.Recv().Type())
			if dn == "ngo/verifier/trustpolicy.OCIDocument" || dn == "ngo/verifier/trustpolicy.BlobDocument" {
				out = append(out, fn)
			}
		}
	}
	return out
}

// c08ReturnsClones: every success exit returns a clone result. The value returned is followed through phis (nil edges
// say "nothing selected"), and through module helpers that hand a statement on (every statement such a helper
// returns must itself be a clone result): c08Resolver.resolve.
func c08ReturnsClones(c *Ctx, fn *ssa.Function) {
	w := c.W
	fi := w.Info(fn)
	ok := true
	detail := ""
	n := 0
	R := newC08Resolver(w)
	for _, b := range fn.Blocks {
		r, isRet := blockTerm(b).(*ssa.Return)
		if !isRet {
			continue
		}
		if cl, _, _, _ := fi.classify(r, state{b.Index, 0, -1}, Mode{Kind: mErr}); cl == clFail {
			continue
		}
		n++
		for _, alt := range R.resolve(fn, r.Results[0], b, 0, map[*ssa.Phi]bool{}) {
			if alt.Nil || alt.Cloned {
				continue
			}
			ok = false
			detail = "exit " + w.InstrPos(r) + " returns " + desc(r.Results[0])
			if alt.Other != "" {
				detail += " (" + trunc(alt.Other, 200) + ")"
			} else {
				detail += " (a statement of " + alt.Doc + " itself)"
			}
		}
	}
	c.Evals++
	c.Check(ok && n > 0, "returns-clone/"+fnName(fn), "ownership: every statement handed out by the selection function is the result of a clone (never a pointer into the document), also when it is handed on by a module helper", w.FnPos(fn), detail)
}

// c08Scan: the loop over the document's statements and the function it lives in: the selection method itself or a
// module function the method hands its receiver to (the search extracted into a helper). chain lists the calls from
// the selection method down to that function.
type c08Scan struct {
	Fn    *ssa.Function
	Loop  sliceLoop
	Chain []*ssa.Call
}

func c08FindScan(w *World, fn *ssa.Function, doc *ssa.Parameter, chain []*ssa.Call, depth int) *c08Scan {
	var found *c08Scan
	for _, sl := range sliceLoops(fn) {
		if desc(sl.X) == "param:"+doc.Name()+".TrustPolicies" {
			found = &c08Scan{Fn: fn, Loop: sl, Chain: chain}
		}
	}
	if found != nil || depth >= 3 {
		return found
	}
	for _, ci := range allCalls(fn) {
		call, ok := ci.(*ssa.Call)
		if !ok {
			continue
		}
		g := staticCallee(call)
		if g == nil || g.Blocks == nil || !w.IsProductFn(g) || isCloneMethod(g) || len(call.Call.Args) != len(g.Params) {
			continue
		}
		for i, a := range call.Call.Args {
			if a == ssa.Value(doc) {
				if s := c08FindScan(w, g, g.Params[i], append(append([]*ssa.Call(nil), chain...), call), depth+1); s != nil {
					return s
				}
			}
		}
	}
	return nil
}

// lift moves a label of the scanning function's frame into the frame of the selection method.
func (s *c08Scan) lift(l string) string {
	for i := len(s.Chain) - 1; i >= 0; i-- {
		call := s.Chain[i]
		g := staticCallee(call)
		var names, descs []string
		for k, p := range g.Params {
			names = append(names, p.Name())
			descs = append(descs, desc(call.Call.Args[k]))
		}
		l = substParams(l, names, descs)
	}
	return l
}

func c08OCI(c *Ctx) {
	w := c.W
	var SEL *ssa.Function
	for _, fn := range selectionFns(w) {
		if namedOf(fn.Signature.Recv().Type()) == "ngo/verifier/trustpolicy.OCIDocument" {
			SEL = fn
		}
	}
	if SEL == nil {
		c.Unk("oci/anchor", "anchor: the OCI document's selection method", "-", "not found")
		return
	}
	c.SeenFn(SEL.String())
	c08ReturnsClones(c, SEL)
	wc, _ := w.constString("internal/trustpolicy", "Wildcard")
	ref := "param:" + SEL.Params[1].Name()
	forms := c08PathForms(ref)
	c08Path(c, SEL, ref, forms)
	// the loop over the document's statements: in the selection method or in a module helper that receives the document
	scan := c08FindScan(w, SEL, SEL.Params[0], nil, 0)
	if scan == nil {
		c.Unk("oci/loop", "anchor: the loop over the document's statements", w.FnPos(SEL), "not found")
		return
	}
	LF, loop := scan.Fn, &scan.Loop
	c.SeenFn(LF.String())
	// no early exit
	lb := loopBlocks(loop.Header)
	single := true
	for bi := range lb {
		for _, s := range LF.Blocks[bi].Succs {
			if !lb[s.Index] && LF.Blocks[bi] != loop.Header {
				single = false
			}
		}
	}
	c.Check(single, "oci/no-early-exit", "the statement loop has no early exit (the result does not depend on statement order; a wildcard never stops the search for an exact match)", w.InstrPos(blockTerm(loop.Header)), "the loop can be left from inside its body")
	// Candidates: the loop-carried statement pointers. What is assigned to a candidate inside the loop — the clone of
	// the current statement or a pointer to it (cloned later, see returns-clone) — is judged at the point of
	// assignment with the facts of that iteration: the statement (STMT) must be an element of the document's list and
	// the assignment must lie behind the true edge of slices.Contains(STMT.RegistryScopes, x). Whether the test is
	// written inline, in a boolean helper (engine), in a classifier answering with an enumeration constant or a pair of
	// flags, or kept in a variable of the iteration before it is acted on (c08EdgeFacts / c08ValueIsFacts) makes no
	// difference: the fact is the same label in the loop's frame.
	wantDoc := "param:" + SEL.Params[0].Name() + ".TrustPolicies"
	R := newC08Resolver(w)
	var exactPhi, wildPhi *ssa.Phi
	nExact, nWild := 0, 0
	okGuards := true
	detail := ""
	exactArg := ""
	var exactS *c08Stmt
	for _, p := range headerPhis(loop.Header) {
		// A candidate is remembered as a statement pointer, or as the position of the statement in the list (an integer
		// variable that is not a loop counter and with which a slice is indexed later on): assigning position e
		// remembers element e of the list the loop runs over.
		byIndex := c08IsIndexVar(LF, p)
		if !c08IsStmtPtr(p.Type()) && !byIndex {
			continue
		}
		var alts []c08Alt
		for i, e := range p.Edges {
			pred := loop.Header.Preds[i]
			if !lb[pred.Index] || e == ssa.Value(p) {
				continue
			}
			if byIndex {
				edges := []c08IdxEdge{{e, pred}}
				if q, isPhi := e.(*ssa.Phi); isPhi && !c08IsInduction(q) {
					edges = c08IndexEdges(q, map[*ssa.Phi]bool{p: true})
				}
				for _, ie := range edges {
					if _, isK := ie.V.(*ssa.Const); isK {
						alts = append(alts, c08Alt{Nil: true})
					} else {
						alts = append(alts, R.stmtAlt(LF, c08StmtAtIndex(LF, loop.X, ie.V), ie.Pred))
					}
				}
				continue
			}
			alts = append(alts, R.resolve(LF, e, pred, 0, map[*ssa.Phi]bool{p: true})...)
		}
		if len(alts) == 0 {
			continue // not assigned in the loop
		}
		kinds := map[string]bool{}
		for _, alt := range alts {
			c.Evals++
			kind := ""
			switch {
			case alt.Nil:
				detail = "a candidate is reset to nil inside the loop"
			case alt.Other != "":
				detail = "the value assigned to a candidate is not a statement of the document: " + trunc(alt.Other, 200)
			case scan.lift(alt.Doc) != wantDoc:
				detail = "the candidate is an element of " + scan.lift(alt.Doc) + ", not of the document's statements"
			default:
				// the values known to be members of this statement's registryScopes (c08Membership: slices.Contains, an
				// element compared with ==, slices.Index found): exactly one, '*' or a value derived from the reference
				args := c08Membership(alt.Facts)
				for _, a := range args {
					arg := scan.lift(a)
					switch {
					case arg == fmt.Sprintf("const:%q", wc):
						kind = "wild"
					case !strings.HasPrefix(arg, "const:") && strings.Contains(arg, ref):
						kind = "exact"
						exactArg = arg
						if alt.S != nil && alt.SFn == LF {
							exactS = alt.S
						}
					}
				}
				if len(args) != 1 {
					kind = ""
				}
				if kind == "" {
					detail = "the candidate assigned at " + alt.Site + " is not guarded by membership of the repository path or of '*' in that statement's own registryScopes; guards: " + summarizeLabels(alt.Facts, 6)
				}
			}
			kinds[kind] = true
		}
		switch {
		case len(kinds) == 1 && kinds["exact"]:
			nExact++
			exactPhi = p
		case len(kinds) == 1 && kinds["wild"]:
			nWild++
			wildPhi = p
		default:
			okGuards = false
			if detail == "" {
				detail = "one candidate is assigned under different memberships"
			}
		}
	}
	c.Check(okGuards && nExact == 1 && nWild == 1 && exactPhi != nil && wildPhi != nil && exactPhi != wildPhi, "oci/selection-predicate",
		"a statement becomes the exact candidate only under slices.Contains(statement.RegistryScopes, repository path) and the wildcard candidate only under slices.Contains(statement.RegistryScopes, \"*\") (generic ==: no prefix, substring, case folding)", w.InstrPos(blockTerm(loop.Header)),
		fmt.Sprintf("exact=%d wildcard=%d %s", nExact, nWild, detail))
	// completeness of the exact selection (extra_c08.go): a statement that lists the repository path is never passed over
	c08SelectionComplete(c, scan, exactPhi, exactS, exactArg, fmt.Sprintf("const:%q", wc))
	// the value tested for exact membership is the repository path
	if exactArg != "" {
		okVal := false
		for _, f := range forms {
			if exactArg == f.Path {
				okVal = true
			}
		}
		c.Check(okVal, "oci/path/value", "the repository path (the value whose membership makes a statement the exact candidate) is the text before the last '@' of the reference", w.InstrPos(blockTerm(loop.Header)), "the value tested is "+trunc(exactArg, 300))
	} else {
		c.Unk("oci/path/value", "the repository path (the value whose membership makes a statement the exact candidate) is the text before the last '@' of the reference", w.FnPos(SEL), "no exact-membership test found")
	}
	// No success exit of the method bypasses the selection: every statement a success exit can hand out (followed
	// through the candidates, the deferred clone, the scan helper) is an element of the document's statements that
	// was remembered under membership of the repository path or of '*' in its own registryScopes; nil only where the
	// exit knows it is not nil.
	{
		s := w.Summarize(SEL, Mode{Kind: mErr})
		fiS := w.Info(SEL)
		okOnly := len(s.Exits) > 0
		why := ""
		R2 := newC08Resolver(w)
		want := map[string]bool{fmt.Sprintf("const:%q", wc): true}
		for _, f := range forms {
			want[f.Path] = true
		}
		for _, ex := range s.Exits {
			v, vb := c08ExitValue(ex, 0)
			nn := c08NonNilAt(fiS, v, vb)
			n := 0
			for _, alt := range R2.resolve(SEL, v, vb, 0, map[*ssa.Phi]bool{}) {
				c.Evals++
				switch {
				case alt.Nil:
					if !nn {
						okOnly, why = false, "the exit at "+w.InstrPos(ex.Ret)+" can succeed with a nil statement"
					}
				case alt.Other != "":
					okOnly, why = false, "the exit at "+w.InstrPos(ex.Ret)+" returns "+trunc(alt.Other, 200)
				default:
					n++
					has := false
					for _, a := range c08Membership(alt.Facts) {
						if want[a] {
							has = true
						}
					}
					if alt.Doc != wantDoc {
						okOnly, why = false, "the statement returned at "+w.InstrPos(ex.Ret)+" is an element of "+alt.Doc+", not of the document's statements"
					} else if !has {
						okOnly, why = false, "the statement returned at "+w.InstrPos(ex.Ret)+" (taken at "+alt.Site+") was not selected by membership; facts: "+summarizeLabels(alt.Facts, 6)
					}
				}
			}
			if n == 0 && okOnly {
				okOnly, why = false, "the exit at "+w.InstrPos(ex.Ret)+" hands out no statement of the document"
			}
		}
		c.Check(okOnly, "oci/selected-only", "no success exit bypasses the selection: every statement the method can hand out is a statement of the document whose own registryScopes contain the repository path or '*'", w.FnPos(SEL), why)
	}
	// (b) precedence by abstract interpretation
	if exactPhi != nil && wildPhi != nil {
		c08Precedence(c, SEL, scan, exactPhi, wildPhi)
	} else {
		c.Unk("oci/precedence", "finite decision table (abstract interpretation over candidate nil-ness): exact match, else wildcard, else a non-nil error with a nil statement", w.InstrPos(blockTerm(loop.Exit)), "the exact and the wildcard candidate were not identified")
	}
}

// c08Precedence: finite decision table over the two candidates when the loop is left: each is "nothing remembered"
// (nil, resp. the initial constant of an index variable) or "a statement remembered". The scanning function is
// interpreted abstractly from the loop exit to its returns, then — when the scan lives in a helper — the calling frames
// from the helper call on with the call's results bound to what the helper returned, up to the selection method
// (c08Prec in extra_c08.go: candidates carry a tag through phis, clones, element access by a remembered index, tuple
// results and module helpers that pick among them). Every abstract path must end as specified: the exact candidate if
// there is one, else the wildcard candidate, else a nil statement with a non-nil error.
func c08Precedence(c *Ctx, SEL *ssa.Function, scan *c08Scan, exactPhi, wildPhi *ssa.Phi) {
	w := c.W
	LF, loop := scan.Fn, &scan.Loop
	rule := "finite decision table (abstract interpretation over candidate nil-ness): exact match, else wildcard, else a non-nil error with a nil statement"
	site := w.InstrPos(blockTerm(loop.Exit))
	frames := []*ssa.Function{SEL}
	for _, call := range scan.Chain {
		frames = append(frames, staticCallee(call))
	}
	P := newC08Prec(w)
	okP := true
	var bad []string
	for _, ex := range []bool{false, true} {
		for _, wi := range []bool{false, true} {
			var want string
			switch {
			case ex:
				want = "exact"
			case wi:
				want = "wildcard"
			default:
				want = "error"
			}
			ea, ok1 := P.candidate(LF, loop, exactPhi, ex, "exact")
			wa, ok2 := P.candidate(LF, loop, wildPhi, wi, "wildcard")
			if !ok1 || !ok2 {
				c.Unk("oci/precedence", rule, site, "a candidate does not start as nil / as a constant that is no position")
				return
			}
			tuples := P.run(LF, loop.Exit, loop.Header, map[ssa.Value]AVal{exactPhi: ea, wildPhi: wa})
			for lvl := len(scan.Chain) - 1; lvl >= 0; lvl-- {
				var next [][]AVal
				for _, t := range tuples {
					next = append(next, P.run(frames[lvl], scan.Chain[lvl].Block(), nil, P.bindCall(scan.Chain[lvl], t))...)
				}
				tuples = c08DedupTuples(next)
			}
			if len(tuples) == 0 {
				okP = false
				bad = append(bad, "no path")
			}
			for _, t := range tuples {
				if got := c08Judge(t); got != want {
					okP = false
					bad = append(bad, fmt.Sprintf("exact %s, wildcard %s: returns %s, specified %s", c08Some(ex), c08Some(wi), got, want))
				}
			}
		}
	}
	c.Evals += P.steps
	c.Check(okP, "oci/precedence", rule, site, strings.Join(uniq(bad), "; "))
}

// c08Path: the selection method succeeds only for a reference that has a '@' and whose text before the last '@' passes
// the scope format validator. The facts are required on the method's success exits (the engine composes them through
// an extraction helper, so the helper may be inlined or kept); when a helper (string) -> (string, error) extracts the
// path, its error must be nil as well.
func c08Path(c *Ctx, SEL *ssa.Function, ref string, forms []c08PathForm) {
	w := c.W
	var pathCall *ssa.Call
	for _, ci := range allCalls(SEL) {
		if call, ok := ci.(*ssa.Call); ok {
			if g := staticCallee(call); g != nil && w.IsProductFn(g) && len(call.Call.Args) == 1 && desc(call.Call.Args[0]) == ref && g.Signature.Results().Len() == 2 && g.Signature.Results().At(0).Type().String() == "string" && isErrorType(g.Signature.Results().At(1).Type()) {
				pathCall = call
			}
		}
	}
	var sepAlt, fmtAlt [][]string
	for _, f := range forms {
		sepAlt = append(sepAlt, []string{"GE(" + f.Idx + ",const:0)"}, []string{"GT(" + f.Idx + ",const:-1)"}, []string{"NE(" + f.Idx + ",const:-1)"})
		fmtAlt = append(fmtAlt, []string{"EQ(call:ngo/verifier/trustpolicy.", "(" + f.Path + ")#err,nil)"})
	}
	s := w.Summarize(SEL, Mode{Kind: mErr})
	c.Evals += s.States
	needs := []Need{
		{Name: "separator-found", What: "strings.LastIndex(reference, \"@\") >= 0", Alt: sepAlt},
		{Name: "format-validated", What: "the extracted path passes the scope format validator", Alt: fmtAlt},
	}
	if pathCall != nil {
		needs = append(needs, Need{Name: "path-error", What: "repository path extraction err == nil", Subs: []string{"EQ(" + desc(pathCall) + "#err,nil)"}})
	}
	c.requireOnExits("oci/path", SEL, s.Exits, needs)
	if pathCall == nil {
		c.OK("oci/path/path-error", "must-check: repository path extraction err == nil (no extraction helper with an error result in "+fnName(SEL)+": the separator and format checks are required on the method itself)", w.FnPos(SEL))
	}
}

func c08Blob(c *Ctx) {
	w := c.W
	n := 0
	for _, fn := range selectionFns(w) {
		if namedOf(fn.Signature.Recv().Type()) != "ngo/verifier/trustpolicy.BlobDocument" {
			continue
		}
		n++
		c.SeenFn(fn.String())
		c08ReturnsClones(c, fn)
		fi := w.Info(fn)
		s := w.Summarize(fn, Mode{Kind: mErr})
		c.Evals += s.States
		// Every success exit hands out a statement; the value is resolved to the statement(s) it can be the clone of
		// (through helpers, predicate closures, slices.IndexFunc). Each must be an element of the receiver's
		// statements and carry the selecting fact — about that very statement, in the iteration / at the index it was
		// taken from — when it is cloned: Name == requested name (string ==), resp. its own GlobalPolicy flag.
		wantDoc := "param:" + fn.Params[0].Name() + ".TrustPolicies"
		byName := fn.Signature.Params().Len() == 1
		var wantFacts []string
		if byName {
			for _, pn := range c08ParamForms(fn, fn.Params[1]) {
				wantFacts = append(wantFacts, "EQ("+c08STMT+".Name,"+pn+")", "EQ("+pn+","+c08STMT+".Name)")
			}
		} else {
			wantFacts = []string{"T(" + c08STMT + ".GlobalPolicy)"}
		}
		R := newC08Resolver(w)
		R.frames[fn] = true
		okSel, okFound := len(s.Exits) > 0, len(s.Exits) > 0
		whySel, whyFound := "", ""
		if len(s.Exits) == 0 {
			whySel, whyFound = "no success exit", "no success exit"
		}
		for _, ex := range s.Exits {
			v, vb := c08ExitValue(ex, 0)
			nn := c08NonNilAt(fi, v, vb)
			nStmt := 0
			for _, alt := range R.resolve(fn, v, vb, 0, map[*ssa.Phi]bool{}) {
				c.Evals++
				switch {
				case alt.Nil:
					if !nn {
						okFound = false
						whyFound = "the exit at " + w.InstrPos(ex.Ret) + " can succeed with a nil statement"
					}
				case alt.Other != "":
					okSel, okFound = false, false
					whySel = "the exit at " + w.InstrPos(ex.Ret) + " returns " + trunc(alt.Other, 200)
					whyFound = whySel
				default:
					nStmt++
					has := false
					for _, f := range wantFacts {
						if _, ok := alt.Facts[f]; ok {
							has = true
						}
					}
					switch {
					case alt.Doc != wantDoc:
						okSel = false
						whySel = "the statement returned at " + w.InstrPos(ex.Ret) + " is an element of " + alt.Doc + ", not of the document's statements"
					case len(alt.Dyn) > 0:
						okSel = false
						whySel = "selected by a predicate that is not resolved"
					case !has:
						okSel = false
						whySel = "the statement returned at " + w.InstrPos(ex.Ret) + " is cloned without that fact; facts: " + summarizeLabels(alt.Facts, 6)
					}
				}
			}
			if nStmt == 0 {
				okSel, okFound = false, false
				if whySel == "" {
					whySel = "the exit at " + w.InstrPos(ex.Ret) + " hands out no statement of the document"
				}
				if whyFound == "" {
					whyFound = whySel
				}
			}
		}
		if byName {
			c.Check(okSel, "blob/by-name", "blob selection by name: a statement is returned only under statement.Name == requested name (string equality), and it is that statement", w.FnPos(fn), "a statement can be returned without exact name equality: "+whySel)
		} else {
			c.Check(okSel, "blob/global", "global selection: a statement is returned only if its own globalPolicy flag is set", w.FnPos(fn), "a statement can be returned without the global flag: "+whySel)
		}
		// not found => error: no success exit hands out nil or anything but a selected statement (above), and where
		// the search is a loop (in the method or in the helper it delegates to), nothing succeeds / no statement is
		// handed out once the loop has run out of statements.
		var wit []string
		site := w.FnPos(fn)
		for _, g := range w.Funcs {
			if !R.frames[g] {
				continue
			}
			for _, sl := range sliceLoops(g) {
				if g != fn && !strings.HasSuffix(desc(sl.X), ".TrustPolicies") {
					continue
				}
				if g == fn {
					site = w.InstrPos(blockTerm(sl.Header))
				}
				if ok, wt := c08AfterSearchFails(w, g, sl); !ok {
					okFound = false
					whyFound = "success after an unsuccessful search in " + fnName(g)
					wit = wt
				}
			}
		}
		c.Check(okFound, "blob/not-found/"+fnName(fn), "when no statement matches the selection fails", site, whyFound, wit...)
	}
	if n < 2 {
		c.Unk("blob#count", "vacuity guard: two blob selection methods", "-", fmt.Sprintf("%d found", n))
	}
}

// c08CallSites: in the verifier, selection errors become ErrorNoApplicableTrustPolicy; global iff no name.
//
// The selection may be called directly or through verifier helpers that hand the (statement, error) pair on
// (c08SelLike): a call of such a helper is a selection call of its caller. Every function with selection calls must let
// no success pass a failed selection; the conversion of the error and the global-iff-no-name decision are owed by the
// outermost function of each call chain (the helper's own failure is the selection error its callers see; the guards
// of the calls inside a helper are moved into the caller's frame with the helper's parameters replaced by the caller's
// arguments).
func c08CallSites(c *Ctx) {
	w := c.W
	S := c08SelLike(w)
	n := 0
	for _, fn := range w.FuncsOfPkg("verifier") {
		calls := S.calls[fn]
		if len(calls) == 0 {
			continue
		}
		fi := w.Info(fn)
		n++
		c.SeenFn(fn.String())
		var errDescs []string
		for _, call := range calls {
			errDescs = append(errDescs, descTailErr(call))
		}
		// a selection error surfaces as ErrorNoApplicableTrustPolicy:
		//  - converted here: an exit behind `selection err != nil` returns the error type; or
		//  - this function is a selection helper (its callers are judged for its error in turn), or the helper it
		//    called has already converted (every failing exit of that helper returns the error type) and this function
		//    returns that very error value behind `err != nil`.
		okErr := false
		how := "the selection error is not converted"
		for _, b := range fn.Blocks {
			r, isRet := blockTerm(b).(*ssa.Return)
			if !isRet || len(r.Results) == 0 {
				continue
			}
			ev := r.Results[len(r.Results)-1]
			g, _ := fi.mustPassBetween([]int{0}, map[int]bool{b.Index: true})
			behind := false
			for l := range g {
				if c08ErrLabel(l, "NE", errDescs) {
					behind = true
				}
			}
			if !behind {
				continue
			}
			if c08IsNoApplicable(w, ev, 0) {
				okErr = true
			}
			if ex, ok := ev.(*ssa.Extract); ok {
				if call, ok := ex.Tuple.(*ssa.Call); ok && S.converts(w, staticCallee(call)) && c08ErrLabel("NE("+desc(ex)+",nil)", "NE", errDescs) {
					okErr = true // the helper's error is ErrorNoApplicableTrustPolicy already and is returned as it is
				}
			}
		}
		if !okErr && S.helper[fn] {
			if len(S.callers[fn]) > 0 {
				okErr = true // owed by the callers, each of which is judged for the call of this helper
			} else {
				how = "a selection helper that converts nothing and has no caller in the verifier"
			}
		}
		c.Evals++
		c.Check(okErr, "callsite/no-applicable-policy/"+fnName(fn), "a selection error surfaces as ErrorNoApplicableTrustPolicy", w.FnPos(fn), how)
		// success requires the selection to succeed
		s := w.Summarize(fn, Mode{Kind: mErr})
		okSucc := len(s.Exits) > 0
		for _, ex := range s.Exits {
			h := false
			for l := range ex.Checked {
				if c08ErrLabel(l, "EQ", errDescs) {
					h = true
				}
			}
			if !h {
				okSucc = false
			}
		}
		var wit []string
		if !okSucc {
			// the same clause decided on paths instead of per exit (the error is tested separately after each of several
			// selection calls, so no single test lies on every path): with every `selection err == nil` edge removed,
			// no success exit can be reached from the entry
			cut := fi.edgesMatching(func(l string, _ *ssa.If, _ bool) bool { return c08ErrLabel(l, "EQ", errDescs) })
			if len(cut) > 0 {
				wit = fi.successWitness(Mode{Kind: mErr}, entryState(), cut)
				okSucc = wit == nil
			}
		}
		c.Check(okSucc, "callsite/selection-required/"+fnName(fn), "must-check: no success without a successfully selected statement", w.FnPos(fn), "success possible after a failed selection", wit...)
		if S.helper[fn] && len(S.callers[fn]) > 0 {
			continue // global iff no name: decided in the callers' frames
		}
		var leaves []c08Leaf
		isBlob := false
		for _, call := range calls {
			for _, lf := range S.leaves(w, fn, call, 0) {
				leaves = append(leaves, lf)
				if lf.Fn == nil || namedOf(lf.Fn.Signature.Recv().Type()) == "ngo/verifier/trustpolicy.BlobDocument" {
					isBlob = true
				}
			}
		}
		if isBlob {
			// blob: global iff no name
			ok := true
			tpn := paramWhere(fn, hasField("TrustPolicyName")) + ".TrustPolicyName"
			for _, lf := range leaves {
				if lf.Fn == nil {
					ok = false // a call chain the rule does not follow
					continue
				}
				_, eq := lf.Guards[`EQ(`+tpn+`,const:"")`]
				_, ne := lf.Guards[`NE(`+tpn+`,const:"")`]
				if _, h := lf.Guards[`EQ(len(`+tpn+`),const:0)`]; h {
					eq = true // a string is empty iff its length is 0
				}
				if _, h := lf.Guards[`NE(len(`+tpn+`),const:0)`]; h {
					ne = true
				}
				isGlobal := lf.Fn.Signature.Params().Len() == 0
				if isGlobal && !eq {
					ok = false
				}
				if !isGlobal && (!ne || len(lf.Args) < 2 || lf.Args[1] != tpn) {
					ok = false
				}
			}
			c.Check(ok, "callsite/global-iff-no-name", "the global statement is selected iff the caller gave no policy name; otherwise the statement with exactly the requested name", w.FnPos(fn), "the choice between global and named selection is not decided by TrustPolicyName == \"\"")
		}
	}
	if n < 3 {
		c.Unk("callsite#count", "vacuity guard: three verifier functions select a statement", "-", fmt.Sprintf("%d found", n))
	}
}
