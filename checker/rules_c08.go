package main

import (
	"fmt"
	"go/token"
	"go/types"
	"strings"

	"golang.org/x/tools/go/ssa"
)

func init() {
	register(&Rule{
		ID:    "C08",
		Title: "the policy statement applied is the one scoped to the artifact's repository",
		Run:   runC08,
		Explain: "(a) OCI selection: the exact candidate is assigned only under equality-membership (internal/slices.Contains, generic ==) of the repository path in the statement's own registryScopes, the wildcard candidate only under membership of the constant '*'; " +
			"the repository path is reference[:LastIndex(reference,\"@\")] with -1 fail-closed and the format validated; the loop has no early exit; " +
			"(b) precedence decided by abstract interpretation over candidate nil-ness: exact, else wildcard, else a non-nil error; the three verifier call sites turn a selection error into ErrorNoApplicableTrustPolicy; " +
			"(c) blob selection: exact name equality, global flag, not-found fail-closed; the global statement is used iff no name is given; " +
			"(d) ownership: every statement handed out is the result of a clone; each clone shares no mutable storage with the document (every slice, map and pointer component, recursively through struct-valued fields, is freshly made or nil).",
		NotCov:  "the languages of the scope regular expressions; uniqueness of scopes is C09.",
		Trusted: []string{"go/types, go/ssa", "strings.LastIndex", "Go slice/map aliasing semantics"},
	})
}

func runC08(c *Ctx) {
	c08OCI(c)
	c08Blob(c)
	c08Clones(c)
	c08CallSites(c)
	c.MinCount("", 14, "selection obligations")
}

func hasRefComponents(t types.Type, depth int) bool {
	if depth > 6 {
		return true
	}
	switch u := t.Underlying().(type) {
	case *types.Basic:
		return false
	case *types.Slice, *types.Map, *types.Pointer, *types.Chan, *types.Signature, *types.Interface:
		return true
	case *types.Array:
		return hasRefComponents(u.Elem(), depth+1)
	case *types.Struct:
		for i := 0; i < u.NumFields(); i++ {
			if hasRefComponents(u.Field(i).Type(), depth+1) {
				return true
			}
		}
		return false
	}
	return true
}

// sharesNothing: value v (of type t) produced in fn shares no mutable storage
// with fn's inputs when control reaches ret.
func (w *World) sharesNothing(fn *ssa.Function, v ssa.Value, t types.Type, ret *ssa.Return, depth int) (bool, string) {
	if depth > 5 {
		return false, "too deep"
	}
	if !hasRefComponents(t, 0) {
		return true, ""
	}
	fi := w.Info(fn)
	switch u := t.Underlying().(type) {
	case *types.Slice:
		switch x := v.(type) {
		case *ssa.MakeSlice:
			return !hasRefComponents(u.Elem(), 0), "elements with references"
		case *ssa.Const:
			return x.IsNil(), "constant"
		case *ssa.Call:
			if bi, ok := x.Call.Value.(*ssa.Builtin); ok && bi.Name() == "append" {
				base := x.Call.Args[0]
				if isNilConst(base) {
					return !hasRefComponents(u.Elem(), 0), "elements with references"
				}
				if ms, ok := base.(*ssa.MakeSlice); ok {
					_ = ms
					return !hasRefComponents(u.Elem(), 0), "elements with references"
				}
			}
			if g := staticCallee(x); g != nil && (fnName(g) == "slices.Clone" || fnName(g) == "maps.Clone") {
				return !hasRefComponents(u.Elem(), 0), "elements with references"
			}
		}
		return false, "slice " + desc(v) + " is not freshly made (append(nil, x...), make) and aliases its source"
	case *types.Map:
		switch x := v.(type) {
		case *ssa.MakeMap:
			return !hasRefComponents(u.Elem(), 0), "elements with references"
		case *ssa.Const:
			return x.IsNil(), "constant"
		case *ssa.Phi:
			for _, e := range x.Edges {
				if ok, why := w.sharesNothing(fn, e, t, ret, depth+1); !ok {
					return false, why
				}
			}
			return true, ""
		case *ssa.Call:
			if g := staticCallee(x); g != nil && fnName(g) == "maps.Clone" {
				return !hasRefComponents(u.Elem(), 0), "elements with references"
			}
		}
		return false, "map " + desc(v) + " is not freshly made and aliases its source"
	case *types.Pointer:
		al, ok := v.(*ssa.Alloc)
		if !ok {
			return false, "pointer " + desc(v) + " is not a fresh allocation"
		}
		return w.allocFieldsFresh(fn, al, u.Elem(), ret, depth+1)
	case *types.Struct:
		switch x := v.(type) {
		case *ssa.Call:
			g := staticCallee(x)
			if g == nil || g.Blocks == nil || !w.IsProductFn(g) {
				return false, "struct value from " + desc(v)
			}
			for _, b := range g.Blocks {
				if r, ok := blockTerm(b).(*ssa.Return); ok {
					if len(r.Results) != 1 {
						return false, "unexpected result arity"
					}
					if ok, why := w.sharesNothing(g, r.Results[0], t, r, depth+1); !ok {
						return false, fnName(g) + ": " + why
					}
				}
			}
			return true, ""
		case *ssa.UnOp:
			if x.Op == token.MUL {
				if al, ok := x.X.(*ssa.Alloc); ok {
					return w.allocFieldsFresh(fn, al, t, ret, depth+1)
				}
			}
		}
		_ = fi
		return false, "struct value " + desc(v) + " is copied by value and keeps its reference-typed fields"
	}
	return false, "unsupported type " + t.String()
}

// allocFieldsFresh: every reference-carrying field of the struct in al is, on
// every path from the entry to ret, either stored a fresh value or known nil.
func (w *World) allocFieldsFresh(fn *ssa.Function, al *ssa.Alloc, t types.Type, ret *ssa.Return, depth int) (bool, string) {
	st, ok := t.Underlying().(*types.Struct)
	if !ok {
		return false, "not a struct"
	}
	fi := w.Info(fn)
	// is the alloc initialised as a whole from another value?
	wholeInit := false
	for _, r := range *al.Referrers() {
		if s, ok := r.(*ssa.Store); ok && s.Addr == al {
			wholeInit = true
		}
	}
	for i := 0; i < st.NumFields(); i++ {
		ft := st.Field(i).Type()
		if !hasRefComponents(ft, 0) {
			continue
		}
		var storeBlocks []*ssa.BasicBlock
		for _, r := range *al.Referrers() {
			fa, ok := r.(*ssa.FieldAddr)
			if !ok || fa.Field != i {
				continue
			}
			for _, rr := range *fa.Referrers() {
				s, ok := rr.(*ssa.Store)
				if !ok || s.Addr != fa {
					if _, isLoad := rr.(*ssa.UnOp); !isLoad {
						if _, dbg := rr.(*ssa.DebugRef); !dbg {
							// the field address escapes or is a nested struct: look inside nested FieldAddr stores
							if nfa, ok := rr.(*ssa.FieldAddr); ok {
								_ = nfa
								return false, "nested field writes on " + st.Field(i).Name() + " not supported"
							}
						}
					}
					continue
				}
				if ok2, why := w.sharesNothing(fn, s.Val, ft, ret, depth+1); !ok2 {
					return false, "field " + st.Field(i).Name() + ": " + why
				}
				storeBlocks = append(storeBlocks, s.Block())
			}
		}
		if !wholeInit {
			continue // zero value unless stored; every store was checked
		}
		// paths that avoid all fresh stores must know the field is nil
		cut := map[edgeKey]bool{}
		for _, b := range storeBlocks {
			cutInto(fi, b, cut)
		}
		fd := desc(al) + "." + st.Field(i).Name()
		for e := range fi.edgesMatching(func(l string, _ *ssa.If, _ bool) bool {
			return l == "EQ("+fd+",nil)" || l == "EQ(len("+fd+"),const:0)"
		}) {
			cut[e] = true
		}
		if fi.reachHit(entryState(), cut, map[int]bool{ret.Block().Index: true}) || (ret.Block().Index == 0 && len(storeBlocks) == 0) {
			return false, "field " + st.Field(i).Name() + " keeps the source's " + ft.String() + " on some path"
		}
	}
	return true, ""
}

// isCloneMethod: a parameterless method (*T) -> *T on one of the two statement types.
func isCloneMethod(fn *ssa.Function) bool {
	sig := fn.Signature
	if sig.Recv() == nil || sig.Params().Len() != 0 || sig.Results().Len() != 1 || fn.Parent() != nil {
		return false
	}
	rt := sig.Results().At(0).Type()
	rn := namedOf(rt)
	if rn != namedOf(sig.Recv().Type()) {
		return false
	}
	if _, isPtr := rt.Underlying().(*types.Pointer); !isPtr {
		return false
	}
	return rn == "ngo/verifier/trustpolicy.OCITrustPolicy" || rn == "ngo/verifier/trustpolicy.BlobTrustPolicy"
}

func c08Clones(c *Ctx) {
	w := c.W
	n := 0
	for _, fn := range w.FuncsOfPkg("verifier/trustpolicy") {
		if !isCloneMethod(fn) {
			continue
		}
		rt := fn.Signature.Results().At(0).Type()
		n++
		c.SeenFn(fn.String())
		ok := true
		why := ""
		for _, b := range fn.Blocks {
			if r, isRet := blockTerm(b).(*ssa.Return); isRet {
				if o, y := w.sharesNothing(fn, r.Results[0], rt, r, 0); !o {
					ok, why = false, y
				}
			}
		}
		c.Evals++
		c.Check(ok, "clone/"+fnName(fn), "ownership (deep copy): the statement returned by the clone shares no slice, map or pointer with the policy document, recursively through struct-valued fields", w.FnPos(fn), why)
		// every field of the statement is carried over
		al := (*ssa.Alloc)(nil)
		for _, b := range fn.Blocks {
			if r, isRet := blockTerm(b).(*ssa.Return); isRet {
				al, _ = r.Results[0].(*ssa.Alloc)
			}
		}
		if al != nil {
			st := al.Type().Underlying().(*types.Pointer).Elem().Underlying().(*types.Struct)
			stored := map[string]string{}
			for _, r := range *al.Referrers() {
				if fa, ok := r.(*ssa.FieldAddr); ok {
					for _, rr := range *fa.Referrers() {
						if s, ok := rr.(*ssa.Store); ok && s.Addr == fa {
							stored[st.Field(fa.Field).Name()] = desc(s.Val)
							// a nested clone: a module call whose receiver/argument is the receiver's field of the same name
							if cc, isCall := s.Val.(*ssa.Call); isCall && staticCallee(cc) != nil && w.IsProductFn(staticCallee(cc)) {
								for _, a := range callArgs(cc) {
									stored[st.Field(fa.Field).Name()] += " <- " + desc(a)
								}
							}
						}
					}
				}
			}
			okAll := true
			missing := ""
			recv := "param:" + fn.Params[0].Name()
			whole := false
			for _, r := range *al.Referrers() {
				if s, ok := r.(*ssa.Store); ok && s.Addr == al && desc(s.Val) == recv {
					whole = true // cloned := *t
				}
			}
			for i := 0; i < st.NumFields(); i++ {
				f := st.Field(i).Name()
				if whole && stored[f] == "" {
					continue
				}
				if !strings.Contains(stored[f], recv+"."+f) && !(whole && strings.Contains(stored[f], desc(al)+"."+f)) {
					okAll = false
					missing += f + " "
				}
			}
			c.Check(okAll, "clone-complete/"+fnName(fn), "the clone carries over every field of the statement from the same field of its receiver", w.FnPos(fn), "fields not copied from the receiver's same field: "+missing)
		}
	}
	if n < 2 {
		c.Unk("clone#count", "vacuity guard: two clone methods (OCI and blob statements)", "-", fmt.Sprintf("%d found", n))
	}
}

// selectionFns returns the methods of the two document types that return a statement and an error.
func selectionFns(w *World) []*ssa.Function {
	var out []*ssa.Function
	for _, fn := range w.FuncsOfPkg("verifier/trustpolicy") {
		sig := fn.Signature
		if sig.Recv() == nil || sig.Results().Len() != 2 || fn.Parent() != nil {
			continue
		}
		rn := namedOf(sig.Results().At(0).Type())
		if (rn == "ngo/verifier/trustpolicy.OCITrustPolicy" || rn == "ngo/verifier/trustpolicy.BlobTrustPolicy") && isErrorType(sig.Results().At(1).Type()) {
			dn := namedOf(sig.Recv().Type())
			if dn == "ngo/verifier/trustpolicy.OCIDocument" || dn == "ngo/verifier/trustpolicy.BlobDocument" {
				out = append(out, fn)
			}
		}
	}
	return out
}

// returnsOnlyClones: every success exit returns a clone result (or a phi of clone results and nil that is known non-nil).
func c08ReturnsClones(c *Ctx, fn *ssa.Function) {
	w := c.W
	fi := w.Info(fn)
	ok := true
	detail := ""
	n := 0
	for _, b := range fn.Blocks {
		r, isRet := blockTerm(b).(*ssa.Return)
		if !isRet {
			continue
		}
		if cl, _, _, _ := fi.classify(r, state{b.Index, 0, -1}, Mode{Kind: mErr}); cl == clFail {
			continue
		}
		n++
		seenPhi := map[*ssa.Phi]bool{}
		var check func(v ssa.Value, depth int) bool
		check = func(v ssa.Value, depth int) bool {
			if depth > 8 {
				return false
			}
			switch x := v.(type) {
			case *ssa.Call:
				// a clone by role: a method (*T) -> *T of a statement type without parameters (checked by clone/… to share nothing)
				g := staticCallee(x)
				return g != nil && isCloneMethod(g)
			case *ssa.Phi:
				if seenPhi[x] {
					return true // loop-carried value: its other edges are checked where first met
				}
				seenPhi[x] = true
				for _, e := range x.Edges {
					if isNilConst(e) || e == v {
						continue
					}
					if !check(e, depth+1) {
						return false
					}
				}
				return true
			}
			return false
		}
		if !check(r.Results[0], 0) {
			ok = false
			detail = "exit " + w.InstrPos(r) + " returns " + desc(r.Results[0])
		}
	}
	c.Evals++
	c.Check(ok && n > 0, "returns-clone/"+fnName(fn), "ownership: every statement handed out by the selection function is the result of a clone (never a pointer into the document)", w.FnPos(fn), detail)
}

func c08OCI(c *Ctx) {
	w := c.W
	var SEL *ssa.Function
	for _, fn := range selectionFns(w) {
		if namedOf(fn.Signature.Recv().Type()) == "ngo/verifier/trustpolicy.OCIDocument" {
			SEL = fn
		}
	}
	if SEL == nil {
		c.Unk("oci/anchor", "anchor: the OCI document's selection method", "-", "not found")
		return
	}
	c.SeenFn(SEL.String())
	c08ReturnsClones(c, SEL)
	fi := w.Info(SEL)
	wc, _ := w.constString("internal/trustpolicy", "Wildcard")
	ref := "param:" + SEL.Params[1].Name()
	// the loop over the document's statements
	var loop *sliceLoop
	for _, sl := range sliceLoops(SEL) {
		sl := sl
		if strings.HasSuffix(desc(sl.X), ".TrustPolicies") {
			loop = &sl
		}
	}
	if loop == nil {
		c.Unk("oci/loop", "anchor: the loop over the document's statements", w.FnPos(SEL), "not found")
		return
	}
	// no early exit
	lb := loopBlocks(loop.Header)
	single := true
	for bi := range lb {
		for _, s := range SEL.Blocks[bi].Succs {
			if !lb[s.Index] && SEL.Blocks[bi] != loop.Header {
				single = false
			}
		}
	}
	c.Check(single, "oci/no-early-exit", "the statement loop has no early exit (the result does not depend on statement order; a wildcard never stops the search for an exact match)", w.InstrPos(blockTerm(loop.Header)), "the loop can be left from inside its body")
	// candidates: clone calls in the loop and their guards
	var exactPhi, wildPhi *ssa.Phi
	nExact, nWild := 0, 0
	okGuards := true
	detail := ""
	// the repository path: result 0 of the module function (string) -> (string, error) applied to the reference
	var pathD string
	var pathCall *ssa.Call
	for _, ci := range allCalls(SEL) {
		if call, ok := ci.(*ssa.Call); ok {
			if g := staticCallee(call); g != nil && w.IsProductFn(g) && len(call.Call.Args) == 1 && desc(call.Call.Args[0]) == ref && g.Signature.Results().Len() == 2 && g.Signature.Results().At(0).Type().String() == "string" {
				pathD, pathCall = res(call, 0), call
			}
		}
	}
	for bi := range lb {
		for _, in := range SEL.Blocks[bi].Instrs {
			call, ok := in.(*ssa.Call)
			if !ok {
				continue
			}
			g := staticCallee(call)
			if g == nil || !isCloneMethod(g) {
				continue
			}
			stmt := desc(call.Call.Args[0])
			labels, _ := fi.mustPassBetween([]int{loop.Body.Index}, map[int]bool{call.Block().Index: true})
			if call.Block() == loop.Body {
				labels = map[string]string{}
			}
			c.Evals++
			var kind string
			for l := range labels {
				if !strings.HasPrefix(l, "T(call:slices.Contains("+stmt+".RegistryScopes,") {
					continue
				}
				arg := strings.TrimSuffix(strings.TrimPrefix(l, "T(call:slices.Contains("+stmt+".RegistryScopes,"), "))")
				if arg == fmt.Sprintf("const:%q", wc) {
					kind = "wild"
				} else if pathD != "" && arg == pathD {
					kind = "exact"
				}
			}
			// which header phi does the clone flow into?
			var hp *ssa.Phi
			for v := range fwdPhis(call) {
				if p, ok := v.(*ssa.Phi); ok && p.Block() == loop.Header {
					hp = p
				}
			}
			switch kind {
			case "exact":
				nExact++
				exactPhi = hp
			case "wild":
				nWild++
				wildPhi = hp
			default:
				okGuards = false
				detail = "the candidate assigned at " + w.InstrPos(call) + " is not guarded by membership of the repository path or of '*' in that statement's own registryScopes; guards: " + summarizeLabels(labels, 6)
			}
		}
	}
	c.Check(okGuards && nExact == 1 && nWild == 1 && exactPhi != nil && wildPhi != nil && exactPhi != wildPhi, "oci/selection-predicate",
		"a statement becomes the exact candidate only under slices.Contains(statement.RegistryScopes, repository path) and the wildcard candidate only under slices.Contains(statement.RegistryScopes, \"*\") (generic ==: no prefix, substring, case folding)", w.InstrPos(blockTerm(loop.Header)),
		fmt.Sprintf("exact=%d wildcard=%d %s", nExact, nWild, detail))
	// the wildcard test must not shadow the exact test: the exact candidate must be assignable when the statement lists the path,
	// whatever the wildcard membership says about that statement is fine (valid documents keep '*' alone).
	// (b) precedence by abstract interpretation
	if exactPhi != nil && wildPhi != nil {
		ip := &Interp{Fn: SEL, IntTypes: map[string]bool{}}
		okP := true
		var bad []string
		for _, ex := range []int{aNil, aNonNil} {
			for _, wi := range []int{aNil, aNonNil} {
				env := map[ssa.Value]AVal{exactPhi: {Kind: ex}, wildPhi: {Kind: wi}}
				ip.Hook = func(in ssa.Instruction, e map[ssa.Value]AVal) (AVal, bool) {
					if in == ssa.Instruction(exactPhi) {
						return AVal{Kind: ex}, true
					}
					if in == ssa.Instruction(wildPhi) {
						return AVal{Kind: wi}, true
					}
					return AVal{}, false
				}
				outs := ip.Run(loop.Exit, loop.Header, env, nil, nil)
				for _, o := range outs {
					if o.Ret == nil || len(o.Ret.Results) != 2 {
						continue
					}
					r0, r1 := o.Ret.Results[0], o.Ret.Results[1]
					errNonNil := fi.nonNil(r1, o.Ret.Block())
					var want string
					switch {
					case ex == aNonNil:
						want = "exact"
					case wi == aNonNil:
						want = "wildcard"
					default:
						want = "error"
					}
					got := "other:" + desc(r0)
					switch {
					case errNonNil && isNilConst(r0):
						got = "error"
					case r0 == ssa.Value(exactPhi) && isNilConst(r1):
						got = "exact"
					case r0 == ssa.Value(wildPhi) && isNilConst(r1):
						got = "wildcard"
					}
					if got != want {
						okP = false
						bad = append(bad, fmt.Sprintf("exact %s, wildcard %s: returns %s, specified %s", AVal{Kind: ex}, AVal{Kind: wi}, got, want))
					}
				}
				if len(outs) == 0 {
					okP = false
					bad = append(bad, "no path")
				}
			}
		}
		c.Evals += ip.Steps
		c.Check(okP, "oci/precedence", "finite decision table (abstract interpretation over candidate nil-ness): exact match, else wildcard, else a non-nil error with a nil statement", w.InstrPos(blockTerm(loop.Exit)), strings.Join(uniq(bad), "; "))
	}
	// repository path function
	if pathD != "" {
		var PF *ssa.Function
		if pathCall != nil {
			PF = staticCallee(pathCall)
		}
		s := w.Summarize(SEL, Mode{Kind: mErr})
		c.Evals += s.States
		c.requireOnExits("oci/path", SEL, s.Exits, []Need{
			{Name: "separator-found", What: "strings.LastIndex(reference, \"@\") >= 0", Subs: []string{"GE(call:strings.LastIndex(" + ref + `,const:"@"),const:0)`}},
			{Name: "path-error", What: "repository path extraction err == nil", Subs: []string{"EQ(" + desc(pathCall) + "#err,nil)"}},
			{Name: "format-validated", What: "the extracted path passes the scope format validator", Subs: []string{"EQ(call:ngo/verifier/trustpolicy.", "(" + ref + "[:call:strings.LastIndex(" + ref + `,const:"@")])#err,nil)`}},
		})
		if PF != nil {
			okRet := true
			for _, b := range PF.Blocks {
				if r, isRet := blockTerm(b).(*ssa.Return); isRet {
					if cl, _, _, _ := w.Info(PF).classify(r, state{b.Index, 0, -1}, Mode{Kind: mErr}); cl != clFail {
						p := "param:" + PF.Params[0].Name()
						if desc(r.Results[0]) != p+"[:call:strings.LastIndex("+p+`,const:"@")]` {
							okRet = false
						}
					}
				}
			}
			c.Check(okRet, "oci/path/value", "the repository path is the text before the last '@' of the reference", w.FnPos(PF), "another slice of the reference is returned")
		}
	}
}

func c08Blob(c *Ctx) {
	w := c.W
	n := 0
	for _, fn := range selectionFns(w) {
		if namedOf(fn.Signature.Recv().Type()) != "ngo/verifier/trustpolicy.BlobDocument" {
			continue
		}
		n++
		c.SeenFn(fn.String())
		c08ReturnsClones(c, fn)
		s := w.Summarize(fn, Mode{Kind: mErr})
		c.Evals += s.States
		if fn.Signature.Params().Len() == 1 {
			pn := "param:" + fn.Params[1].Name()
			ok := len(s.Exits) > 0
			for _, ex := range s.Exits {
				_, h1 := hasLabel(ex.Checked, "EQ(alloc:ngo/verifier/trustpolicy.BlobTrustPolicy<", ">.Name,"+pn+")")
				_, h2 := hasLabel(ex.Checked, "EQ("+pn+",alloc:ngo/verifier/trustpolicy.BlobTrustPolicy<", ">.Name)")
				if !h1 && !h2 {
					ok = false
				}
				// the statement cloned is the one compared
				if call := callOf(ex.Ret.Results[0]); call != nil {
					st := desc(call.Call.Args[0])
					if !labelHas(ex.Checked, "EQ("+st+".Name,"+pn+")") && !labelHas(ex.Checked, "EQ("+pn+","+st+".Name)") {
						ok = false
					}
				}
			}
			c.Check(ok, "blob/by-name", "blob selection by name: a statement is returned only under statement.Name == requested name (string equality), and it is that statement", w.FnPos(fn), "a statement can be returned without exact name equality")
		} else {
			ok := len(s.Exits) > 0
			for _, ex := range s.Exits {
				call := callOf(ex.Ret.Results[0])
				if call == nil {
					ok = false
					continue
				}
				st := desc(call.Call.Args[0])
				if !labelHas(ex.Checked, "T("+st+".GlobalPolicy)") {
					ok = false
				}
			}
			c.Check(ok, "blob/global", "global selection: a statement is returned only if its own globalPolicy flag is set", w.FnPos(fn), "a statement can be returned without the global flag")
		}
		// not found => error: the function's exits after the loop are failing (no success exit outside the loop body)
		for _, sl := range sliceLoops(fn) {
			fi := w.Info(fn)
			wit := fi.successWitness(Mode{Kind: mErr}, []state{{sl.Exit.Index, 0, -1}}, nil)
			c.Check(wit == nil, "blob/not-found/"+fnName(fn), "when no statement matches the selection fails", w.InstrPos(blockTerm(sl.Header)), "success after an unsuccessful search", wit...)
		}
	}
	if n < 2 {
		c.Unk("blob#count", "vacuity guard: two blob selection methods", "-", fmt.Sprintf("%d found", n))
	}
}

// c08CallSites: in the verifier, selection errors become ErrorNoApplicableTrustPolicy; global iff no name.
func c08CallSites(c *Ctx) {
	w := c.W
	sel := map[*ssa.Function]bool{}
	for _, f := range selectionFns(w) {
		sel[f] = true
	}
	n := 0
	for _, fn := range w.FuncsOfPkg("verifier") {
		fi := w.Info(fn)
		var calls []*ssa.Call
		for _, ci := range allCalls(fn) {
			if call, ok := ci.(*ssa.Call); ok && sel[staticCallee(call)] {
				calls = append(calls, call)
			}
		}
		if len(calls) == 0 {
			continue
		}
		n++
		c.SeenFn(fn.String())
		// every failing exit reachable with a non-nil selection error returns ErrorNoApplicableTrustPolicy
		okErr := false
		for _, b := range fn.Blocks {
			r, isRet := blockTerm(b).(*ssa.Return)
			if !isRet {
				continue
			}
			ev := r.Results[len(r.Results)-1]
			if mi, ok := ev.(*ssa.MakeInterface); ok && strings.Contains(namedOf(mi.X.Type()), "NoApplicableTrustPolicy") {
				g, _ := fi.mustPassBetween([]int{0}, map[int]bool{b.Index: true})
				for l := range g {
					if strings.HasPrefix(l, "NE(") && strings.Contains(l, "TrustPolicy(") && strings.HasSuffix(l, "#err),nil)") || strings.HasPrefix(l, "NE(") && strings.Contains(l, "TrustPolicy(") && strings.HasSuffix(l, "#err,nil)") {
						okErr = true
					}
				}
			}
		}
		c.Evals++
		c.Check(okErr, "callsite/no-applicable-policy/"+fnName(fn), "a selection error surfaces as ErrorNoApplicableTrustPolicy", w.FnPos(fn), "the selection error is not converted")
		// success requires the selection to succeed
		s := w.Summarize(fn, Mode{Kind: mErr})
		okSucc := len(s.Exits) > 0
		for _, ex := range s.Exits {
			if _, h := hasLabel(ex.Checked, "EQ(", "TrustPolicy(", "#err", ",nil)"); !h {
				okSucc = false
			}
		}
		c.Check(okSucc, "callsite/selection-required/"+fnName(fn), "must-check: no success without a successfully selected statement", w.FnPos(fn), "success possible after a failed selection")
		isBlob := false
		for _, call := range calls {
			if namedOf(staticCallee(call).Signature.Recv().Type()) == "ngo/verifier/trustpolicy.BlobDocument" {
				isBlob = true
			}
		}
		if isBlob {
			// blob: global iff no name
			ok := true
			for _, call := range calls {
				g := fi.GuardsOf(call)
				isGlobal := staticCallee(call).Signature.Params().Len() == 0
				tpn := paramWhere(fn, hasField("TrustPolicyName")) + ".TrustPolicyName"
				if isGlobal && !labelHas(g, `EQ(`+tpn+`,const:"")`) {
					ok = false
				}
				if !isGlobal {
					if !labelHas(g, `NE(`+tpn+`,const:"")`) || desc(call.Call.Args[1]) != tpn {
						ok = false
					}
				}
			}
			c.Check(ok, "callsite/global-iff-no-name", "the global statement is selected iff the caller gave no policy name; otherwise the statement with exactly the requested name", w.FnPos(fn), "the choice between global and named selection is not decided by TrustPolicyName == \"\"")
		}
	}
	if n < 3 {
		c.Unk("callsite#count", "vacuity guard: three verifier functions select a statement", "-", fmt.Sprintf("%d found", n))
	}
}
