package main

import (
	"fmt"
	"go/types"
	"regexp/syntax"
	"strings"

	"golang.org/x/tools/go/ssa"
)

func init() {
	register(&Rule{
		ID:    "C09",
		Title: "only well-formed trust policy documents are accepted",
		Run:   runC09,
		Explain: "(a) rule inventory: each structural rule of the statement is matched by a fail-closed gate in the validation call tree — document level (nil, version empty/unsupported, no statements, duplicate names, core rules, scope rules, second global, global skip), " +
			"statement core (name, level, verifyTimestamp option, skip <-> no stores/identities, non-skip <-> both present, store rules, identity rules), level/override rules, trust-store entries (separator, known type, certified file-name validator), " +
			"identities (wildcard alone, empty, separator, empty value, DN parse, overlap over every ordered pair i != j of the full list), DN rules, scopes (present, wildcard alone, format for every non-wildcard scope, every scope counted, count <= 1), " +
			"scope format (no embedded '*', domain/repository split, both non-empty and matching constant patterns that compile); gates inside loops are checked per completed iteration; " +
			"(b) the two document validators agree on their document-level gates; (c) no reflect.DeepEqual between values of different static types; " +
			"(d) verifier objects are allocated only by the constructor, whose success is cut by Validate of every non-nil document; (e) integrity is enforce in every non-skip level and cannot be overridden; " +
			"(f) the file-name validator's language excludes separators, NUL and the dot-only names (regexp/syntax walk of its constant pattern plus explicit comparisons).",
		NotCov:  "completeness of the rule list with respect to the specification ('iff'); the exact languages of the scope regular expressions beyond compiling and being anchored.",
		Trusted: []string{"go/types, go/ssa", "regexp, regexp/syntax", "go-ldap ParseDN", "strings.Cut / Contains"},
	})
}

type loopRef struct {
	Header, Body, Exit *ssa.BasicBlock
	X                  ssa.Value
	Idx                ssa.Value
}

func allLoops(fn *ssa.Function) []loopRef {
	var out []loopRef
	for _, sl := range sliceLoops(fn) {
		lr := loopRef{Header: sl.Header, Body: sl.Body, Exit: sl.Exit, X: sl.X}
		if iff, ok := blockTerm(sl.Header).(*ssa.If); ok {
			if bo, ok := iff.Cond.(*ssa.BinOp); ok {
				lr.Idx = bo.X
			}
		}
		out = append(out, lr)
	}
	for _, rl := range rangeLoops(fn) {
		out = append(out, loopRef{Header: rl.Header, Body: rl.Body, Exit: rl.Exit, X: rl.X})
	}
	return out
}

func findLoop(fn *ssa.Function, pred func(d string) bool) *loopRef {
	for _, l := range allLoops(fn) {
		l := l
		if pred(desc(l.X)) {
			return &l
		}
	}
	return nil
}

// iterBlocked: with the selected edges cut, an iteration starting at the loop
// body can neither complete (return to the header) nor reach a success exit.
func iterBlocked(fi *FnInfo, l *loopRef, mode Mode, sel EdgeSel) (bool, int) {
	cut := fi.edgesMatching(sel)
	n := len(cut)
	if fi.reachHit([]state{{l.Body.Index, 0, -1}}, cut, map[int]bool{l.Header.Index: true}) {
		return false, n
	}
	for e := range backEdges(l.Header) {
		cut[e] = true
	}
	if fi.successWitness(mode, []state{{l.Body.Index, 0, -1}}, cut) != nil {
		return false, n
	}
	return true, n
}

func exitsBlocked(fi *FnInfo, mode Mode, sel EdgeSel, baseCut map[edgeKey]bool) (bool, int, []string) {
	cut := fi.edgesMatching(sel)
	n := len(cut)
	for e := range baseCut {
		cut[e] = true
	}
	wit := fi.successWitness(mode, entryState(), cut)
	return wit == nil, n, wit
}

func anyOf(ls ...string) EdgeSel {
	return func(l string, _ *ssa.If, _ bool) bool {
		for _, x := range ls {
			if l == x {
				return true
			}
		}
		return false
	}
}

func matchOf(preds ...func(string) bool) EdgeSel {
	return func(l string, _ *ssa.If, _ bool) bool {
		for _, p := range preds {
			if p(l) {
				return true
			}
		}
		return false
	}
}

func pre(p string, sufs ...string) func(string) bool {
	return func(l string) bool {
		if !strings.HasPrefix(l, p) {
			return false
		}
		rest := l[len(p):]
		for _, s := range sufs {
			i := strings.Index(rest, s)
			if i < 0 {
				return false
			}
			rest = rest[i+len(s):]
		}
		return true
	}
}

func (c *Ctx) slot(ok bool, n int, key, what, site, detail string, path ...string) {
	c.Evals++
	rule := "rule inventory: a fail-closed gate for — " + what
	if n == 0 {
		c.Bad(key, rule, site, "no gate of this kind exists any more (the rule disappeared)")
		return
	}
	c.Check(ok, key, rule, site, detail, path...)
}

func runC09(c *Ctx) {
	w := c.W
	tp := "verifier/trustpolicy"
	ociV := w.Method(tp, "OCIDocument", "Validate")
	blobV := w.Method(tp, "BlobDocument", "Validate")
	if ociV == nil || blobV == nil {
		c.Unk("anchors", "anchors: (*OCIDocument).Validate and (*BlobDocument).Validate", "-", "not found")
		return
	}
	var CORE *ssa.Function
	var ROLES [4]int
	sigs := map[string][]string{}
	for _, V := range []*ssa.Function{ociV, blobV} {
		kind := "oci"
		if V == blobV {
			kind = "blob"
		}
		core, roles := c09Document(c, V, kind, sigs)
		if core != nil {
			if CORE != nil && (CORE != core || ROLES != roles) {
				c.Bad("siblings/core", "sibling agreement: both document kinds validate statements with the same core function, handing it the same parts", w.FnPos(V), "different core validators")
			}
			CORE, ROLES = core, roles
		}
	}
	// (b) sibling agreement on document-level gates
	c.Check(strings.Join(sigs["oci"], ",") == strings.Join(sigs["blob"], ",") && len(sigs["oci"]) >= 6, "siblings/document-gates", "sibling agreement: the OCI and blob document validators perform the same document-level checks", w.FnPos(blobV),
		fmt.Sprintf("oci=%v blob=%v", sigs["oci"], sigs["blob"]))
	if CORE != nil {
		c09Core(c, CORE, ROLES)
	}
	c09Scopes(c, ociV)
	c09DeepEqual(c)
	c09Forced(c)
	c09FileName(c)
	// level/override rules, integrity, DN rules
	c09Custom(c)
	c01Levels(c)
	c09Level(c)
	for _, fn := range w.FuncsOfPkg("internal/pkix") {
		sig := fn.Signature
		if fn.Parent() == nil && sig.Params().Len() == 1 && sig.Results().Len() == 2 && isMapSS(sig.Results().At(0).Type()) && isErrorType(sig.Results().At(1).Type()) {
			c04Parser(c, fn)
		}
	}
	c.MinCount("", 60, "validation rule obligations")
}

// c09Document checks the document-level gates and returns the core validator.
func c09Document(c *Ctx, V *ssa.Function, kind string, sigs map[string][]string) (*ssa.Function, [4]int) {
	w := c.W
	fi := w.Info(V)
	c.SeenFn(V.String())
	doc := "param:" + V.Params[0].Name()
	s := w.Summarize(V, Mode{Kind: mErr})
	c.Evals += s.States
	site := w.FnPos(V)
	has := func(subs ...string) bool {
		if len(s.Exits) == 0 {
			return false
		}
		for _, ex := range s.Exits {
			if _, ok := hasLabel(ex.Checked, subs...); !ok {
				return false
			}
		}
		return true
	}
	add := func(name string, ok bool) {
		c.slot(ok, 1, kind+"/document/"+name, kind+" document: "+name, site, "accepted although this rule is violated")
		if ok {
			sigs[kind] = append(sigs[kind], name)
		}
	}
	add("nil-document", has("NE("+doc+",nil)"))
	add("empty-version", has("NE("+doc+`.Version,const:"")`) || has("NE(len("+doc+".Version),const:0)"))
	add("unsupported-version", has("T(call:slices.Contains(global:ngo/verifier/trustpolicy.", ","+doc+".Version))"))
	add("no-statements", has("NE(len("+doc+".TrustPolicies),const:0)") || has("GT(len("+doc+".TrustPolicies),const:0)") || has("GE(len("+doc+".TrustPolicies),const:1)"))
	loop := findLoop(V, func(d string) bool { return d == doc+".TrustPolicies" })
	if loop == nil {
		c.Bad(kind+"/document/statement-loop", "the validator visits every statement", site, "no loop over the document's statements")
		return nil, [4]int{}
	}
	// success only after the loop
	{
		cut := map[edgeKey]bool{}
		cutInto(fi, loop.Header, cut)
		wit := fi.successWitness(Mode{Kind: mErr}, entryState(), cut)
		c.slot(wit == nil, 1, kind+"/document/statement-loop", kind+" document: every statement is visited before the document is accepted", w.InstrPos(blockTerm(loop.Header)), "the statement loop can be bypassed", wit...)
	}
	labels, _ := fi.mustPassBetween([]int{loop.Body.Index}, map[int]bool{loop.Header.Index: true})
	// The core validator: the module function whose success every completed iteration requires and that is handed the
	// four parts of the statement of this iteration — its Name, SignatureVerification, TrustStores and TrustedIdentities,
	// recognised by what is passed (in any order, next to any other arguments), not by position. The fact is must-pass
	// for the iteration whether the call stands in the loop body or in a per-statement helper whose success the loop
	// requires (its facts are composed into this frame).
	// The statement is the element of this iteration: the list element at the loop's own index, or a read-only local
	// copy of it (c09IterStatement) — a core validator run on some other statement does not validate this one.
	// A per-statement helper that wraps the core validator is handed the same parts: the core validator is the innermost
	// one — the candidate that does not forward the four parts to another module function.
	var stmt string
	var CORE *ssa.Function
	var roles [4]int
	type coreCand struct {
		f     *ssa.Function
		st    string
		roles [4]int
	}
	var cands []coreCand
	pickCore := func() {
		for _, x := range cands {
			// a wrapper forwards all four parts to one module function (whether or not it then heeds the answer: a
			// wrapper that ignores the core validator's error is not itself the core validator)
			wraps := false
			for _, ci := range allCalls(x.f) {
				call, isCall := ci.(*ssa.Call)
				if !isCall || c09Helper(w, call) == nil {
					continue
				}
				n := 0
				for _, r := range x.roles {
					prm := x.f.Params[r]
					for _, a := range call.Call.Args {
						if al, isAl := a.(*ssa.Alloc); isAl {
							if st := c09ReadOnlyCopy(w, al); st != nil {
								a = st.Val
							}
						}
						if a == ssa.Value(prm) {
							n++
							break
						}
					}
				}
				if n == 4 {
					wraps = true
				}
			}
			if !wraps {
				CORE, stmt, roles = x.f, x.st, x.roles
			}
		}
	}
	for _, l := range labelList(labels) {
		if !strings.HasPrefix(l, "EQ(call:") || !strings.HasSuffix(l, "#err,nil)") {
			continue
		}
		name, args, ok := c09ParseCall(strings.TrimSuffix(strings.TrimPrefix(l, "EQ("), "#err,nil)"))
		if !ok || !strings.HasPrefix(strings.TrimPrefix(name, "(*"), "ngo/") && !strings.HasPrefix(strings.TrimPrefix(name, "("), "ngo/") {
			continue
		}
		st := ""
		for _, a := range args {
			if strings.HasSuffix(a, ".SignatureVerification") {
				st = strings.TrimSuffix(a, ".SignatureVerification")
			}
		}
		if st == "" || !c09IterStatement(w, V, loop, st) {
			continue
		}
		var r [4]int
		okRoles := true
		for k, f := range []string{".Name", ".SignatureVerification", ".TrustStores", ".TrustedIdentities"} {
			r[k] = -1
			for i, a := range args {
				if a == st+f {
					if r[k] >= 0 {
						okRoles = false
					}
					r[k] = i
				}
			}
			if r[k] < 0 {
				okRoles = false
			}
		}
		if !okRoles {
			continue
		}
		if f := fnByFullName(w, name); f != nil && len(f.Params) == len(args) {
			cands = append(cands, coreCand{f, st, r})
		}
	}
	pickCore()
	add("core-rules", CORE != nil)
	if stmt == "" {
		return CORE, roles
	}
	// duplicate names: the iteration passes "the name set does not contain the statement's name" and adds the name to that
	// very set, which lives across the iterations (it is made outside the loop). Both the test and the Add may stand in
	// the loop body or in a per-statement helper whose success the iteration requires (c09VisitCalls / c09EffectBlocks:
	// the helper's facts are read in this frame, its parameters being the arguments).
	inLoop := loopBlocks(loop.Header)
	outside := func(v ssa.Value) bool {
		if v == nil {
			return false
		}
		in, isInstr := v.(ssa.Instruction)
		return !isInstr || (in.Block() != nil && !inLoop[in.Block().Index])
	}
	var sets []ssa.Value
	c09VisitCalls(w, V, c09TopFrame(), c09Depth, func(call *ssa.Call, fr c09Frame) {
		if !strings.HasSuffix(calleeName(call), "container.Set[T]).Contains") || len(call.Call.Args) != 2 || fr.sub(desc(call.Call.Args[1])) != stmt+".Name" {
			return
		}
		if s := fr.top(call.Call.Args[0]); outside(s) && labelHas(labels, fr.sub("F("+desc(call)+")")) {
			sets = append(sets, s)
		}
	})
	// the name set may also be a plain map made outside the loop (`if _, seen := names[n]; seen`, `if names[n]`): the
	// same predicate as Set.Contains (container.Set is such a map). The map is identified by its rendering, which is
	// only trusted when no other map in reach is rendered alike.
	plainSet := map[ssa.Value]bool{}
	c09VisitFrames(w, V, c09TopFrame(), c09Depth, func(f *ssa.Function, fr c09Frame) {
		for _, b := range f.Blocks {
			for _, in := range b.Instrs {
				lk, ok := in.(*ssa.Lookup)
				if !ok || fr.sub(desc(lk.Index)) != stmt+".Name" {
					continue
				}
				mt, isMap := lk.X.Type().Underlying().(*types.Map)
				s := fr.top(lk.X)
				if _, isMake := s.(*ssa.MakeMap); !isMap || !isMake || !outside(s) || c09SameMaps(w, V, s) != 1 {
					continue
				}
				absent := ""
				if lk.CommaOk {
					absent = "F(ok(" + desc(lk) + "))"
				} else if bt, isB := mt.Elem().Underlying().(*types.Basic); isB && bt.Kind() == types.Bool {
					absent = "F(" + desc(lk) + ")"
				}
				if absent != "" && labelHas(labels, fr.sub(absent)) {
					sets = append(sets, s)
					plainSet[s] = true
				}
			}
		}
	})
	dupGate := len(sets) > 0
	// the name is added on every completed iteration: by the loop body itself, or by a per-statement helper whose
	// success the iteration requires and whose every success exit lies behind the Add
	okAdd := false
	{
		isAdd := func(call *ssa.Call, fr c09Frame) bool {
			if !strings.HasSuffix(calleeName(call), "container.Set[T]).Add") || len(call.Call.Args) != 2 || fr.sub(desc(call.Call.Args[1])) != stmt+".Name" {
				return false
			}
			for _, s := range sets {
				if fr.top(call.Call.Args[0]) == s {
					return true
				}
			}
			return false
		}
		// (a plain map: the name is stored as a key — with the value true when membership is read off the value)
		isPut := func(in ssa.Instruction, fr c09Frame) bool {
			if call, ok := in.(*ssa.Call); ok {
				return isAdd(call, fr)
			}
			mu, ok := in.(*ssa.MapUpdate)
			if !ok || fr.sub(desc(mu.Key)) != stmt+".Name" || !plainSet[fr.top(mu.Map)] {
				return false
			}
			if bt, isB := mu.Value.Type().Underlying().(*types.Basic); isB && bt.Kind() == types.Bool {
				return desc(mu.Value) == "const:true"
			}
			return true
		}
		blocks := c09EffectBlocksI(w, V, c09TopFrame(), isPut, func(l string) bool { return labelHas(labels, l) }, c09Depth)
		cut := map[edgeKey]bool{}
		for b := range blocks {
			cutInto(fi, b, cut)
		}
		if len(blocks) > 0 && (blocks[loop.Body] || !fi.reachHit([]state{{loop.Body.Index, 0, -1}}, cut, map[int]bool{loop.Header.Index: true})) {
			okAdd = true
		}
	}
	add("duplicate-name", dupGate && okAdd)
	if kind == "blob" {
		c09BlobGlobal(c, V, loop, stmt, plainSet)
	} else {
		// scope rules: the document is accepted only if the scope validator returned no error — or, when the scope
		// rules stand in the document validator itself, only through their statement loop (the rest of the way to
		// success is decided by c09Scopes: every statement's scope loop, the uniqueness loop)
		ok := false
		if at := c09ScopeSite(w, V); at != nil {
			if at.call != nil {
				ok = has("EQ(" + descTailErr(at.call) + ",nil)")
			} else if at.outer != nil && at.inner != nil {
				cut := map[edgeKey]bool{}
				cutInto(fi, at.outer.Header, cut)
				ok = fi.successWitness(Mode{Kind: mErr}, entryState(), cut) == nil
			}
		}
		c.slot(ok, 1, "oci/document/scope-rules", "oci document: registry scope rules", site, "accepted without the scope rules")
	}
	return CORE, roles
}

// c09BlobGlobal: at most one global statement, which must not be skip — by abstract interpretation of the loop body.
// nameSets: the plain maps recognised as the name set by the duplicate-name rule (which decides that rule by itself: its
// lookup is stubbed to "not seen" here, like Set.Contains).
func c09BlobGlobal(c *Ctx, V *ssa.Function, loop *loopRef, stmt string, nameSets map[ssa.Value]bool) {
	w := c.W
	// the found-global flag: bool header phi
	var flag *ssa.Phi
	for _, p := range headerPhis(loop.Header) {
		if b, ok := p.Type().Underlying().(*types.Basic); ok && b.Info()&types.IsBoolean != 0 {
			flag = p
		}
	}
	rule := "finite decision table (abstract interpretation of the statement loop body): an iteration completes iff not (global and (a global statement was seen before or the level is skip)); afterwards 'seen' = seen or global"
	if flag == nil {
		c.Bad("blob/document/global-rules", rule, w.InstrPos(blockTerm(loop.Header)), "no boolean loop-carried flag recording that a global statement was seen")
		return
	}
	var glob bool
	var level string
	ip := &Interp{Fn: V, TrackStrings: true, IntTypes: map[string]bool{}}
	inputs := []string{stmt + ".GlobalPolicy", stmt + ".SignatureVerification.VerificationLevel"}
	ip.Hook = c09GlobalHook(c, ip, func(s string) string { return s }, inputs, func(d string) (AVal, bool) {
		switch d {
		case inputs[0]:
			return AVal{Kind: aBool, B: glob}, true
		case inputs[1]:
			return AVal{Kind: aStr, Str: level}, true
		}
		return AVal{}, false
	}, 0)
	if len(nameSets) > 0 {
		inner := ip.Hook
		ip.Hook = func(in ssa.Instruction, env map[ssa.Value]AVal) (AVal, bool) {
			switch x := in.(type) {
			case *ssa.Lookup:
				if nameSets[x.X] && !x.CommaOk {
					return AVal{Kind: aBool, B: false}, true
				}
			case *ssa.Extract:
				if lk, ok := x.Tuple.(*ssa.Lookup); ok && lk.CommaOk && nameSets[lk.X] && x.Index == 1 {
					return AVal{Kind: aBool, B: false}, true
				}
			}
			return inner(in, env)
		}
	}
	var bad []string
	n := 0
	for _, seen := range []bool{false, true} {
		for _, g := range []bool{false, true} {
			for _, lv := range []string{"skip", "strict"} {
				glob, level = g, lv
				env := map[ssa.Value]AVal{flag: {Kind: aBool, B: seen}}
				outs := ip.Run(loop.Body, loop.Header, env, map[*ssa.BasicBlock]bool{loop.Header: true}, nil)
				wantReject := g && (seen || lv == "skip")
				for _, o := range outs {
					n++
					if o.Stop == loop.Header {
						pi := -1
						for i, p := range loop.Header.Preds {
							if p == o.From {
								pi = i
							}
						}
						nf := ip.val(flag.Edges[pi], o.Env)
						if wantReject {
							bad = append(bad, fmt.Sprintf("seen=%v global=%v level=%s: the statement is accepted", seen, g, lv))
						} else if nf.Kind != aBool || nf.B != (seen || g) {
							bad = append(bad, fmt.Sprintf("seen=%v global=%v level=%s: flag becomes %s", seen, g, lv, nf))
						}
					} else if o.Ret != nil && !wantReject {
						// a rejection although the statement is fine (other rules are stubbed to pass)
						bad = append(bad, fmt.Sprintf("seen=%v global=%v level=%s: rejected", seen, g, lv))
					}
				}
				if len(outs) == 0 {
					bad = append(bad, "no path")
				}
			}
		}
	}
	c.Evals += ip.Steps
	c.Check(len(bad) == 0 && n > 0, "blob/document/global-rules", rule, w.InstrPos(blockTerm(loop.Header)), strings.Join(uniq(bad), "; "))
}

// c09Core: the rules of one statement; roles gives the positions of the parameters that receive the statement's name,
// SignatureVerification, trust stores and trusted identities (read off the call: c09Document).
func c09Core(c *Ctx, CORE *ssa.Function, roles [4]int) {
	w := c.W
	fi := w.Info(CORE)
	c.SeenFn(CORE.String())
	site := w.FnPos(CORE)
	for _, r := range roles {
		if r < 0 || r >= len(CORE.Params) {
			c.Unk("core/shape", "anchor: core validator (name, signatureVerification, trustStores, trustedIdentities)", site, "unexpected parameters")
			return
		}
	}
	name, stores, ids := "param:"+CORE.Params[roles[0]].Name(), "param:"+CORE.Params[roles[2]].Name(), "param:"+CORE.Params[roles[3]].Name()
	// the SignatureVerification the level is asked of: the parameter itself (a pointer), or the addressable local the
	// value parameter is spilled to because a pointer-receiver method is called on it (a read-only copy of the parameter)
	svP := CORE.Params[roles[1]]
	svs := []string{"param:" + svP.Name()}
	for _, b := range CORE.Blocks {
		for _, in := range b.Instrs {
			if al, ok := in.(*ssa.Alloc); ok {
				if st := c09ReadOnlyCopy(w, al); st != nil && st.Val == ssa.Value(svP) && c09SameRendering(w, CORE, al) == 1 {
					svs = append(svs, desc(al))
				}
			}
		}
	}
	s := w.Summarize(CORE, Mode{Kind: mErr})
	c.Evals += s.States
	has := func(exits []*ExitSum, subs ...string) bool {
		if len(exits) == 0 {
			return false
		}
		for _, ex := range exits {
			if _, ok := hasLabel(ex.Checked, subs...); !ok {
				return false
			}
		}
		return true
	}
	c.slot(has(s.Exits, "NE("+name+`,const:"")`) || has(s.Exits, "NE(len("+name+"),const:0)"), 1, "core/empty-name", "statement: non-empty name", site, "")
	const getLevel = "call:(*ngo/verifier/trustpolicy.SignatureVerification).GetVerificationLevel("
	okLevel := false
	for _, sv := range svs {
		if has(s.Exits, "EQ("+getLevel+sv+")#err,nil)") {
			okLevel = true
		}
	}
	c.slot(okLevel, 1, "core/level-valid", "statement: valid level and overrides (GetVerificationLevel of the statement's SignatureVerification: err == nil)", site, "")
	oa, _ := w.constString("verifier/trustpolicy", "OptionAfterCertExpiry")
	oal, _ := w.constString("verifier/trustpolicy", "OptionAlways")
	vt := "." + "VerifyTimestamp,"
	// (the option test may stand in the core validator or in a helper it hands the option to: exitsBlockedDeep)
	ok, n, wit := exitsBlockedDeep(w, CORE, Mode{Kind: mErr}, matchOf(pre("EQ(", vt+`const:"")`), pre("EQ(", vt+fmt.Sprintf("const:%q)", oal)), pre("EQ(", vt+fmt.Sprintf("const:%q)", oa))))
	c.slot(ok && n >= 3, n, "core/verify-timestamp-option", "statement: verifyTimestamp is unset, always or afterCertExpiry", site, "an unknown verifyTimestamp option is accepted", wit...)
	lvlName := ".Name,const:\"skip\")"
	var isSkip, isNonSkip []func(string) bool
	for _, sv := range svs {
		isSkip = append(isSkip, pre("EQ("+getLevel+sv+")", lvlName))
		isNonSkip = append(isNonSkip, pre("NE("+getLevel+sv+")", lvlName))
	}
	skipE := fi.edgesMatching(matchOf(isSkip...))
	nonSkipE := fi.edgesMatching(matchOf(isNonSkip...))
	if len(skipE) == 0 || len(nonSkipE) == 0 {
		c.Bad("core/skip-split", "statement: the stores/identities rules depend on whether the level is skip", site, "no test of the level name against \"skip\"")
		return
	}
	sSkip := fi.summarizeFrom(Mode{Kind: mErr}, entryState(), nonSkipE)
	sNon := fi.summarizeFrom(Mode{Kind: mErr}, entryState(), skipE)
	zero := func(x string) [][]string {
		return [][]string{{"LE(len(" + x + "),const:0)"}, {"EQ(len(" + x + "),const:0)"}, {"LT(len(" + x + "),const:1)"}}
	}
	nonzero := func(x string) [][]string {
		return [][]string{{"NE(len(" + x + "),const:0)"}, {"GT(len(" + x + "),const:0)"}, {"GE(len(" + x + "),const:1)"}}
	}
	alt := func(exits []*ExitSum, alts [][]string) bool {
		for _, a := range alts {
			if has(exits, a...) {
				return true
			}
		}
		return false
	}
	c.slot(alt(sSkip.Exits, zero(stores)), 1, "core/skip-no-stores", "statement: a skip statement lists no trust stores", site, "")
	c.slot(alt(sSkip.Exits, zero(ids)), 1, "core/skip-no-identities", "statement: a skip statement lists no trusted identities", site, "")
	c.slot(alt(sNon.Exits, nonzero(stores)), 1, "core/non-skip-stores", "statement: a non-skip statement lists at least one trust store", site, "")
	c.slot(alt(sNon.Exits, nonzero(ids)), 1, "core/non-skip-identities", "statement: a non-skip statement lists at least one trusted identity", site, "")
	// store and identity validators
	var TS, TI *ssa.Function
	tsArg, tiArg := -1, -1
	for _, ex := range sNon.Exits {
		for l := range ex.Checked {
			if strings.HasPrefix(l, "EQ(call:ngo/verifier/trustpolicy.") && strings.HasSuffix(l, "#err,nil)") {
				for _, ci := range allCalls(CORE) {
					call, ok := ci.(*ssa.Call)
					if !ok || "EQ("+descTailErr(call)+",nil)" != l {
						continue
					}
					// the validator of a list is the module function that is handed that list, at whatever position
					// and next to whatever other arguments
					g := c09Helper(w, call)
					if g == nil {
						continue
					}
					for i, a := range call.Call.Args {
						switch desc(a) {
						case stores:
							TS, tsArg = g, i
						case ids:
							TI, tiArg = g, i
						}
					}
				}
			}
		}
	}
	c.slot(TS != nil, 1, "core/store-rules", "statement: trust store rules (non-skip)", site, "the trust stores of a non-skip statement are not validated")
	c.slot(TI != nil, 1, "core/identity-rules", "statement: trusted identity rules (non-skip)", site, "the trusted identities of a non-skip statement are not validated")
	if TS != nil {
		c09Stores(c, TS, tsArg)
	}
	if TI != nil {
		c09Identities(c, TI, tiArg)
	}
}

// c09Stores: the rules of one trust store entry; pi is the position of the store list among the validator's parameters.
func c09Stores(c *Ctx, TS *ssa.Function, pi int) {
	w := c.W
	c.SeenFn(TS.String())
	p := "param:" + TS.Params[pi].Name()
	// the loop over the trust stores: when several loops range over the list, the one on which the rules hold (c09BestLoop)
	if !c09BestLoop(c, TS, p, func(c *Ctx, loop *loopRef) { c09StoreLoop(c, TS, p, loop) }) {
		c.Bad("store/loop", "every listed trust store is validated", w.FnPos(TS), "no loop over the trust stores")
	}
}

// c09StoreLoop: the rules of one trust store entry, decided on one loop over the store list p of TS.
func c09StoreLoop(c *Ctx, TS *ssa.Function, p string, loop *loopRef) {
	w := c.W
	fi := w.Info(TS)
	site := w.InstrPos(blockTerm(loop.Header))
	m := Mode{Kind: mErr}
	// The three rules of an entry are decided per completed iteration, as cut sets: an iteration can neither complete nor
	// leave with success unless it passes an edge on which the rule's fact holds. The fact may be tested in the loop body
	// or in a module helper the body relies on (c09GateCut: the helper's outcome that the body requires is reachable only
	// through such an edge, its parameters replaced by the arguments) — it makes no difference to the rule whether the
	// membership test is a hand-written loop in a helper, that loop inlined, or slices.Contains over the same list.
	// The two halves of the entry are rendered as the results of strings.Cut(entry, ":") however they are computed
	// (strings.Index + slicing, a splitting helper that hands back those expressions: ssautil.go).
	part := func(k int) (string, string) {
		return "call:strings.Cut(" + p + "[", fmt.Sprintf(`],const:":")#%d`, k)
	}
	// The same rules stated about the list as a whole — the validator cannot succeed unless the fact holds for every entry —
	// are accepted as well: then the fact may be established by a loop of its own (the rules split over several loops
	// over the list, one of them moved into a helper: c09Universal), the entry being the element at that loop's index.
	forAll := func(b bool, n int, facts func(half func(k int) string) []func(string) bool) (bool, int) {
		if b && n > 0 {
			return b, n
		}
		b2, n2, _ := exitsBlockedQ(w, TS, m, c09NoFact, c09ForAll{list: p, elem: func(el string) EdgeSel {
			return matchOf(facts(func(k int) string { return fmt.Sprintf(`call:strings.Cut(%s,const:":")#%d`, el, k) })...)
		}})
		if b2 && n2 > 0 {
			return b2, n2
		}
		return b, n
	}
	is := func(l string) func(string) bool { return func(x string) bool { return x == l } }
	// separator present: the `found` answer of the cut — or a fact that entails it. By the contract of strings.Cut an entry
	// without separator is cut into (entry, ""), so a name half that is known not to be empty (compared with "", or
	// accepted by the file-name validator, which is certified — file-name/certified, re-decided here — to reject the
	// empty string) was cut off behind a separator: the guard `if !found` is subsumed by the guard on the name and need
	// not be spelled out.
	a, z := part(2)
	a1, z1 := part(1)
	sepFacts := []func(string) bool{pre("T("+a, z+")"), pre("NE("+a1, z1+`,const:"")`), pre("NE(len("+a1, z1+"),const:0)")}
	nameCertified := false
	if vf := w.Func("internal/file", "IsValidFileName"); vf != nil {
		nameCertified, _ = certifyFileNameValidator(w, vf)
	}
	if nameCertified {
		sepFacts = append(sepFacts, pre("T(call:ngo/internal/file.IsValidFileName("+a1, z1+"))"))
	}
	b, n := iterBlockedDeep(w, TS, loop, m, matchOf(sepFacts...))
	b, n = forAll(b, n, func(half func(int) string) []func(string) bool {
		out := []func(string) bool{is("T(" + half(2) + ")"), is("NE(" + half(1) + `,const:"")`), is("NE(len(" + half(1) + "),const:0)")}
		if nameCertified {
			out = append(out, is("T(call:ngo/internal/file.IsValidFileName("+half(1)+"))"))
		}
		return out
	})
	c.slot(b, n, "store/separator", "trust store entry: type:name separator present", site, "an entry without separator is accepted")
	// known type: the type prefix equals an element of truststore.Types (slices.Contains over that list, or an equality
	// with one of its elements), or one of the constants the list is initialised with
	a, z = part(0)
	types := "global:ngo/verifier/truststore.Types"
	known := []func(string) bool{
		pre("T(call:slices.Contains("+types+","+a, z+"))"),
		pre("EQ("+a, z+","+types+"["),
	}
	for _, k := range c09StoreTypeConstants(w) {
		known = append(known, pre("EQ("+a, z+fmt.Sprintf(",const:%q)", k)))
	}
	b, n = iterBlockedDeep(w, TS, loop, m, matchOf(known...))
	b, n = forAll(b, n, func(half func(int) string) []func(string) bool {
		out := []func(string) bool{is("T(call:slices.Contains(" + types + "," + half(0) + "))"), pre("EQ(" + half(0) + "," + types + "[")}
		for _, k := range c09StoreTypeConstants(w) {
			out = append(out, is("EQ("+half(0)+fmt.Sprintf(",const:%q)", k)))
		}
		return out
	})
	c.slot(b, n, "store/known-type", "trust store entry: the type prefix passes the store-type test", site, "an entry of unknown type is accepted")
	c.slot(n > 0, 1, "store/known-type/validator", "store-type test: true only for an element of truststore.Types", site, "no test of the type prefix that is true only for an element of truststore.Types (true for an unknown type)")
	a, z = part(1)
	b, n = iterBlockedDeep(w, TS, loop, m, matchOf(pre("T(call:ngo/internal/file.IsValidFileName("+a, z+"))")))
	b, n = forAll(b, n, func(half func(int) string) []func(string) bool {
		return []func(string) bool{is("T(call:ngo/internal/file.IsValidFileName(" + half(1) + "))")}
	})
	c.slot(b, n, "store/safe-name", "trust store entry: the name passes the certified file-name validator", site, "an entry whose name did not pass the file-name validator is accepted")
	// success only after the loop
	cut := map[edgeKey]bool{}
	cutInto(fi, loop.Header, cut)
	c.slot(fi.successWitness(m, entryState(), cut) == nil, 1, "store/loop", "every listed trust store is validated", site, "the loop can be bypassed")
}

func fnByLabel(w *World, fn *ssa.Function, label string) *ssa.Function {
	for _, ci := range allCalls(fn) {
		call, ok := ci.(*ssa.Call)
		if !ok {
			continue
		}
		if "T("+desc(call)+")" == label {
			return staticCallee(call)
		}
	}
	return nil
}

// c09Identities: the identity rules; pi is the position of the identity list among the validator's parameters.
func c09Identities(c *Ctx, TI *ssa.Function, pi int) {
	w := c.W
	c.SeenFn(TI.String())
	p := "param:" + TI.Params[pi].Name()
	wc, _ := w.constString("internal/trustpolicy", "Wildcard")
	site := w.FnPos(TI)
	// (at most one identity, or none of them is the wildcard: slices.Contains answering false or a loop over all of them)
	ok, n, wit := exitsBlockedQ(w, TI, Mode{Kind: mErr}, c09AtMostOneOrNot(p, wc), c09NoneIs(p, wc))
	c.slot(ok && n >= 2, n, "identity/wildcard-alone", "identities: the wildcard identity stands alone", site, "a wildcard next to other identities is accepted", wit...)
	// the loop over the identities: when several loops range over the list (the wildcard rule spelled as a loop of its
	// own), the one on which the rules of an identity hold (c09BestLoop)
	if !c09BestLoop(c, TI, p, func(c *Ctx, loop *loopRef) { c09IdentityLoop(c, TI, p, loop) }) {
		c.Bad("identity/loop", "every identity is validated", site, "no loop over the identities")
	}
}

// c09IdentityLoop: the rules of one identity and the overlap rule, decided on one loop over the identity list p of TI.
func c09IdentityLoop(c *Ctx, TI *ssa.Function, p string, loop *loopRef) {
	w := c.W
	fi := w.Info(TI)
	wc, _ := w.constString("internal/trustpolicy", "Wildcard")
	xs, _ := w.constString("internal/trustpolicy", "X509Subject")
	site := w.FnPos(TI)
	lsite := w.InstrPos(blockTerm(loop.Header))
	id := p + "["
	isWild := pre("EQ("+id, fmt.Sprintf("],const:%q)", wc))
	notX509 := pre("NE(call:strings.Cut("+id, fmt.Sprintf(`,const:":")#0,const:%q)`, xs))
	m := Mode{Kind: mErr}
	labels, _ := fi.mustPassBetween([]int{loop.Body.Index}, map[int]bool{loop.Header.Index: true})
	_, h := hasLabel(labels, "NE("+id, `],const:"")`)
	c.slot(h, 1, "identity/empty", "identities: no empty identity", lsite, "")
	// (a value half that is not empty was cut off behind a separator — contract of strings.Cut: without separator the
	// second half is "" — so that fact entails the separator, see c09NewCutFacts)
	b, n := iterBlockedDeep(w, TI, loop, m, matchOf(isWild, pre("T(call:strings.Cut("+id, `,const:":")#2)`), pre("NE(call:strings.Cut("+id, `,const:":")#1,const:"")`)))
	c.slot(b, n, "identity/separator", "identities: a non-wildcard identity has a prefix:value separator", lsite, "an identity without separator is accepted")
	b, n = iterBlockedDeep(w, TI, loop, m, matchOf(isWild, notX509, pre("NE(call:strings.Cut("+id, `,const:":")#1,const:"")`)))
	c.slot(b, n, "identity/empty-value", "identities: an x509.subject identity has a non-empty value", lsite, "an x509.subject identity with empty value is accepted")
	b, n = iterBlockedDeep(w, TI, loop, m, matchOf(isWild, notX509, pre("EQ(call:ngo/internal/pkix.", "(call:strings.Cut("+id, `,const:":")#1)#err,nil)`)))
	c.slot(b, n, "identity/dn-parses", "identities: an x509.subject identity parses as a distinguished name with C, ST, O", lsite, "an unparsable x509.subject identity is accepted")
	// the overlap check: the function holding the call of the subset function (func(map[string]string, map[string]string) bool
	// of the module) — the identity validator itself, or a module callee that is handed the collected list
	isSubset := func(call *ssa.Call) bool {
		g := staticCallee(call)
		return g != nil && w.IsProductFn(g) && len(call.Call.Args) == 2 && isMapSS(call.Call.Args[0].Type()) && isMapSS(call.Call.Args[1].Type()) && call.Type().String() == "bool"
	}
	holds := func(f *ssa.Function) bool {
		for _, ci := range allCalls(f) {
			if call, ok := ci.(*ssa.Call); ok && isSubset(call) {
				return true
			}
		}
		return false
	}
	var OV *ssa.Function
	var ovCall *ssa.Call
	if holds(TI) {
		OV = TI
	} else {
		for _, ci := range allCalls(TI) {
			call, ok := ci.(*ssa.Call)
			if !ok || !isErrorType(call.Type()) {
				continue
			}
			if g := staticCallee(call); g != nil && g.Blocks != nil && w.IsProductFn(g) && len(call.Call.Args) == len(g.Params) && holds(g) {
				OV, ovCall = g, call
			}
		}
	}
	if OV == nil {
		c.Bad("identity/overlap", "identities: x509.subject identities do not overlap", site, "no overlap check is called")
		return
	}
	X := c09Overlap(c, OV, isSubset)
	if X == nil {
		c.Bad("identity/overlap", "identities: x509.subject identities do not overlap", site, "the list the overlap check ranges over is not recognised")
		return
	}
	// the list the overlap loops range over, in this function; the failure of the check rejects the statement
	var L ssa.Value
	okGate := false
	if ovCall == nil {
		// the loops stand in the identity validator itself: obligation identity/overlap/loop (success only behind them)
		L, okGate = X, true
	} else {
		for i, prm := range OV.Params {
			if ssa.Value(prm) == X {
				L = ovCall.Call.Args[i]
			}
		}
		s := w.Summarize(TI, m)
		okGate = len(s.Exits) > 0
		for _, ex := range s.Exits {
			if !labelHas(ex.Checked, "EQ("+descTailErr(ovCall)+",nil)") && ex.Tail != calleeName(ovCall) {
				okGate = false
			}
		}
	}
	// that list is appended with {identity, parsed DN} on every x509.subject iteration: an iteration that does not pass
	// the append completes only for the wildcard or a prefix other than x509.subject (the two tests may stand in a
	// helper that reports "is an x509.subject identity" as a boolean result: c09GateCut)
	// The list is complete: it starts empty and is only ever grown by appends (no re-slicing, no other origin).
	okList := false
	if L != nil {
		appends, grownOnly := c09ListSources(L)
		for _, call := range appends {
			if !grownOnly {
				break
			}
			cut := c09GateCut(w, TI, matchOf(isWild, notX509), c09Depth).cut
			cutInto(fi, call.Block(), cut)
			if !fi.reachHit([]state{{loop.Body.Index, 0, -1}}, cut, map[int]bool{loop.Header.Index: true}) {
				okList = true
			}
		}
	}
	c.slot(okGate && okList, 1, "identity/overlap", "identities: the overlap check runs over every parsed x509.subject identity and its failure rejects the statement", site, fmt.Sprintf("gate=%v all-collected=%v", okGate, okList))
}

// c09Overlap checks the pair loops around the call of the subset function in OV and returns the list they range over
// (a parameter of OV, or a local list when the loops stand in the identity validator itself).
func c09Overlap(c *Ctx, OV *ssa.Function, isSubset func(*ssa.Call) bool) ssa.Value {
	w := c.W
	fi := w.Info(OV)
	c.SeenFn(OV.String())
	var sub *ssa.Call
	for _, ci := range allCalls(OV) {
		if call, ok := ci.(*ssa.Call); ok && isSubset(call) {
			sub = call
		}
	}
	site := w.FnPos(OV)
	rule := "overlap: both loops range over the complete identity list and every ordered pair i != j is tested with the subset function (the relation is not symmetric)"
	if sub == nil {
		c.Bad("identity/overlap/all-ordered-pairs", rule, site, "no call of the subset function")
		return nil
	}
	// the loops around the subset call
	var loops []loopRef
	for _, l := range allLoops(OV) {
		if loopBlocks(l.Header)[sub.Block().Index] {
			loops = append(loops, l)
		}
	}
	if len(loops) != 2 || loops[0].X != loops[1].X {
		n := 0
		if len(loops) > 0 {
			for _, l := range loops {
				if l.X == loops[0].X {
					n++
				}
			}
		}
		c.Bad("identity/overlap/all-ordered-pairs", rule, site, fmt.Sprintf("%d loops around the subset test, %d over one and the same complete list (a loop over a sub-slice such as list[i+1:] skips half of the ordered pairs)", len(loops), n))
		return nil
	}
	p := loops[0].X
	outer, inner := loops[0], loops[1]
	if loopBlocks(inner.Header)[outer.Header.Index] {
		outer, inner = inner, outer
	}
	// the inner iteration completes only if i == j or not subset(list[i], list[j])
	okPair := false
	{
		idxOf := func(v ssa.Value) ssa.Value {
			// <list>[idx].ParsedMap
			var walk func(v ssa.Value) ssa.Value
			walk = func(v ssa.Value) ssa.Value {
				switch x := v.(type) {
				case *ssa.UnOp:
					return walk(x.X)
				case *ssa.FieldAddr:
					return walk(x.X)
				case *ssa.Field:
					return walk(x.X)
				case *ssa.IndexAddr:
					if x.X == p {
						return x.Index
					}
				case *ssa.Index:
					if x.X == p {
						return x.Index
					}
				case *ssa.Alloc:
					if sv := singleStore(x); sv != nil {
						return walk(sv)
					}
				}
				return nil
			}
			return walk(v)
		}
		i0, i1 := idxOf(sub.Call.Args[0]), idxOf(sub.Call.Args[1])
		if i0 != nil && i1 != nil && i0 != i1 && ((i0 == outer.Idx && i1 == inner.Idx) || (i0 == inner.Idx && i1 == outer.Idx)) {
			sd := desc(sub)
			cut := fi.edgesMatching(func(l string, iff *ssa.If, truth bool) bool {
				if l == "F("+sd+")" {
					return true
				}
				// i == j on exactly these two index values
				cond := iff.Cond
				if bo, ok := cond.(*ssa.BinOp); ok {
					same := (bo.X == outer.Idx && bo.Y == inner.Idx) || (bo.X == inner.Idx && bo.Y == outer.Idx)
					if same && ((bo.Op.String() == "==" && truth) || (bo.Op.String() == "!=" && !truth)) {
						return true
					}
				}
				return false
			})
			if len(cut) >= 2 && !fi.reachHit([]state{{inner.Body.Index, 0, -1}}, cut, map[int]bool{inner.Header.Index: true}) {
				okPair = true
			}
		}
	}
	c.Evals++
	c.Check(okPair, "identity/overlap/all-ordered-pairs", rule, w.InstrPos(blockTerm(inner.Header)), "an ordered pair of distinct identities can pass without the subset test")
	// success only after the loops
	cut := map[edgeKey]bool{}
	cutInto(fi, outer.Header, cut)
	c.Check(fi.successWitness(Mode{Kind: mErr}, entryState(), cut) == nil, "identity/overlap/loop", "overlap: success only after all pairs", site, "the loops can be bypassed")
	return p
}

// c09ScopeAt: where the scope rules of the OCI document stand.
type c09ScopeAt struct {
	fn           *ssa.Function // the function that holds the loops: a module callee of the document validator, or the validator itself
	call         *ssa.Call     // the call of fn in the document validator (nil: the rules stand in the validator itself)
	stm          string        // the statement list, rendered in the frame of fn
	outer, inner *loopRef      // the statement loop and, inside it, the loop over the scopes of its statement
}

// c09ScopeSite finds the scope rules by role: the function that ranges over the RegistryScopes of every statement of the
// document — a module callee of the OCI validator that returns an error and is handed the document or its statement list
// (at whatever position, next to whatever other arguments), or the validator itself when the rules were inlined.
// When no candidate has both loops the last callee that is handed the statements is returned (the loops are reported missing).
func c09ScopeSite(w *World, ociV *ssa.Function) *c09ScopeAt {
	doc := "param:" + ociV.Params[0].Name()
	var cands []*c09ScopeAt
	for _, ci := range allCalls(ociV) {
		call, ok := ci.(*ssa.Call)
		if !ok {
			continue
		}
		g := c09Helper(w, call)
		r := call.Call.Signature().Results()
		if g == nil || r.Len() == 0 || !isErrorType(r.At(r.Len()-1).Type()) {
			continue
		}
		for i, a := range call.Call.Args {
			switch desc(a) {
			case doc:
				cands = append(cands, &c09ScopeAt{fn: g, call: call, stm: "param:" + g.Params[i].Name() + ".TrustPolicies"})
			case doc + ".TrustPolicies":
				cands = append(cands, &c09ScopeAt{fn: g, call: call, stm: "param:" + g.Params[i].Name()})
			}
		}
	}
	cands = append(cands, &c09ScopeAt{fn: ociV, stm: doc + ".TrustPolicies"})
	var best, lastCall *c09ScopeAt
	for _, at := range cands {
		for _, o := range allLoops(at.fn) {
			o := o
			if desc(o.X) != at.stm {
				continue
			}
			if at.outer == nil {
				at.outer = &o
			}
			in := loopBlocks(o.Header)
			for _, l := range allLoops(at.fn) {
				l := l
				if l.Header == o.Header || !in[l.Header.Index] {
					continue
				}
				if p, ok := c09ElemPath(w, at.fn, l.X, &o); ok && p == ".RegistryScopes" {
					at.outer, at.inner = &o, &l
				}
			}
		}
		if at.inner != nil && (best == nil || best.call == nil) {
			best = at
		}
		if at.call != nil {
			lastCall = at
		}
	}
	if best != nil {
		return best
	}
	return lastCall
}

// c09ScopeCall: the call of the scope validator in the OCI validator (nil when there is none).
func c09ScopeCall(w *World, ociV *ssa.Function) *ssa.Call {
	if at := c09ScopeSite(w, ociV); at != nil {
		return at.call
	}
	return nil
}

func c09Scopes(c *Ctx, ociV *ssa.Function) {
	w := c.W
	at := c09ScopeSite(w, ociV)
	if at == nil {
		c.Bad("scope/anchor", "scope rules are applied to the document", w.FnPos(ociV), "no scope validator is called with the document or its statements")
		return
	}
	SC := at.fn
	fi := w.Info(SC)
	c.SeenFn(SC.String())
	m := Mode{Kind: mErr}
	wc, _ := w.constString("internal/trustpolicy", "Wildcard")
	// the statement loop, and inside it the scope loop: the loop that ranges over the RegistryScopes of the statement of
	// the current iteration — the element at the loop's own index, read in place or through a read-only local copy
	// (c09ElemPath; decided on SSA values, not on how the statement is spelled)
	outer, inner := at.outer, at.inner
	// the scope counts: a map[string]int made in the validator, ranged over after the statement loop
	var uniq *loopRef
	for _, l := range allLoops(SC) {
		l := l
		if mm, ok := l.X.(*ssa.MakeMap); ok && abbrev(types.TypeString(mm.Type(), nil)) == "map[string]int" {
			uniq = &l
		}
	}
	// several loops may range over the scopes of the statement (the checks split from the counting): the scope loop of
	// the counting rules below is the one that holds the update of the counts
	if outer != nil && inner != nil && uniq != nil {
		in := loopBlocks(outer.Header)
		for _, l := range allLoops(SC) {
			l := l
			if l.Header == outer.Header || !in[l.Header.Index] {
				continue
			}
			if p, ok := c09ElemPath(w, SC, l.X, outer); !ok || p != ".RegistryScopes" {
				continue
			}
			for bi := range loopBlocks(l.Header) {
				for _, ins := range SC.Blocks[bi].Instrs {
					if x, ok := ins.(*ssa.MapUpdate); ok && x.Map == uniq.X {
						inner = &l
					}
				}
			}
		}
	}
	if outer == nil || inner == nil || uniq == nil {
		c.Bad("scope/loops", "scope rules: loops over statements, their scopes and the scope counts", w.FnPos(SC), fmt.Sprintf("statements=%v scopes=%v counts=%v", outer != nil, inner != nil, uniq != nil))
		return
	}
	osite := w.InstrPos(blockTerm(outer.Header))
	sc := desc(inner.X)
	// per statement: non-empty scopes and wildcard alone. A statement passes — its iteration of the statement loop
	// completes, the document validator cannot succeed from inside it — only through an edge on which the rule's fact
	// holds. Where the test stands does not matter (before the scope loop, after it, as one materialised condition, in
	// a per-statement helper whose success the iteration requires: c09GateCutQ); that every statement has its
	// iteration is scope/every-statement-visited.
	// "The wildcard stands alone" is: at most one scope, or no scope is the wildcard — slices.Contains answering
	// false, or the same thing spelled as a loop over all the scopes none of which equals the wildcard (c09Universal).
	b, n := iterBlockedQ(w, SC, outer, m, anyOf("NE(len("+sc+"),const:0)", "GT(len("+sc+"),const:0)", "GE(len("+sc+"),const:1)"))
	c.slot(b, n, "scope/present", "scopes: every statement has at least one registry scope", osite, "")
	b, n = iterBlockedQ(w, SC, outer, m, c09AtMostOneOrNot(sc, wc), c09NoneIs(sc, wc))
	c.slot(b && n >= 2, n, "scope/wildcard-alone", "scopes: the wildcard scope stands alone", osite, "")
	// success only through the statement loop
	{
		cut := map[edgeKey]bool{}
		cutInto(fi, outer.Header, cut)
		c.slot(fi.successWitness(m, entryState(), cut) == nil, 1, "scope/every-statement-visited", "scopes: the scope rules are applied to every statement", osite, "the statement loop of the scope rules can be bypassed")
	}
	// the outer iteration completes only through the scope loop
	{
		cut := map[edgeKey]bool{}
		cutInto(fi, inner.Header, cut)
		c.slot(!fi.reachHit([]state{{outer.Body.Index, 0, -1}}, cut, map[int]bool{outer.Header.Index: true}), 1, "scope/every-scope-visited", "scopes: every scope of every statement is visited", osite, "the scope loop can be bypassed")
	}
	isite := w.InstrPos(blockTerm(inner.Header))
	el := sc + "["
	// the format rule: every scope of the statement is the wildcard or passed the format validator — a module
	// function that returns an error and is handed the scope (a function of the scope, or a method of an object that
	// carries the compiled patterns), its error being nil. The fact is universal over the scopes of the statement: it is
	// established by a loop over all of them each of whose iterations passes one of the two element facts — the scope
	// loop of the validator itself, a second loop next to the one that counts, or a loop in a per-statement helper
	// whose success the statement's iteration requires (c09Universal) — and a statement passes only through it.
	type fmAt struct {
		f   *ssa.Function
		arg int
	}
	var fms []fmAt
	fmOK := func(e string) EdgeSel {
		wild := fmt.Sprintf("EQ(%s,const:%q)", e, wc)
		return func(l string, _ *ssa.If, _ bool) bool {
			if l == wild {
				return true
			}
			if !strings.HasPrefix(l, "EQ(call:") || !strings.HasSuffix(l, "#err,nil)") {
				return false
			}
			name, args, ok := c09ParseCall(strings.TrimSuffix(strings.TrimPrefix(l, "EQ("), "#err,nil)"))
			if !ok {
				return false
			}
			f := fnByFullName(w, name)
			if f == nil || !w.IsProductFn(f) || len(f.Params) != len(args) {
				return false
			}
			if r := f.Signature.Results(); r.Len() == 0 || !isErrorType(r.At(r.Len()-1).Type()) {
				return false
			}
			for i, a := range args {
				if a == e {
					known := false
					for _, x := range fms {
						known = known || (x.f == f && x.arg == i)
					}
					if !known {
						fms = append(fms, fmAt{f, i})
					}
					return true
				}
			}
			return false
		}
	}
	b, n = iterBlockedQ(w, SC, outer, m, c09NoFact, c09ForAll{list: sc, elem: fmOK})
	c.slot(b && n >= 2, n, "scope/format", "scopes: every non-wildcard scope has a valid repository format", isite, "a malformed scope is accepted")
	// every scope (wildcard included) is counted on every completed inner iteration
	var mu *ssa.MapUpdate
	for bi := range loopBlocks(inner.Header) {
		for _, in := range SC.Blocks[bi].Instrs {
			if x, ok := in.(*ssa.MapUpdate); ok && x.Map == uniq.X {
				mu = x
			}
		}
	}
	okCount := false
	if mu != nil && strings.HasPrefix(desc(mu.Key), el) {
		cut := map[edgeKey]bool{}
		cutInto(fi, mu.Block(), cut)
		if mu.Block() == inner.Body || !fi.reachHit([]state{{inner.Body.Index, 0, -1}}, cut, map[int]bool{inner.Header.Index: true}) {
			// the stored value is count+1
			cur := desc(uniq.X) + "[" + desc(mu.Key) + "]"
			if v := desc(mu.Value); v == "("+cur+" + const:1)" || v == "(const:1 + "+cur+")" {
				okCount = true
			}
		}
	}
	c.slot(okCount, 1, "scope/every-scope-counted", "scopes: every scope value, the wildcard included, is counted once per occurrence", isite, "some scope values are not counted (they escape the uniqueness rule)")
	// uniqueness loop over the same map: the count of the entry — looked up with the range key, or the range value
	// itself, which is that entry as long as the loop does not write the map — must not exceed 1
	labels, _ := fi.mustPassBetween([]int{uniq.Body.Index}, map[int]bool{uniq.Header.Index: true})
	md := desc(uniq.X)
	entry := []string{md + "[rangekey(" + md + ")]"}
	written := false
	for bi := range loopBlocks(uniq.Header) {
		for _, in := range SC.Blocks[bi].Instrs {
			if x, ok := in.(*ssa.MapUpdate); ok && x.Map == uniq.X {
				written = true
			}
		}
	}
	if !written {
		entry = append(entry, "rangeval("+md+")")
	}
	h := false
	for _, e := range entry {
		if labelHas(labels, "LE("+e+",const:1)") || labelHas(labels, "LT("+e+",const:2)") {
			h = true
		}
	}
	cut := map[edgeKey]bool{}
	cutInto(fi, uniq.Header, cut)
	c.slot(h && fi.successWitness(m, entryState(), cut) == nil, 1, "scope/unique", "scopes: a scope value is used by at most one statement", w.InstrPos(blockTerm(uniq.Header)), "a scope used twice is accepted")
	// scope format function: every function whose "no error" was accepted as the format fact above
	for _, x := range fms {
		c09ScopeFormat(c, x.f, x.arg)
	}
}

// c09ScopeFormat: the rules of the scope format validator FM; fmArg is the position of the scope among its parameters.
func c09ScopeFormat(c *Ctx, FM *ssa.Function, fmArg int) {
	w := c.W
	m := Mode{Kind: mErr}
	c.SeenFn(FM.String())
	fs := w.Summarize(FM, m)
	p := "param:" + FM.Params[fmArg].Name()
	fsite := w.FnPos(FM)
	// strings.Contains(s, sep) and the `found` answer of strings.Cut(s, sep) (also written strings.Index(s, sep) >= 0) are the same predicate
	// (so are strings.ContainsRune(s, '*'), strings.ContainsAny(s, "*") and strings.Count(s, "*") != 0)
	ok, n2, wit := exitsBlockedDeep(w, FM, m, anyOf("LE(len("+p+"),const:1)", "F(call:strings.Contains("+p+`,const:"*"))`, "F(call:strings.Cut("+p+`,const:"*")#2)`,
		"F(call:strings.ContainsRune("+p+",const:42))", "F(call:strings.ContainsAny("+p+`,const:"*"))`, "EQ(call:strings.Count("+p+`,const:"*"),const:0)`))
	c.slot(ok && n2 >= 2, n2, "scope-format/no-embedded-wildcard", "scope format: no '*' inside a longer scope", fsite, "", wit...)
	hasAll := func(subs ...string) bool {
		if len(fs.Exits) == 0 {
			return false
		}
		for _, ex := range fs.Exits {
			if _, ok := hasLabel(ex.Checked, subs...); !ok {
				return false
			}
		}
		return true
	}
	cutD := "call:strings.Cut(" + p + `,const:"/")`
	// The three facts about the two halves of the scope are decided on the must-pass facts of every success exit, closed
	// under what the contract of strings.Cut and the constant patterns entail (c09CutFacts): a guard that another guard
	// of the same exit subsumes need not be spelled out (`domain, repository, _ := strings.Cut(scope, "/")` followed by
	// `repository == ""` rejects the scope without separator as well).
	cf := c09NewCutFacts(w, FM, p, `const:"/"`)
	c.slot(hasAll("T("+cutD+"#2)") || cf.onAll(fs, cfFound), 1, "scope-format/has-slash", "scope format: domain/repository separator present", fsite, "")
	c.slot(hasAll("NE("+cutD+`#0,const:"")`) || cf.onAll(fs, cfBefore), 1, "scope-format/domain-non-empty", "scope format: non-empty domain", fsite, "")
	c.slot(hasAll("NE("+cutD+`#1,const:"")`) || cf.onAll(fs, cfAfter), 1, "scope-format/repository-non-empty", "scope format: non-empty repository", fsite, "")
	for i, part := range []string{"domain", "repository"} {
		// every success exit lies behind the true edge of a MatchString call on this part whose receiver is a
		// compiled constant pattern (compiled in place, or kept in a field / package variable that only ever holds
		// that compiled constant: c09RegexpPattern)
		okRe := false
		for _, ci := range allCalls(FM) {
			ms, isCall := ci.(*ssa.Call)
			if !isCall || calleeName(ms) != "(*regexp.Regexp).MatchString" || len(ms.Call.Args) != 2 {
				continue
			}
			if desc(ms.Call.Args[1]) != fmt.Sprintf("%s#%d", cutD, i) {
				continue
			}
			if _, isConst := c09RegexpPattern(w, ms.Call.Args[0], 0); !isConst {
				continue
			}
			if hasAll("T(" + desc(ms) + ")") {
				okRe = true
			}
		}
		c.slot(okRe && len(fs.Exits) > 0, 1, "scope-format/"+part+"-pattern", "scope format: the "+part+" matches its constant pattern", fsite, "")
	}
}

// c09DeepEqual: reflect.DeepEqual on operands of different static types can never be true.
func c09DeepEqual(c *Ctx) {
	w := c.W
	n := 0
	for _, fn := range w.Funcs {
		for _, ci := range allCalls(fn) {
			call, ok := ci.(*ssa.Call)
			if !ok || calleeName(call) != "reflect.DeepEqual" {
				continue
			}
			n++
			c.Evals++
			a, b := unwrap(call.Call.Args[0]), unwrap(call.Call.Args[1])
			ta, tb := a.Type(), b.Type()
			_, ia := ta.Underlying().(*types.Interface)
			_, ib := tb.Underlying().(*types.Interface)
			c.Check(types.Identical(ta, tb) || ia || ib, fmt.Sprintf("dead-comparison/%s#%d", fnName(fn), n), "no comparison that cannot be true: reflect.DeepEqual operands have the same static type", w.InstrPos(call),
				fmt.Sprintf("DeepEqual(%s, %s) is never true: the rule it guards is dead", ta, tb))
		}
	}
	if n == 0 {
		c.OK("dead-comparison/none", "no reflect.DeepEqual in product code", "-")
	}
}

// c09Forced: verifier objects only come from the constructor, which validates every non-nil document.
func c09Forced(c *Ctx) {
	w := c.W
	var ctor *ssa.Function
	n := 0
	for _, fn := range w.FuncsOfPkg("verifier") {
		for _, b := range fn.Blocks {
			for _, in := range b.Instrs {
				if al, ok := in.(*ssa.Alloc); ok && namedOf(al.Type()) == w.verifierTypeName() {
					n++
					ctor = fn
				}
			}
		}
	}
	c.Check(n == 1, "forced/single-constructor", "who-may-allocate: verifier objects are created in exactly one function", w.FnPos(ctor), fmt.Sprintf("%d allocation sites", n))
	if ctor == nil {
		return
	}
	c.SeenFn(ctor.String())
	for _, kind := range []string{"OCIDocument", "BlobDocument"} {
		key := "forced/validate-" + strings.ToLower(kind)
		validate := "(*ngo/verifier/trustpolicy." + kind + ").Validate"
		// the document kept by the verifier: what is stored into its field of this document type
		var docs []string
		var site ssa.Instruction
		for _, b := range ctor.Blocks {
			for _, in := range b.Instrs {
				if st, ok := in.(*ssa.Store); ok {
					if fa, ok := st.Addr.(*ssa.FieldAddr); ok && namedOf(fa.X.Type()) == w.verifierTypeName() && namedOf(st.Val.Type()) == "ngo/verifier/trustpolicy."+kind {
						docs = append(docs, desc(st.Val))
						site = st
					}
				}
			}
		}
		for _, ci := range allCalls(ctor) {
			if call, ok := ci.(*ssa.Call); ok && calleeName(call) == validate {
				site = call
			}
		}
		if site == nil {
			c.Bad(key, "the constructor validates the "+kind, w.FnPos(ctor), "no document of this kind is kept, Validate is not called")
			continue
		}
		docs = uniq(docs)
		// The document that is kept is nil or passed Validate: with the edges "document == nil" and "Validate(document)
		// returned no error" removed, no success exit of the constructor is reachable. The two tests may stand in the
		// constructor or in a module helper whose success it requires (exitsBlockedDeep: the helper's facts are read
		// with its parameters replaced by the arguments, so they are facts about this very document).
		okV, nV := len(docs) == 1, 0
		var wit []string
		if okV {
			okV, nV, wit = exitsBlockedDeep(w, ctor, Mode{Kind: mErr}, anyOf("EQ("+docs[0]+",nil)", "EQ(call:"+validate+"("+docs[0]+")#err,nil)"))
		}
		c.slot(okV && nV >= 2, nV, key, "construction: a non-nil "+kind+" must pass Validate", w.InstrPos(site), "a verifier can be constructed with an invalid document", wit...)
		c.Check(len(docs) == 1, key+"-stored", "the document kept by the verifier is the one that was validated", w.InstrPos(site), fmt.Sprintf("documents stored: %v", docs))
	}
	// at least one document
	s := w.Summarize(ctor, Mode{Kind: mErr})
	_ = s
}

// c09FileName: certified sanitizer.
func c09FileName(c *Ctx) {
	w := c.W
	fn := w.Func("internal/file", "IsValidFileName")
	if fn == nil {
		c.Unk("file-name/anchor", "anchor: internal/file.IsValidFileName", "-", "not found")
		return
	}
	ok, why := certifyFileNameValidator(w, fn)
	c.Evals++
	c.Check(ok, "file-name/certified", "certified sanitizer: the language accepted by the file-name validator contains no path separator, no NUL, and neither \".\" nor \"..\" nor the empty string", w.FnPos(fn), why)
}

// certifyFileNameValidator analyses the validator's body: true results require
// a match of a constant, fully anchored pattern whose every character class
// excludes '/', '\\' and NUL and that cannot match the empty string; the
// dot-only names are excluded by the pattern or by explicit comparisons.
func certifyFileNameValidator(w *World, fn *ssa.Function) (bool, string) {
	s := w.Summarize(fn, Mode{Kind: mBool, Want: true})
	if len(s.Exits) == 0 {
		return false, "no true exit"
	}
	p := "param:" + fn.Params[0].Name()
	for _, ex := range s.Exits {
		var pat string
		for l := range ex.Checked {
			pfx := "T(call:(*regexp.Regexp).MatchString(call:regexp.MustCompile(const:"
			if strings.HasPrefix(l, pfx) && strings.HasSuffix(l, "),"+p+"))") {
				q := strings.TrimSuffix(strings.TrimPrefix(l, pfx), "),"+p+"))")
				var err error
				pat, err = unquote(q)
				if err != nil {
					return false, "pattern constant unreadable"
				}
			}
		}
		if pat == "" {
			// no pattern: the validator may walk the bytes of the name itself (c09ByteLoopValidator)
			ok, why := c09ByteLoopValidator(w, fn, ex)
			if ok {
				continue
			}
			return false, "a true result requires neither a match of a constant pattern on the whole argument nor a complete walk over safe bytes (" + why + ") (exit " + w.InstrPos(ex.Ret) + ")"
		}
		re, err := syntax.Parse(pat, syntax.Perl)
		if err != nil {
			return false, "pattern does not compile: " + err.Error()
		}
		re = re.Simplify()
		if !anchoredBothEnds(re) {
			return false, "pattern " + pat + " is not anchored at both ends"
		}
		if bad := forbiddenRune(re); bad != "" {
			return false, "pattern " + pat + " admits " + bad
		}
		if canMatchEmpty(re) {
			return false, "pattern " + pat + " matches the empty string"
		}
		for _, word := range []string{".", ".."} {
			if matchesWord(re, word) {
				if !labelHas(ex.Checked, fmt.Sprintf("NE(%s,const:%q)", p, word)) {
					return false, fmt.Sprintf("the name %q is accepted (the pattern matches it and no explicit comparison excludes it)", word)
				}
			}
		}
	}
	return true, ""
}

func unquote(q string) (string, error) {
	var s string
	_, err := fmt.Sscanf(q, "%q", &s)
	return s, err
}

func anchoredBothEnds(re *syntax.Regexp) bool {
	if re.Op != syntax.OpConcat || len(re.Sub) < 2 {
		return false
	}
	first, last := re.Sub[0], re.Sub[len(re.Sub)-1]
	return (first.Op == syntax.OpBeginText) && (last.Op == syntax.OpEndText)
}

func forbiddenRune(re *syntax.Regexp) string {
	bad := []rune{'/', '\\', 0}
	switch re.Op {
	case syntax.OpLiteral:
		for _, r := range re.Rune {
			for _, b := range bad {
				if r == b {
					return fmt.Sprintf("%q", b)
				}
			}
		}
	case syntax.OpCharClass:
		for i := 0; i+1 < len(re.Rune); i += 2 {
			for _, b := range bad {
				if re.Rune[i] <= b && b <= re.Rune[i+1] {
					return fmt.Sprintf("%q", b)
				}
			}
		}
	case syntax.OpAnyChar, syntax.OpAnyCharNotNL:
		return "any character"
	}
	for _, s := range re.Sub {
		if b := forbiddenRune(s); b != "" {
			return b
		}
	}
	return ""
}

func canMatchEmpty(re *syntax.Regexp) bool {
	switch re.Op {
	case syntax.OpEmptyMatch, syntax.OpBeginText, syntax.OpEndText, syntax.OpBeginLine, syntax.OpEndLine, syntax.OpStar, syntax.OpQuest, syntax.OpWordBoundary, syntax.OpNoWordBoundary:
		return true
	case syntax.OpLiteral:
		return len(re.Rune) == 0
	case syntax.OpCharClass, syntax.OpAnyChar, syntax.OpAnyCharNotNL:
		return false
	case syntax.OpPlus, syntax.OpCapture:
		return canMatchEmpty(re.Sub[0])
	case syntax.OpRepeat:
		return re.Min == 0 || canMatchEmpty(re.Sub[0])
	case syntax.OpConcat:
		for _, s := range re.Sub {
			if !canMatchEmpty(s) {
				return false
			}
		}
		return true
	case syntax.OpAlternate:
		for _, s := range re.Sub {
			if canMatchEmpty(s) {
				return true
			}
		}
		return false
	}
	return true
}

// matchesWord decides whether the (parsed, constant) pattern matches a fixed
// word by structural matching over the syntax tree (no regexp execution of
// repository code is involved: the pattern is a constant and the word is one
// of two fixed strings).
func matchesWord(re *syntax.Regexp, word string) bool {
	ends := matchEnds(re, []rune(word), 0)
	for _, e := range ends {
		if e == len([]rune(word)) {
			return true
		}
	}
	return false
}

func matchEnds(re *syntax.Regexp, w []rune, at int) []int {
	switch re.Op {
	case syntax.OpEmptyMatch:
		return []int{at}
	case syntax.OpBeginText, syntax.OpBeginLine:
		if at == 0 {
			return []int{at}
		}
		return nil
	case syntax.OpEndText, syntax.OpEndLine:
		if at == len(w) {
			return []int{at}
		}
		return nil
	case syntax.OpLiteral:
		if at+len(re.Rune) > len(w) {
			return nil
		}
		for i, r := range re.Rune {
			if w[at+i] != r {
				return nil
			}
		}
		return []int{at + len(re.Rune)}
	case syntax.OpCharClass:
		if at >= len(w) {
			return nil
		}
		for i := 0; i+1 < len(re.Rune); i += 2 {
			if re.Rune[i] <= w[at] && w[at] <= re.Rune[i+1] {
				return []int{at + 1}
			}
		}
		return nil
	case syntax.OpAnyChar, syntax.OpAnyCharNotNL:
		if at < len(w) {
			return []int{at + 1}
		}
		return nil
	case syntax.OpCapture:
		return matchEnds(re.Sub[0], w, at)
	case syntax.OpConcat:
		cur := []int{at}
		for _, s := range re.Sub {
			var next []int
			seen := map[int]bool{}
			for _, p := range cur {
				for _, e := range matchEnds(s, w, p) {
					if !seen[e] {
						seen[e] = true
						next = append(next, e)
					}
				}
			}
			cur = next
			if len(cur) == 0 {
				return nil
			}
		}
		return cur
	case syntax.OpAlternate:
		var out []int
		for _, s := range re.Sub {
			out = append(out, matchEnds(s, w, at)...)
		}
		return out
	case syntax.OpStar, syntax.OpPlus, syntax.OpQuest, syntax.OpRepeat:
		min, max := 0, -1
		switch re.Op {
		case syntax.OpPlus:
			min = 1
		case syntax.OpQuest:
			max = 1
		case syntax.OpRepeat:
			min, max = re.Min, re.Max
		}
		seen := map[int]bool{}
		var out []int
		cur := []int{at}
		for n := 0; ; n++ {
			if n >= min {
				for _, p := range cur {
					if !seen[p] {
						seen[p] = true
						out = append(out, p)
					}
				}
			}
			if (max >= 0 && n >= max) || n > len(w)+1 {
				break
			}
			var next []int
			ns := map[int]bool{}
			for _, p := range cur {
				for _, e := range matchEnds(re.Sub[0], w, p) {
					if e > p && !ns[e] {
						ns[e] = true
						next = append(next, e)
					}
				}
			}
			if len(next) == 0 {
				break
			}
			cur = next
		}
		return out
	}
	return nil
}

// c09Level: level name rules in GetVerificationLevel.
func c09Level(c *Ctx) {
	w := c.W
	fn := w.Method("verifier/trustpolicy", "SignatureVerification", "GetVerificationLevel")
	if fn == nil {
		return
	}
	s := w.Summarize(fn, Mode{Kind: mErr})
	c.Evals += s.States
	p := "param:" + fn.Params[0].Name()
	want := p + ".VerificationLevel"
	const lvlT = "ngo/verifier/trustpolicy.VerificationLevel"
	// guarded: the value, walked back through phis (a loop-carried variable), is nil or an element of VerificationLevels
	// that enters its phi behind the fact "its Name equals the configured level name" — nothing else can flow into it.
	guarded := func(f *ssa.Function, frame func(string) string, v ssa.Value) bool {
		fi := w.Info(f)
		seen := map[ssa.Value]bool{}
		n := 0
		var walk func(v ssa.Value, pred *ssa.BasicBlock) bool
		walk = func(v ssa.Value, pred *ssa.BasicBlock) bool {
			if ph, ok := v.(*ssa.Phi); ok {
				if seen[ph] {
					return true
				}
				seen[ph] = true
				for i, e := range ph.Edges {
					if !walk(e, ph.Block().Preds[i]) {
						return false
					}
				}
				return true
			}
			if isNilConst(v) {
				return true
			}
			d := desc(v)
			if pred == nil || !strings.HasPrefix(d, "global:ngo/verifier/trustpolicy.VerificationLevels[") {
				return false
			}
			g, _ := fi.mustPassBetween([]int{0}, map[int]bool{pred.Index: true})
			for l := range g {
				if frame(l) == "EQ("+d+".Name,"+want+")" {
					n++
					return true
				}
			}
			return false
		}
		return walk(v, nil) && n > 0
	}
	// the base level: the nil-tested *VerificationLevel that is selected that way — in the method itself, or by a module
	// helper that is handed the configured name and returns the selection on every exit (its guard is read in the helper,
	// the parameter replaced by the argument)
	var base ssa.Value
	for _, b := range fn.Blocks {
		iff, ok := blockTerm(b).(*ssa.If)
		if !ok || base != nil {
			continue
		}
		bo, ok := iff.Cond.(*ssa.BinOp)
		if !ok {
			continue
		}
		var x ssa.Value
		if isNilConst(bo.Y) {
			x = bo.X
		} else if isNilConst(bo.X) {
			x = bo.Y
		}
		if x == nil || namedOf(x.Type()) != lvlT {
			continue
		}
		if _, isPtr := x.Type().Underlying().(*types.Pointer); !isPtr {
			continue
		}
		if call, isCall := x.(*ssa.Call); isCall {
			g := c09Helper(w, call)
			if g == nil || g.Signature.Results().Len() != 1 {
				continue
			}
			fr := c09TopFrame().enter(call)
			all, n := true, 0
			for _, gb := range g.Blocks {
				if r, isRet := blockTerm(gb).(*ssa.Return); isRet {
					n++
					if len(r.Results) != 1 || !guarded(g, fr.sub, r.Results[0]) {
						all = false
					}
				}
			}
			if all && n > 0 {
				base = x
			}
			continue
		}
		if guarded(fn, func(s string) string { return s }, x) {
			base = x
		}
	}
	known := Need{Name: "known", What: "level name equals the name of one of the four levels (base level found)", Subs: []string{"NE(phi(", ",nil)"}}
	if base != nil {
		known.Subs = []string{"NE(" + desc(base) + ",nil)"}
	}
	c.requireOnExits("level", fn, s.Exits, []Need{
		{Name: "non-empty", What: "level name is not empty", Subs: []string{"NE(" + p + `.VerificationLevel,const:"")`}},
		known,
	})
	c.Check(base != nil, "level/by-name", "the base level is the element of VerificationLevels whose Name equals the configured level name", w.FnPos(fn), "the base level is chosen otherwise")
}
