package main

import (
	"go/types"
	"fmt"
	"strings"

	"golang.org/x/tools/go/ssa"
)

func init() {
	register(&Rule{
		ID:    "C10",
		Title: "registry verification stops at the first good signature, within the limit",
		Run:   runC10,
		Explain: "(a) precedence: every call on the registry.Repository value (in notation.Verify and in the listing callback) is cut by verifier != nil, repo != nil, MaxSignatureAttempts > 0 and, when the verifier implements the skipper, by skip == false; the skip exit precedes any repository call; " +
			"(b) reference gates: parse error, empty reference, resolve error and (for digest references) digest != resolved digest are fail-closed; listing and verification use the descriptor Resolve returned; " +
			"(c) bound: the attempt counter is a cell allocated in the outer function with constant 0, written in the callback only by one +1 store; every FetchSignatureBlob and Verifier.Verify call is cut by counter < MaxSignatureAttempts of the caller's options and preceded by that store in the same iteration; " +
			"(d) early exit: from Verifier.Verify err == nil no further fetch/verify call, no loop continuation and no nil return of the callback is reachable; the outcome list stored is exactly that call's outcome; the success flag is set only there; " +
			"the outer success exit requires the flag, a non-zero counter and returns the resolved descriptor with those outcomes; (e) a fetch error and a nil outcome leave the callback only through failing exits.",
		NotCov:  "how concrete repositories page their listing (the callback may be invoked any number of times: the rules hold per invocation and for the shared counter cell).",
		Trusted: []string{"go/types, go/ssa", "oras-go registry.ParseReference / ValidateReferenceAsDigest", "registry.Repository implementations call the callback sequentially"},
	})
}

func runC10(c *Ctx) {
	w := c.W
	var W *ssa.Function
	var list *ssa.Call
	for _, fn := range w.FuncsOfPkg("") {
		for _, ci := range allCalls(fn) {
			if call, ok := ci.(*ssa.Call); ok && calleeName(call) == "invoke:ngo/registry.Repository.ListSignatures" && fn.Parent() == nil {
				W, list = fn, call
			}
		}
	}
	if W == nil {
		c.Unk("anchor", "anchor: the function that lists signatures of a repository (notation.Verify)", "-", "not found")
		return
	}
	c.SeenFn(W.String())
	fi := w.Info(W)
	mc, ok := list.Call.Args[2].(*ssa.MakeClosure)
	if !ok {
		c.Unk("anchor/callback", "anchor: the listing callback is a function literal", w.InstrPos(list), "the callback is "+desc(list.Call.Args[2]))
		return
	}
	CB := mc.Fn.(*ssa.Function)
	c.SeenFn(CB.String())
	cfi := w.Info(CB)
	// free variable -> binding in W
	bind := map[string]ssa.Value{}
	for i, fv := range CB.FreeVars {
		bind[fv.Name()] = mc.Bindings[i]
	}
	site := w.FnPos(W)
	probeAgreement(c, W, "skip/probe")

	// ---- (a) precedence ---------------------------------------------------
	var repoCalls []*ssa.Call
	for _, ci := range allCalls(W) {
		if call, ok := ci.(*ssa.Call); ok && strings.HasPrefix(calleeName(call), "invoke:ngo/registry.Repository.") {
			repoCalls = append(repoCalls, call)
		}
	}
	verD, repoD := "", ""
	for _, p := range W.Params {
		switch namedOf(p.Type()) {
		case "ngo.Verifier":
			verD = paramDesc(W, p)
		case "ngo/registry.Repository":
			repoD = paramDesc(W, p)
		}
	}
	// the optional skip interface: the module interface probed on the verifier with a comma-ok assertion
	skipI, skipM := "ngo.?", "?"
	for _, b := range W.Blocks {
		for _, in := range b.Instrs {
			if ta, ok := in.(*ssa.TypeAssert); ok && ta.CommaOk && desc(ta.X) == verD {
				if it, ok := ta.AssertedType.Underlying().(*types.Interface); ok && it.NumMethods() > 0 {
					skipI = abbrev(types.TypeString(ta.AssertedType, nil))
					skipM = it.Method(0).Name()
				}
			}
		}
	}
	var optsD string
	for _, p := range W.Params {
		if namedOf(p.Type()) == "ngo.VerifyOptions" {
			optsD = paramDesc(W, p)
		}
	}
	for _, call := range repoCalls {
		g := fi.GuardsOf(call)
		name := strings.TrimPrefix(calleeName(call), "invoke:ngo/registry.Repository.")
		c.Evals++
		okNil := labelHas(g, "NE("+verD+",nil)") && labelHas(g, "NE("+repoD+",nil)")
		okMax := labelHas(g, "GT("+optsD+".MaxSignatureAttempts,const:0)") || labelHas(g, "GE("+optsD+".MaxSignatureAttempts,const:1)")
		c.Check(okNil, "precedence/nil-checks/"+name, "effect-site gate: the repository is used only with a non-nil verifier and repository", w.InstrPos(call), "guards: "+summarizeLabels(g, 6))
		c.Check(okMax, "precedence/positive-limit/"+name, "effect-site gate: the repository is used only with MaxSignatureAttempts > 0", w.InstrPos(call), "guards: "+summarizeLabels(g, 6))
		cut := fi.edgesMatching(matchOf(pre("F(ok(assert("+verD+","+skipI+")))"), pre("F(call:invoke:"+skipI+"."+skipM+"(", "#0)")))
		hit := fi.reachHit(entryState(), cut, blocksOf(call))
		c.Check(len(cut) >= 2 && !hit, "precedence/skip-first/"+name, "effect-site gate (disjunctive): the repository is used only if the verifier is no skipper or SkipVerify answered false", w.InstrPos(call), "the repository can be touched although the policy level is skip")
		// the SkipVerify error is fail-closed
		if _, h := hasLabel(g, "EQ(call:invoke:"+skipI+"."+skipM+"(", "#err,nil)"); !h {
			cut2 := fi.edgesMatching(matchOf(pre("F(ok(assert("+verD+","+skipI+")))"), pre("EQ(call:invoke:"+skipI+"."+skipM+"(", "#err,nil)")))
			c.Check(!fi.reachHit(entryState(), cut2, blocksOf(call)), "precedence/skip-error/"+name, "a SkipVerify error is fail-closed", w.InstrPos(call), "the repository is used after a SkipVerify error")
		}
	}
	if len(repoCalls) < 2 {
		c.Unk("precedence#count", "vacuity guard: Resolve and ListSignatures", site, fmt.Sprintf("%d repository calls in %s", len(repoCalls), fnName(W)))
	}
	// the callback is used only as the ListSignatures argument
	uses := 0
	for _, r := range *mc.Referrers() {
		if _, dbg := r.(*ssa.DebugRef); !dbg {
			uses++
		}
	}
	c.Check(uses == 1, "precedence/callback-only-listed", "the callback is invoked only by ListSignatures", w.InstrPos(mc), fmt.Sprintf("%d uses of the closure", uses))

	// ---- (b) reference gates ----------------------------------------------
	s := w.Summarize(W, Mode{Kind: mErr})
	c.Evals += s.States
	var listExits []*ExitSum // success exits that went through the listing
	for _, ex := range s.Exits {
		if _, h := hasLabel(ex.Checked, "T(call:invoke:"+skipI+"."+skipM+"(", "#0)"); h {
			continue
		}
		if ex.Class != clSuccess {
			continue // exits returning a computed error (errors.Join of the recorded failures) are not success exits
		}
		listExits = append(listExits, ex)
	}
	var resolve *ssa.Call
	for _, call := range repoCalls {
		if strings.HasSuffix(calleeName(call), ".Resolve") {
			resolve = call
		}
	}
	if resolve == nil {
		c.Bad("reference/resolve", "the reference is resolved by the repository", site, "Repository.Resolve is not called")
		return
	}
	refD := desc(resolve.Call.Args[1])
	c.requireOnExits("reference", W, listExits, []Need{
		{Name: "parse", What: "registry.ParseReference err == nil", Subs: []string{"EQ(call:oras/registry.ParseReference(", "#err,nil)"}},
		{Name: "non-empty", What: "the reference has a tag or digest", Subs: []string{"NE(call:oras/registry.ParseReference(", `#0.Reference,const:"")`}},
		{Name: "resolve", What: "Repository.Resolve err == nil", Subs: []string{"EQ(" + desc(resolve) + "#err,nil)"}},
	})
	c.Check(strings.HasPrefix(refD, "call:oras/registry.ParseReference(") && strings.HasSuffix(refD, "#0.Reference"), "reference/resolved-value", "provenance: what is resolved is the reference part of the parsed artifact reference", w.InstrPos(resolve), "Resolve receives "+refD)
	// the resolved descriptor cell
	var descCell *ssa.Alloc
	for _, b := range W.Blocks {
		for _, in := range b.Instrs {
			if st, ok := in.(*ssa.Store); ok {
				if ex, ok := st.Val.(*ssa.Extract); ok && ex.Tuple == resolve && ex.Index == 0 {
					descCell, _ = st.Addr.(*ssa.Alloc)
				}
			}
		}
	}
	if descCell == nil {
		c.Bad("reference/resolved-descriptor", "the resolved descriptor is kept", w.InstrPos(resolve), "the descriptor returned by Resolve is not stored")
		return
	}
	nStores := 0
	for _, r := range *descCell.Referrers() {
		if st, ok := r.(*ssa.Store); ok && st.Addr == descCell {
			nStores++
		}
	}
	cellD := desc(descCell)
	if nStores != 1 {
		cellD = "alloc:" + namedOf(descCell.Type()) + "<" + descCell.Comment + ">"
	}
	c.Check(nStores == 1, "reference/resolved-descriptor", "the descriptor cell is written exactly once, with Resolve's result", w.InstrPos(resolve), fmt.Sprintf("%d stores", nStores))
	{
		dg := "call:(digest.Digest).String("
		ok, n, wit := exitsBlockedSel(fi, listExits, matchOf(pre("NE(call:(oras/registry.Reference).ValidateReferenceAsDigest(", "#err,nil)"),
			func(l string) bool {
				return strings.HasPrefix(l, "EQ(") && strings.Contains(l, "#0.Reference") && strings.Contains(l, dg) && strings.Contains(l, ".Digest)")
			}))
		c.slot(ok && n >= 2, n, "reference/digest-pinning", "a digest reference must equal the digest the repository resolved (disjunctive: not a digest reference, or equal)", w.InstrPos(resolve), "a digest reference that resolves to another digest is accepted", wit...)
	}
	// listing with the resolved descriptor
	c.Check(unwrapLoad(list.Call.Args[1]) == ssa.Value(descCell), "reference/list-resolved", "provenance: signatures are listed for the descriptor Resolve returned", w.InstrPos(list), "ListSignatures receives "+desc(list.Call.Args[1]))

	// ---- callback -----------------------------------------------------------
	var fetch, verify *ssa.Call
	for _, ci := range allCalls(CB) {
		call, ok := ci.(*ssa.Call)
		if !ok {
			continue
		}
		switch calleeName(call) {
		case "invoke:ngo/registry.Repository.FetchSignatureBlob":
			fetch = call
		case "invoke:ngo.Verifier.Verify":
			verify = call
		}
	}
	if fetch == nil || verify == nil {
		c.Bad("callback/anchors", "the callback fetches and verifies each listed signature", w.FnPos(CB), fmt.Sprintf("fetch=%v verify=%v", fetch != nil, verify != nil))
		return
	}
	nFetch, nVerify := 0, 0
	for _, ci := range allCalls(CB) {
		switch calleeName(ci) {
		case "invoke:ngo/registry.Repository.FetchSignatureBlob":
			nFetch++
		case "invoke:ngo.Verifier.Verify":
			nVerify++
		}
	}
	c.Check(nFetch == 1 && nVerify == 1, "callback/single-sites", "one fetch site and one verify site per iteration", w.FnPos(CB), fmt.Sprintf("%d fetch sites, %d verify sites", nFetch, nVerify))
	// verify arguments
	c.Check(bindOf(bind, verify.Call.Args[1]) == ssa.Value(descCell), "callback/verify-resolved-descriptor", "provenance: each signature is verified against the resolved descriptor", w.InstrPos(verify), "Verify receives "+desc(verify.Call.Args[1]))
	if ex, ok := verify.Call.Args[2].(*ssa.Extract); !ok || ex.Tuple != fetch || ex.Index != 0 {
		c.Bad("callback/verify-fetched-blob", "provenance: the envelope verified is the blob just fetched", w.InstrPos(verify), "Verify receives "+desc(verify.Call.Args[2]))
	} else {
		c.OK("callback/verify-fetched-blob", "provenance: the envelope verified is the blob just fetched", w.InstrPos(verify))
	}
	// the fetched manifest is the loop element
	// the innermost loop that contains the fetch
	var loop *loopRef
	for _, l := range allLoops(CB) {
		l := l
		lb := loopBlocks(l.Header)
		if lb[fetch.Block().Index] && (loop == nil || len(lb) < len(loopBlocks(loop.Header))) {
			loop = &l
		}
	}
	if loop == nil {
		c.Bad("callback/loop", "the callback iterates over the listed manifests", w.FnPos(CB), "the fetch is not inside a loop")
		return
	}
	c.Check(strings.Contains(desc(loop.X), "param:"+CB.Params[0].Name()) && strings.Contains(desc(fetch.Call.Args[1]), "param:"+CB.Params[0].Name()), "callback/fetch-listed-manifest", "provenance: the blob fetched belongs to the listed manifest of this iteration (listing order)", w.InstrPos(fetch), "Fetch receives "+desc(fetch.Call.Args[1]))

	// ---- (c) bound ----------------------------------------------------------
	var counter *ssa.Alloc
	var counterFV *ssa.FreeVar
	var inc *ssa.Store
	nInc := 0
	for _, b := range CB.Blocks {
		for _, in := range b.Instrs {
			st, ok := in.(*ssa.Store)
			if !ok {
				continue
			}
			fv, ok := st.Addr.(*ssa.FreeVar)
			if !ok || !isPlainIntPtr(fv.Type()) {
				continue
			}
			nInc++
			if bo, ok := st.Val.(*ssa.BinOp); ok && bo.Op.String() == "+" {
				if k, ok := bo.Y.(*ssa.Const); ok && constString(k) == "1" && unwrapLoad(bo.X) == ssa.Value(fv) {
					inc = st
					counterFV = fv
					counter, _ = bind[fv.Name()].(*ssa.Alloc)
				}
			}
		}
	}
	rule := "bound: the attempt counter is allocated in the outer function, initialised to 0 there, and changed only by a single +1 store in the callback"
	if counter == nil || nInc != 1 {
		c.Bad("bound/counter", rule, w.FnPos(CB), fmt.Sprintf("%d stores to captured int cells in the callback; +1 store recognised=%v", nInc, inc != nil))
		return
	}
	okInit := false
	nW := 0
	for _, r := range *counter.Referrers() {
		if st, ok := r.(*ssa.Store); ok && st.Addr == counter {
			nW++
			if k, ok := st.Val.(*ssa.Const); ok && constString(k) == "0" {
				okInit = true
			}
		}
	}
	// also no other closure writes it
	c.Check(okInit && nW == 1 && counter.Parent() == W, "bound/counter", rule, w.InstrPos(counter), fmt.Sprintf("outer stores=%d init-zero=%v", nW, okInit))
	cnt := "free:" + counterFV.Name()
	// the limit operand
	limOK := func(l string) (bool, bool) {
		// LT(cnt, X) or GT(X, cnt): X must be <free opts>.MaxSignatureAttempts bound to W's options
		var x string
		switch {
		case strings.HasPrefix(l, "LT("+cnt+","):
			x = strings.TrimSuffix(strings.TrimPrefix(l, "LT("+cnt+","), ")")
		case strings.HasPrefix(l, "GT(") && strings.HasSuffix(l, ","+cnt+")"):
			x = strings.TrimSuffix(strings.TrimPrefix(l, "GT("), ","+cnt+")")
		default:
			return false, false
		}
		if !strings.HasSuffix(x, ".MaxSignatureAttempts") || !strings.HasPrefix(x, "free:") {
			return true, false
		}
		fvn := strings.TrimSuffix(strings.TrimPrefix(x, "free:"), ".MaxSignatureAttempts")
		b := bind[fvn]
		return true, b != nil && desc(b) == optsD
	}
	for _, call := range []*ssa.Call{fetch, verify} {
		g, _ := cfi.mustPassBetween([]int{loop.Body.Index}, blocksOf(call))
		if call.Block() == loop.Body {
			g = map[string]string{}
		}
		name := strings.TrimPrefix(calleeName(call), "invoke:")
		okG, okL := false, false
		for l := range g {
			if a, b := limOK(l); a {
				okG = true
				okL = okL || b
			}
		}
		// the guard must be evaluated in this iteration before the call: also accept a guard in the body block itself
		if !okG {
			if iff, ok := blockTerm(loop.Body).(*ssa.If); ok && call.Block() != loop.Body {
				for j := 0; j < 2; j++ {
					if a, b := limOK(condLabel(iff.Cond, j == 0)); a && dominatesEdge(loop.Body, j, call.Block()) {
						okG, okL = true, b
					}
				}
			}
		}
		c.Evals++
		c.Check(okG && okL, "bound/guard/"+name, "effect-site gate (per iteration): the call is reachable only through counter < MaxSignatureAttempts of the caller's options, tested in the same iteration", w.InstrPos(call),
			fmt.Sprintf("guard present=%v limit is the caller's MaxSignatureAttempts=%v; per-iteration guards: %s", okG, okL, summarizeLabels(g, 6)))
		// preceded by the +1 store in the same iteration
		cut := map[edgeKey]bool{}
		cutInto(cfi, inc.Block(), cut)
		okInc := inc.Block() == call.Block() && instrIndex(inc) < instrIndex(call)
		if !okInc && inc.Block() != loop.Body {
			okInc = !cfi.reachHit([]state{{loop.Body.Index, 0, -1}}, cut, blocksOf(call))
		} else if inc.Block() == loop.Body {
			okInc = true
		}
		c.Check(okInc, "bound/counted/"+name, "every attempt is counted: the +1 store precedes the call on every path of the iteration", w.InstrPos(call), "an attempt can be made without being counted")
	}
	// the +1 store happens after the guard of the same iteration (the counter is compared before being incremented)
	{
		g, _ := cfi.mustPassBetween([]int{loop.Body.Index}, blocksOf(inc))
		okOrder := inc.Block() != loop.Body
		found := false
		for l := range g {
			if a, _ := limOK(l); a {
				found = true
			}
		}
		c.Check(okOrder && found, "bound/guard-before-count", "the limit is tested before the attempt is counted (at most N attempts, not N-1 or N+1)", w.InstrPos(inc), "the counter is incremented before/without the limit test")
	}

	// ---- (d) early exit -----------------------------------------------------
	okLbl := "EQ(" + desc(verify) + "#err,nil)"
	var succBlock *ssa.BasicBlock
	for _, b := range CB.Blocks {
		if iff, ok := blockTerm(b).(*ssa.If); ok {
			for j := 0; j < 2; j++ {
				if condLabel(iff.Cond, j == 0) == okLbl {
					succBlock = b.Succs[j]
				}
			}
		}
	}
	if succBlock == nil {
		c.Bad("early-exit/anchor", "the callback branches on Verifier.Verify err == nil", w.InstrPos(verify), "no such branch")
		return
	}
	start := []state{{succBlock.Index, 0, -1}}
	more := cfi.reachHit(start, nil, map[int]bool{loop.Header.Index: true, fetch.Block().Index: true, verify.Block().Index: true})
	wit := cfi.successWitness(Mode{Kind: mErr}, start, nil)
	c.Evals += 2
	c.Check(!more && wit == nil, "early-exit/stop-after-success", "after the first successful verification the callback returns a non-nil sentinel: no further fetch, verification or iteration, and the listing is not continued", w.InstrPos(verify),
		fmt.Sprintf("further processing reachable=%v, nil return reachable=%v", more, wit != nil), wit...)
	// stores in the success region
	var flagFV, outFV *ssa.FreeVar
	okOut := false
	for _, b := range CB.Blocks {
		for _, in := range b.Instrs {
			st, ok := in.(*ssa.Store)
			if !ok {
				continue
			}
			fv, ok := st.Addr.(*ssa.FreeVar)
			if !ok {
				continue
			}
			if k, isK := st.Val.(*ssa.Const); isK && constString(k) == "true" {
				flagFV = fv
				gd := cfi.GuardsOf(st)
				c.Check(labelHas(gd, okLbl) || b == succBlock, "early-exit/flag-only-on-success", "the success flag is set only after Verifier.Verify returned nil", w.InstrPos(st), "the flag can be set without a successful verification")
			}
			if strings.Contains(st.Val.Type().String(), "VerificationOutcome") && strings.HasPrefix(st.Val.Type().String(), "[]") {
				outFV = fv
				els := sliceLitElems(st.Val)
				if len(els) == 1 {
					if ex, ok := els[0].(*ssa.Extract); ok && ex.Tuple == verify && ex.Index == 0 {
						okOut = true
					}
				}
				gd := cfi.GuardsOf(st)
				if !(labelHas(gd, okLbl) || b == succBlock) {
					okOut = false
				}
			}
		}
	}
	c.Check(okOut, "early-exit/outcome-of-that-signature", "the outcomes handed back on success are exactly the outcome of the signature that verified", w.InstrPos(verify), "the outcome list is built otherwise")
	// outer success exit
	if flagFV != nil && outFV != nil {
		flagCell, outCell := bind[flagFV.Name()], bind[outFV.Name()]
		ok := len(listExits) > 0
		detail := ""
		for _, ex := range listExits {
			if !labelHas(ex.Checked, "T("+descCellLoad(flagCell)+")") {
				ok, detail = false, "success without the success flag"
			}
			if !labelHas(ex.Checked, "NE("+descCellLoad(counter)+",const:0)") && !labelHas(ex.Checked, "GT("+descCellLoad(counter)+",const:0)") {
				ok, detail = false, "success with zero processed signatures"
			}
			r := ex.Ret
			if unwrapLoad(r.Results[0]) != ssa.Value(descCell) || unwrapLoad(r.Results[1]) != outCell {
				ok, detail = false, "the success exit returns "+desc(r.Results[0])+" / "+desc(r.Results[1])
			}
			// listing error other than the sentinel is fail-closed (disjunctive)
		}
		c.Check(ok, "result/success-exit", "the success exit requires the success flag and a non-zero counter and returns the resolved descriptor with the stored outcomes", site, detail)
		okL, n, wit := exitsBlockedSel(fi, listExits, matchOf(pre("EQ("+descTailErr(list)+",nil)"), pre("T(call:errors.Is("+descTailErr(list)+",global:ngo.", "))")))
		c.slot(okL && n >= 2, n, "result/listing-error", "a listing error other than the done sentinel fails verification", w.InstrPos(list), "success after a listing error", wit...)
		_ = cellD
	}

	// ---- (e) failures in the callback ---------------------------------------
	for _, fc := range []struct {
		key, lbl, what string
	}{
		{"fail/fetch-error", "NE(" + desc(fetch) + "#err,nil)", "a signature that cannot be fetched"},
		{"fail/nil-outcome", "EQ(" + desc(verify) + "#0,nil)", "a failed verification without outcome"},
	} {
		var tgt *ssa.BasicBlock
		for _, b := range CB.Blocks {
			if iff, ok := blockTerm(b).(*ssa.If); ok {
				for j := 0; j < 2; j++ {
					if condLabel(iff.Cond, j == 0) == fc.lbl {
						tgt = b.Succs[j]
					}
				}
			}
		}
		if tgt == nil {
			c.Bad(fc.key, fc.what+" ends the callback with an error", w.FnPos(CB), "no branch on "+fc.lbl)
			continue
		}
		st := []state{{tgt.Index, 0, -1}}
		cont := cfi.reachHit(st, nil, map[int]bool{loop.Header.Index: true})
		wit := cfi.successWitness(Mode{Kind: mErr}, st, nil)
		c.Evals++
		c.Check(!cont && wit == nil, fc.key, fc.what+" ends the callback with an error: the loop does not continue and nil is not returned", w.FnPos(CB), fmt.Sprintf("loop continues=%v nil return=%v", cont, wit != nil), wit...)
	}
	// a failed verification with outcome continues and records the error (not a success)
}

func paramDesc(fn *ssa.Function, p *ssa.Parameter) string {
	// parameters captured by closures are spilled into Allocs: describe the way desc() does
	for _, r := range *p.Referrers() {
		if st, ok := r.(*ssa.Store); ok && st.Val == ssa.Value(p) {
			if al, ok := st.Addr.(*ssa.Alloc); ok {
				return descAllocLoad(al)
			}
		}
	}
	return "param:" + p.Name()
}

func descAllocLoad(al *ssa.Alloc) string {
	if sv := singleStore(al); sv != nil {
		return desc(sv)
	}
	return "alloc:" + namedOf(al.Type()) + "<" + al.Comment + ">"
}

func descCellLoad(v ssa.Value) string {
	if al, ok := v.(*ssa.Alloc); ok {
		return descAllocLoad(al)
	}
	return desc(v)
}

func unwrapLoad(v ssa.Value) ssa.Value {
	if u, ok := v.(*ssa.UnOp); ok && u.Op.String() == "*" {
		return u.X
	}
	return v
}

// bindOf resolves a load of a free variable to the outer function's cell.
func bindOf(bind map[string]ssa.Value, v ssa.Value) ssa.Value {
	if fv, ok := unwrapLoad(v).(*ssa.FreeVar); ok {
		return bind[fv.Name()]
	}
	return nil
}

func isPlainIntPtr(t interface{ String() string }) bool { return t.String() == "*int" }

func sliceLitElems(v ssa.Value) []ssa.Value {
	sl, ok := v.(*ssa.Slice)
	if !ok {
		return nil
	}
	al, ok := sl.X.(*ssa.Alloc)
	if !ok {
		return nil
	}
	var out []ssa.Value
	for _, r := range *al.Referrers() {
		if ia, ok := r.(*ssa.IndexAddr); ok {
			for _, rr := range *ia.Referrers() {
				if st, ok := rr.(*ssa.Store); ok && st.Addr == ia {
					out = append(out, st.Val)
				}
			}
		}
	}
	return out
}

// dominatesEdge: every path to target passes through edge (b, j).
func dominatesEdge(b *ssa.BasicBlock, j int, target *ssa.BasicBlock) bool {
	s := b.Succs[j]
	return len(s.Preds) == 1 && s.Dominates(target)
}

// exitsBlockedSel: cutting the selected edges leaves none of the given exits reachable.
func exitsBlockedSel(fi *FnInfo, exits []*ExitSum, sel EdgeSel) (bool, int, []string) {
	cut := fi.edgesMatching(sel)
	n := len(cut)
	r := fi.reach(entryState(), cut)
	for _, ex := range exits {
		for st := range r {
			if st.b == ex.Ret.Block().Index {
				cl, _, _, _ := fi.classify(ex.Ret, state{st.b, fi.through(fi.Fn.Blocks[st.b], st.m), st.p}, Mode{Kind: mErr})
				if cl != clFail {
					return false, n, []string{fmt.Sprintf("exit b%d %s", st.b, fi.W.InstrPos(ex.Ret))}
				}
			}
		}
	}
	return true, n, nil
}
