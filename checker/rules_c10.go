package main

import (
	"fmt"
	"go/token"
	"go/types"
	"strings"

	"golang.org/x/tools/go/ssa"
)

func init() {
	register(&Rule{
		ID:    "C10",
		Title: "registry verification stops at the first good signature, within the limit",
		Run:   runC10,
		Explain: "(a) precedence: every call on the registry.Repository value (in notation.Verify and in the listing callback) is cut by verifier != nil, repo != nil, MaxSignatureAttempts > 0 and, when the verifier implements the skipper, by skip == false; the skip exit precedes any repository call; " +
			"(b) reference gates: parse error, empty reference, resolve error and (for digest references) digest != resolved digest are fail-closed; listing and verification use the descriptor Resolve returned; " +
			"(c) bound: the attempt counter is a cell of the outer function (a captured local, or a field of the state object handed to the function the callback forwards to) that starts at 0 and is written in the callback only by one +1 store — or starts at the caller's limit and is written only by one -1 store; every FetchSignatureBlob and Verifier.Verify call is cut by counter < MaxSignatureAttempts of the caller's options (counting down: counter != 0) and preceded by that store in the same iteration; " +
			"instead of the per-iteration test the loop may be bounded by construction: its j-th iteration is passed on only under j-1 < min(len(page), attempts left), where attempts left = limit - counter (counting down: counter) is read in the page worker before the loop, which is entered once per page — the page cut to that length (if/else, min, clipping helper) and ranged over, an index loop up to that minimum, or the position in the page tested against the attempts left; " +
			"(d) early exit: from Verifier.Verify err == nil no further fetch/verify call, no loop continuation and no nil return of the callback is reachable; the outcome list stored is exactly that call's outcome; the success flag is set only there; " +
			"the outer success exit requires the flag (or, without a flag, a non-nil outcome list that only that store can make non-nil), a non-zero counter and returns the resolved descriptor with those outcomes; (e) a fetch error and a nil outcome leave the callback only through failing exits. " +
			"Gates and repository calls that live in unexported helpers of the outer function are decided there and composed at the call site (cut sets followed into helpers). " +
			"The loop body may hand each listed manifest to one per-signature worker (function, method of the state object, or closure; entered from that one call only) that fetches and/or verifies: (c)-(e) are then decided over loop body and worker together — order across the call, and 'after the event' by a case split on the worker's exits, removing the caller's edges the returned values contradict. " +
			"The shared state may be captured locals or fields of one struct of the outer function (reached through a captured variable or handed on as an argument), used field by field only.",
		NotCov:  "how concrete repositories page their listing (the callback may be invoked any number of times: the rules hold per invocation and for the shared counter cell).",
		Trusted: []string{"go/types, go/ssa", "oras-go registry.ParseReference / ValidateReferenceAsDigest", "registry.Repository implementations call the callback sequentially"},
	})
}

// c10use is one call on the registry.Repository value on behalf of the outer function: in its own body, or in a module
// helper it calls (chain = the call sites that lead there, outermost first).
type c10use struct {
	call  *ssa.Call
	fn    *ssa.Function
	chain []*ssa.Call
}

func (u c10use) site() *ssa.Call {
	if len(u.chain) > 0 {
		return u.chain[0]
	}
	return u.call
}

func runC10(c *Ctx) {
	w := c.W
	var W *ssa.Function
	var list *ssa.Call
	for _, fn := range w.FuncsOfPkg("") {
		for _, ci := range allCalls(fn) {
			if call, ok := ci.(*ssa.Call); ok && calleeName(call) == "invoke:ngo/registry.Repository.ListSignatures" && fn.Parent() == nil {
				W, list = fn, call
			}
		}
	}
	if W == nil {
		c.Unk("anchor", "anchor: the function that lists signatures of a repository (notation.Verify)", "-", "not found")
		return
	}
	c.SeenFn(W.String())
	fi := w.Info(W)
	mc, ok := list.Call.Args[2].(*ssa.MakeClosure)
	if !ok {
		c.Unk("anchor/callback", "anchor: the listing callback is a function literal", w.InstrPos(list), "the callback is "+desc(list.Call.Args[2]))
		return
	}
	x := &c10frame{w: w, W: W, mc: mc, A: mc.Fn.(*ssa.Function), bind: map[*ssa.FreeVar]ssa.Value{}, resolved: map[ssa.Value]bool{}, memo: map[c10cell]c10stores{}}
	// free variable -> binding in W
	for i, fv := range x.A.FreeVars {
		x.bind[fv] = mc.Bindings[i]
	}
	c.SeenFn(x.A.String())
	site := w.FnPos(W)
	// Module helpers the outer function delegates to. A block of the outer function moved into an unexported helper is the
	// same code: every rule below that is about "the outer function" is decided over the outer function and these helpers,
	// with the helpers' facts rewritten into the outer frame (parameters replaced by the arguments of the call).
	helpers := c10Helpers(w, W)
	helperOf := map[*ssa.Function]c10helper{}
	for _, h := range helpers {
		helperOf[h.fn] = h
	}

	// ---- (a) precedence ---------------------------------------------------
	var uses []c10use
	for _, ci := range allCalls(W) {
		if call, ok := ci.(*ssa.Call); ok && strings.HasPrefix(calleeName(call), "invoke:ngo/registry.Repository.") {
			uses = append(uses, c10use{call, W, nil})
		}
	}
	for _, h := range helpers {
		for _, ci := range allCalls(h.fn) {
			if call, ok := ci.(*ssa.Call); ok && strings.HasPrefix(calleeName(call), "invoke:ngo/registry.Repository.") {
				uses = append(uses, c10use{call, h.fn, h.chain})
				c.SeenFn(h.fn.String())
			}
		}
	}
	verD, repoD := "", ""
	for _, p := range W.Params {
		switch namedOf(p.Type()) {
		case "ngo.Verifier":
			verD = paramDesc(W, p)
		case "ngo/registry.Repository":
			repoD = paramDesc(W, p)
		}
	}
	// the optional skip interface: the module interface probed on the verifier with a comma-ok assertion (in the outer
	// function or in a helper that is handed the verifier)
	skipI, skipM := "ngo.?", "?"
	probeAgreement(c, W, "skip/probe")
	probeIn := func(fn *ssa.Function, chain []*ssa.Call) {
		found := false
		for _, b := range fn.Blocks {
			for _, in := range b.Instrs {
				if ta, ok := in.(*ssa.TypeAssert); ok && ta.CommaOk && c10ToOuter(chain, desc(ta.X)) == verD {
					if it, ok := ta.AssertedType.Underlying().(*types.Interface); ok && it.NumMethods() > 0 {
						skipI = abbrev(types.TypeString(ta.AssertedType, nil))
						skipM = it.Method(0).Name()
						found = true
					}
				}
			}
		}
		if found && fn != W {
			c.SeenFn(fn.String())
			probeAgreement(c, fn, "skip/probe")
		}
	}
	for _, h := range helpers {
		probeIn(h.fn, h.chain)
	}
	probeIn(W, nil)
	var optsD string
	for _, p := range W.Params {
		if namedOf(p.Type()) == "ngo.VerifyOptions" {
			optsD = paramDesc(W, p)
		}
	}
	selSkip := c10Labels(matchOf(pre("F(ok(assert("+verD+","+skipI+")))"), pre("F(call:invoke:"+skipI+"."+skipM+"(", "#0)")))
	selSkipErr := c10Labels(matchOf(pre("F(ok(assert("+verD+","+skipI+")))"), pre("EQ(call:invoke:"+skipI+"."+skipM+"(", "#err,nil)")))
	for _, u := range uses {
		// what holds at the call: the guards of the call site in the outer function, plus (for a call made in a helper) the
		// guards on the way from the helper's entry to the call — the helper runs only when its call site is reached
		g := map[string]string{}
		for l, s := range fi.GuardsOf(u.site()) {
			g[l] = s
		}
		for i := range u.chain {
			var in ssa.Instruction = u.call
			if i+1 < len(u.chain) {
				in = u.chain[i+1]
			}
			for l, s := range w.Info(staticCallee(u.chain[i])).GuardsOf(in) {
				g[c10ToOuter(u.chain[:i+1], l)] = s
			}
		}
		name := strings.TrimPrefix(calleeName(u.call), "invoke:ngo/registry.Repository.")
		c.Evals++
		okNil := labelHas(g, "NE("+verD+",nil)") && labelHas(g, "NE("+repoD+",nil)")
		okMax := labelHas(g, "GT("+optsD+".MaxSignatureAttempts,const:0)") || labelHas(g, "GE("+optsD+".MaxSignatureAttempts,const:1)")
		if !okMax {
			// the same test on the values compared: the limit read into a local first (`n := opts.MaxSignatureAttempts;
			// if n <= 0 {…}`) is the same value as long as that local is written once
			for _, e := range c10MustPassEdges(fi, W.Blocks[0], blocksOf(u.site())) {
				if op, a, b, ok := c10Cmp(e.iff.Cond, e.truth); ok && x.isLimit(a) && ((op == token.GTR && c10IntConst(b, 0)) || (op == token.GEQ && c10IntConst(b, 1))) {
					okMax = true
				}
			}
		}
		c.Check(okNil, "precedence/nil-checks/"+name, "effect-site gate: the repository is used only with a non-nil verifier and repository", w.InstrPos(u.call), "guards: "+summarizeLabels(g, 6))
		c.Check(okMax, "precedence/positive-limit/"+name, "effect-site gate: the repository is used only with MaxSignatureAttempts > 0", w.InstrPos(u.call), "guards: "+summarizeLabels(g, 6))
		// The skip gate is disjunctive (no skipper, or the skipper answered false): it is decided by removing those edges.
		// When the probe lives in a helper, the helper's exits that remain without those edges (skip answered, or error)
		// must each be rejected by the outer function before the call site (c10DeepCuts).
		blocked, n := c10DeepBlocked(w, fi, selSkip, blocksOf(u.site()))
		c.Check(n >= 2 && blocked, "precedence/skip-first/"+name, "effect-site gate (disjunctive): the repository is used only if the verifier is no skipper or SkipVerify answered false", w.InstrPos(u.call), "the repository can be touched although the policy level is skip")
		// the SkipVerify error is fail-closed
		if _, h := hasLabel(g, "EQ(call:invoke:"+skipI+"."+skipM+"(", "#err,nil)"); !h {
			blocked, _ := c10DeepBlocked(w, fi, selSkipErr, blocksOf(u.site()))
			c.Check(blocked, "precedence/skip-error/"+name, "a SkipVerify error is fail-closed", w.InstrPos(u.call), "the repository is used after a SkipVerify error")
		}
	}
	if len(uses) < 2 {
		c.Unk("precedence#count", "vacuity guard: Resolve and ListSignatures", site, fmt.Sprintf("%d repository calls on behalf of %s", len(uses), fnName(W)))
	}
	// the callback is used only as the ListSignatures argument
	nUses := 0
	for _, r := range *mc.Referrers() {
		if _, dbg := r.(*ssa.DebugRef); !dbg {
			nUses++
		}
	}
	c.Check(nUses == 1, "precedence/callback-only-listed", "the callback is invoked only by ListSignatures", w.InstrPos(mc), fmt.Sprintf("%d uses of the closure", nUses))

	// ---- (b) reference gates ----------------------------------------------
	s := w.Summarize(W, Mode{Kind: mErr})
	c.Evals += s.States
	var listExits []*ExitSum // success exits that went through the listing
	selSkipped := c10Labels(matchOf(pre("T(call:invoke:"+skipI+"."+skipM+"(", "#0)")))
	for _, ex := range s.Exits {
		if _, h := hasLabel(ex.Checked, "T(call:invoke:"+skipI+"."+skipM+"(", "#0)"); h {
			continue
		}
		if ex.Class != clSuccess {
			continue // exits returning a computed error (errors.Join of the recorded failures) are not success exits
		}
		// the skip exit, when the probe lives in a helper: reachable only if SkipVerify answered true there
		if blocked, n, _ := c10DeepExitsBlocked(w, fi, []*ExitSum{ex}, selSkipped); blocked && n > 0 {
			continue
		}
		listExits = append(listExits, ex)
	}
	var resolve *c10use
	for i := range uses {
		if strings.HasSuffix(calleeName(uses[i].call), ".Resolve") {
			resolve = &uses[i]
		}
	}
	if resolve == nil {
		c.Bad("reference/resolve", "the reference is resolved by the repository", site, "Repository.Resolve is not called")
		return
	}
	refD := desc(resolve.call.Call.Args[1])
	c.requireOnExits("reference", W, listExits, []Need{
		{Name: "parse", What: "registry.ParseReference err == nil", Subs: []string{"EQ(call:oras/registry.ParseReference(", "#err,nil)"}},
		{Name: "non-empty", What: "the reference has a tag or digest", Subs: []string{"NE(call:oras/registry.ParseReference(", `#0.Reference,const:"")`}},
		{Name: "resolve", What: "Repository.Resolve err == nil", Subs: []string{c10ToOuter(resolve.chain, "EQ("+desc(resolve.call)+"#err,nil)")}},
	})
	c.Check(strings.HasPrefix(refD, "call:oras/registry.ParseReference(") && strings.HasSuffix(refD, "#0.Reference"), "reference/resolved-value", "provenance: what is resolved is the reference part of the parsed artifact reference", w.InstrPos(resolve.call), "Resolve receives "+refD)
	// The resolved descriptor: result 0 of Resolve; when Resolve is called in a helper, the result of the helper call in
	// which every success exit of the helper hands back that descriptor (and so on outwards).
	extracts := func(call *ssa.Call, k int) []ssa.Value {
		var out []ssa.Value
		for _, r := range *call.Referrers() {
			if ex, ok := r.(*ssa.Extract); ok && ex.Index == k {
				out = append(out, ex)
			}
		}
		return out
	}
	for _, v := range extracts(resolve.call, 0) {
		x.resolved[v] = true
	}
	for i := len(resolve.chain) - 1; i >= 0; i-- {
		call := resolve.chain[i]
		h := staticCallee(call)
		hs := w.Summarize(h, Mode{Kind: mErr})
		for k := 0; k < h.Signature.Results().Len(); k++ {
			all := len(hs.Exits) > 0 && hs.Complete
			for _, ex := range hs.Exits {
				if k >= len(ex.Ret.Results) || !x.isResolved(ex.Ret.Results[k]) {
					all = false
				}
			}
			if all {
				for _, v := range extracts(call, k) {
					x.resolved[v] = true
				}
			}
		}
	}
	// the resolved descriptor cell of the outer function (if the descriptor is kept in a variable)
	var descCell *ssa.Alloc
	inW := false
	for v := range x.resolved {
		if in, ok := v.(ssa.Instruction); ok && in.Parent() == W {
			inW = true
			for _, r := range *v.Referrers() {
				if st, ok := r.(*ssa.Store); ok && st.Val == v {
					if al, ok := st.Addr.(*ssa.Alloc); ok {
						descCell = al
					}
				}
			}
		}
	}
	if !inW {
		c.Bad("reference/resolved-descriptor", "the resolved descriptor is kept", w.InstrPos(resolve.call), "the descriptor returned by Resolve does not reach "+fnName(W))
		return
	}
	if descCell != nil {
		ds := x.stores(c10cell{descCell, -1})
		c.Check(ds.ok && len(ds.sts) == 1, "reference/resolved-descriptor", "the descriptor cell is written exactly once, with Resolve's result", w.InstrPos(resolve.call), fmt.Sprintf("%d stores, all stores known=%v", len(ds.sts), ds.ok))
	} else {
		c.OK("reference/resolved-descriptor", "the descriptor cell is written exactly once, with Resolve's result", w.InstrPos(resolve.call))
	}
	{
		// "equal" is decided on the values compared: the Reference part of the parsed reference against the Digest of the
		// resolved descriptor, whichever way the two are brought to a common type (String() of the digest, or the reference
		// converted to a digest) and whether or not the digest was first copied into a variable that is written once.
		ok, n, wit := c10DeepExitsBlocked(w, fi, listExits, func(l string, cond ssa.Value, truth bool) bool {
			if strings.HasPrefix(l, "NE(call:(oras/registry.Reference).ValidateReferenceAsDigest(") && strings.Contains(l, "#err,nil)") {
				return true
			}
			op, a, b, ok := c10Cmp(cond, truth)
			if !ok || op != token.EQL {
				return false
			}
			return (isParsedReference(a) && x.isResolvedDigest(b)) || (isParsedReference(b) && x.isResolvedDigest(a))
		})
		c.slot(ok && n >= 2, n, "reference/digest-pinning", "a digest reference must equal the digest the repository resolved (disjunctive: not a digest reference, or equal)", w.InstrPos(resolve.call), "a digest reference that resolves to another digest is accepted", wit...)
	}
	// listing with the resolved descriptor
	c.Check(x.isResolved(list.Call.Args[1]), "reference/list-resolved", "provenance: signatures are listed for the descriptor Resolve returned", w.InstrPos(list), "ListSignatures receives "+desc(list.Call.Args[1]))

	// ---- callback -----------------------------------------------------------
	findSites := func(fn *ssa.Function) (fetch, verify *ssa.Call, nFetch, nVerify int) {
		for _, ci := range allCalls(fn) {
			switch calleeName(ci) {
			case "invoke:ngo/registry.Repository.FetchSignatureBlob":
				nFetch++
				if call, ok := ci.(*ssa.Call); ok {
					fetch = call
				}
			case "invoke:ngo.Verifier.Verify":
				nVerify++
				if call, ok := ci.(*ssa.Call); ok {
					verify = call
				}
			}
		}
		return
	}
	x.CB = x.A
	if len(x.A.Params) > 0 {
		x.page = x.A.Params[0]
	}
	fetch, verify, nFetch, nVerify := findSites(x.A)
	if fetch == nil && verify == nil && len(x.A.Blocks) == 1 {
		// The callback forwards the page to a module function (`func(page) error { return run.processPage(ctx, page) }`):
		// one block, one call, the call's error returned as it is. The listing then sees exactly what that function returns,
		// once per page, so every rule about "the callback" is a rule about that function. Its state lives in the object it
		// is handed (fields instead of captured locals), which only the outer function and that function may touch.
		okFwd := false
		if ret, ok := blockTerm(x.A.Blocks[0]).(*ssa.Return); ok && len(ret.Results) == 1 {
			if fc, ok := ret.Results[0].(*ssa.Call); ok {
				if g := staticCallee(fc); g != nil && g.Blocks != nil && w.IsProductFn(g) && len(fc.Call.Args) == len(g.Params) {
					x.fc, x.CB, x.page = fc, g, nil
					nPage := 0
					for i, a := range fc.Call.Args {
						if len(x.A.Params) > 0 && a == ssa.Value(x.A.Params[0]) {
							x.page = g.Params[i]
							nPage++
						}
						if x.obj != nil {
							continue
						}
						// the state object: a pointer to a struct allocated in the outer function
						if fv, ok := a.(*ssa.FreeVar); ok {
							if al, ok := x.bind[fv].(*ssa.Alloc); ok && al.Parent() == W && c10IsStructPtr(al.Type()) {
								x.obj, x.objParam = al, g.Params[i]
							}
						} else if u, ok := c10IsLoad(a); ok {
							if fv, ok := u.X.(*ssa.FreeVar); ok {
								if p, ok := x.bind[fv].(*ssa.Alloc); ok && p.Parent() == W {
									if ps := x.stores(c10cell{p, -1}); ps.ok && len(ps.sts) == 1 {
										// (the struct allocated by the outer function, or for it by a constructor it calls)
										if al, made := x.objAllocOf(ps.sts[0].Val); al != nil {
											x.obj, x.objPtr, x.objParam = al, p, g.Params[i]
											if made != nil {
												x.ctor, x.ctorCall = staticCallee(made), made
											}
										}
									}
								}
							}
						}
					}
					okFwd = nPage == 1
				}
			}
		}
		if !okFwd {
			c.Bad("callback/anchors", "the callback fetches and verifies each listed signature", w.FnPos(x.A), "no fetch and no verify call in the callback, and it does not forward its page to one module function")
			return
		}
		x.memo = map[c10cell]c10stores{}
		c.SeenFn(x.CB.String())
		fetch, verify, nFetch, nVerify = findSites(x.CB)
		// the page worker is called by the callback only
		nRef := 0
		for _, fn := range w.FuncsOfPkg("") {
			for _, b := range fn.Blocks {
				for _, in := range b.Instrs {
					for _, op := range in.Operands(nil) {
						if *op == ssa.Value(x.CB) {
							nRef++
						}
					}
				}
			}
		}
		c.Check(nRef == 1, "precedence/callback-only-listed", "the callback is invoked only by ListSignatures", w.FnPos(x.CB), fmt.Sprintf("%d references to %s (expected: the forwarding call in the callback only)", nRef, fnName(x.CB)))
	}
	if fetch == nil || verify == nil {
		// The loop body hands each listed manifest to a per-signature worker — one module function, method or closure that
		// is called at one place of the page worker and does the fetch, the verification or both (see extra_c10.go, "the
		// per-signature worker"). The worker is entered from that call only (checked below), so what it does is what the
		// loop body does at the call, with the worker's parameters standing for the call's arguments; every rule below is
		// decided over the page worker and the worker together. State shared with the outer function is reached by the
		// worker the same way as by the page worker: captured locals (a closure) or the state object handed on to it.
		type cand struct {
			fn   *ssa.Function
			mc   *ssa.MakeClosure
			call *ssa.Call
		}
		var cands []cand
		for _, ci := range allCalls(x.CB) {
			call, ok := ci.(*ssa.Call)
			if !ok {
				continue
			}
			g, gmc := x.callee(call)
			if g == nil || g.Blocks == nil || g == x.CB || g == x.A || g == W || !w.IsProductFn(g) || fnPkg(g) != fnPkg(W) || len(call.Call.Args) != len(g.Params) {
				continue
			}
			// "per signature": the call is made inside a loop of the page worker (which loop: decided below)
			looped := false
			for _, l := range x.loops(x.CB) {
				if loopBlocks(l.Header)[call.Block().Index] {
					looped = true
				}
			}
			if f2, v2, _, _ := findSites(g); looped && (f2 != nil || v2 != nil) {
				cands = append(cands, cand{g, gmc, call})
			}
		}
		if len(cands) == 1 {
			x.H, x.hmc, x.hc = cands[0].fn, cands[0].mc, cands[0].call
			if x.hmc != nil {
				// the closure's captured variables are the outer function's cells, directly or through the callback's own captures
				for i, fv := range x.H.FreeVars {
					if i >= len(x.hmc.Bindings) {
						break
					}
					b := x.hmc.Bindings[i]
					if ofv, isFv := b.(*ssa.FreeVar); isFv {
						b = x.bind[ofv]
					}
					if b != nil {
						x.bind[fv] = b
					}
				}
			}
			if x.obj == nil {
				x.findStateObject()
			}
			for i, a := range x.hc.Call.Args {
				if x.isObj(a) {
					x.objParams = append(x.objParams, x.H.Params[i])
				}
			}
			x.memo = map[c10cell]c10stores{}
			c.SeenFn(x.H.String())
			f2, v2, nf2, nv2 := findSites(x.H)
			if fetch == nil {
				fetch = f2
			}
			if verify == nil {
				verify = v2
			}
			nFetch, nVerify = nFetch+nf2, nVerify+nv2
			okOnly, why := x.workerOnlyCalledInLoop()
			c.Check(okOnly, "precedence/callback-only-listed", "the callback is invoked only by ListSignatures", w.FnPos(x.H), why)
		} else if len(cands) > 1 {
			c.Bad("callback/anchors", "the callback fetches and verifies each listed signature", w.FnPos(x.CB), fmt.Sprintf("the fetch and verify calls are spread over %d helper calls of the callback", len(cands)))
			return
		}
	}
	if x.obj == nil {
		x.findStateObject()
		x.memo = map[c10cell]c10stores{}
	}
	if x.obj != nil {
		x.findAccessors()
		okObj, why := x.objectDiscipline()
		c.Check(okObj, "callback/state-object", "the state object of the verification is reachable only by the outer function and the function the callback forwards to, and only field by field", w.InstrPos(x.obj), why)
	}
	CB := x.CB
	if fetch == nil || verify == nil {
		c.Bad("callback/anchors", "the callback fetches and verifies each listed signature", w.FnPos(CB), fmt.Sprintf("fetch=%v verify=%v", fetch != nil, verify != nil))
		return
	}
	c.Check(nFetch == 1 && nVerify == 1, "callback/single-sites", "one fetch site and one verify site per iteration", w.FnPos(CB), fmt.Sprintf("%d fetch sites, %d verify sites", nFetch, nVerify))
	// verify arguments
	c.Check(x.isResolved(verify.Call.Args[1]), "callback/verify-resolved-descriptor", "provenance: each signature is verified against the resolved descriptor", w.InstrPos(verify), "Verify receives "+desc(verify.Call.Args[1]))
	// (a fetch made in the per-signature worker: the blob is what the worker hands back on every exit after a good fetch)
	if !x.yields(verify.Call.Args[2], fetch, 0, c10assume{fetch, 2, true}) {
		c.Bad("callback/verify-fetched-blob", "provenance: the envelope verified is the blob just fetched", w.InstrPos(verify), "Verify receives "+desc(verify.Call.Args[2]))
	} else {
		c.OK("callback/verify-fetched-blob", "provenance: the envelope verified is the blob just fetched", w.InstrPos(verify))
	}
	// the fetched manifest is the loop element
	// the innermost loop that contains the fetch
	// (for a fetch made in the per-signature worker: the loop that contains the worker's call)
	var iterSite ssa.Instruction = fetch
	if fetch.Parent() != CB {
		iterSite = x.hc
	}
	var loop *loopRef
	for _, l := range x.loops(CB) {
		l := l
		lb := loopBlocks(l.Header)
		if lb[iterSite.Block().Index] && (loop == nil || len(lb) < len(loopBlocks(loop.Header))) {
			loop = &l
		}
	}
	if loop == nil {
		c.Bad("callback/loop", "the callback iterates over the listed manifests", w.FnPos(CB), "the fetch is not inside a loop")
		return
	}
	inLoop := loopBlocks(loop.Header)
	if x.H != nil && !inLoop[x.hc.Block().Index] {
		c.Bad("callback/loop", "the callback iterates over the listed manifests", w.InstrPos(x.hc), "the per-signature worker is not called inside the loop that contains the fetch")
		return
	}
	pageD := "param:?"
	if x.page != nil {
		pageD = "param:" + x.page.Name()
	}
	fetchD := desc(fetch.Call.Args[1])
	if x.H != nil && fetch.Parent() == x.H {
		fetchD = x.toCB(fetchD) // the worker's parameters are the arguments of its call in the loop body
	}
	c.Check(strings.Contains(desc(loop.X), pageD) && strings.Contains(fetchD, pageD), "callback/fetch-listed-manifest", "provenance: the blob fetched belongs to the listed manifest of this iteration (listing order)", w.InstrPos(fetch), "Fetch receives "+fetchD)

	// shared(st): the cell a store of the callback writes, if it is state shared with the outer function
	shared := func(addr ssa.Value) (c10cell, bool) {
		cell, ok := x.cellOf(addr)
		if !ok || !(cell.base.Parent() == W || (x.ctor != nil && cell.base == x.obj)) {
			return c10cell{}, false
		}
		return cell, true
	}

	// ---- (c) bound ----------------------------------------------------------
	// The attempt counter is a plain int cell of the outer function that the callback changes by exactly one store, in
	// one of two forms:
	//   up:   starts at 0 (constant store, or the zero value of the fresh cell), the store adds 1, an attempt is made
	//         only under counter < limit — at most `limit` attempts;
	//   down: starts at the limit, the store subtracts 1, an attempt is made only under counter != 0 (or > 0). The cell is
	//         `limit - attempts`: it starts positive (the positive-limit gate of (a) covers the listing), each decrement
	//         is guarded by counter != 0, so it never goes below 0 and reaches 0 after exactly `limit` attempts.
	// In both forms limit must be MaxSignatureAttempts of the options the outer function received.
	var counter c10cell
	var inc *ssa.Store
	down := false
	nInc := 0
	for _, b := range x.cbBlocks() {
		for _, in := range b.Instrs {
			st, ok := in.(*ssa.Store)
			if !ok {
				continue
			}
			cell, ok := shared(st.Addr)
			if !ok || !isPlainIntPtr(st.Addr.Type()) {
				continue
			}
			nInc++
			if bo, ok := st.Val.(*ssa.BinOp); ok && (bo.Op == token.ADD || bo.Op == token.SUB) {
				if lc, isLoad := x.cellOfLoad(bo.X); isLoad && lc == cell && c10IntConst(bo.Y, 1) {
					inc, counter, down = st, cell, bo.Op == token.SUB
				}
			}
		}
	}
	rule := "bound: the attempt counter is a cell of the outer function that starts at 0 and is changed only by a single +1 store in the callback (or starts at the caller's MaxSignatureAttempts and is changed only by a single -1 store)"
	if inc == nil || nInc != 1 {
		c.Bad("bound/counter", rule, w.FnPos(CB), fmt.Sprintf("%d stores to shared int cells in the callback; +1/-1 store recognised=%v", nInc, inc != nil))
		return
	}
	{
		cs := x.stores(counter)
		nW, nCB, nOther := 0, 0, 0
		okInit := !down // the zero value of the fresh cell
		for _, st := range cs.sts {
			switch {
			case x.inOuter(st.Parent()):
				nW++
				if down {
					okInit = x.isLimit(st.Val)
				} else {
					okInit = c10IntConst(st.Val, 0)
				}
			case x.inCallback(st.Parent()):
				nCB++
			default:
				nOther++
			}
		}
		c.Check(cs.ok && okInit && nW <= 1 && nCB == 1 && nOther == 0, "bound/counter", rule, w.InstrPos(counter.base),
			fmt.Sprintf("%s: outer stores=%d initial value ok=%v callback stores=%d other stores=%d all stores known=%v", x.cellName(counter), nW, okInit, nCB, nOther, cs.ok))
	}
	// limGuard: the edge is the limit test of this iteration (the counter is read inside the loop); second result: the
	// limit it is compared with is the caller's (down form: the comparison is with 0, the limit is the initial value)
	// limFact: the same for one elementary fact; here says whether a load of the counter is one of this iteration
	limFact := func(cond ssa.Value, truth bool, here func(*ssa.UnOp) bool) (bool, bool) {
		op, a, b, ok := c10Cmp(cond, truth)
		if !ok {
			return false, false
		}
		isCnt := func(v ssa.Value) bool {
			lc, isLoad := x.cellOfLoad(v)
			return isLoad && lc == counter && here(v.(*ssa.UnOp))
		}
		if down {
			if isCnt(a) && (((op == token.NEQ || op == token.GTR) && c10IntConst(b, 0)) || (op == token.GEQ && c10IntConst(b, 1))) {
				return true, true
			}
			return false, false
		}
		switch {
		case op == token.LSS && isCnt(a):
			return true, x.isLimit(b)
		case op == token.GTR && isCnt(b):
			return true, x.isLimit(a)
		}
		return false, false
	}
	limGuard := func(e c10Edge) (bool, bool) {
		if g, l := limFact(e.iff.Cond, e.truth, func(u *ssa.UnOp) bool { return x.inIter(u, inLoop) }); g {
			return g, l
		}
		// The test made by a read-only accessor of the state object called in this iteration (`if s.exhausted() { break }`):
		// the edge is taken only when the accessor returned that answer, every return that can give it returns a value whose
		// having that answer — or a branch every path to that return takes — is the limit test (c10frame.accessorWays), and
		// the counter was read while the accessor ran, i.e. at its call in this iteration; the accessor stores nothing, so the
		// counting store still follows the comparison.
		if call, ways, ok := x.accessorWays(e.iff.Cond, e.truth); ok && x.inIter(call, inLoop) {
			g := staticCallee(call)
			here := func(u *ssa.UnOp) bool { return u.Parent() == g }
			isG, isL := true, true
			for _, w := range ways {
				wg := w.holds(func(a c10alt) bool { ag, _ := limFact(a.cond, a.truth, here); return ag })
				wl := w.holds(func(a c10alt) bool { ag, al := limFact(a.cond, a.truth, here); return ag && al })
				isG, isL = isG && wg, isL && wl
			}
			return isG, isG && isL
		}
		return false, false
	}
	// Alternative to the per-iteration test (extra_c10.go, "the iteration budget"): the number of iterations itself is
	// bounded — the loop passes its j-th iteration on only under j-1 < n, where n == min(len(page), attempts left) is fixed
	// before the loop from the counter as it stands when the page arrives. Then the j-th iteration runs exactly when
	// counter-on-entry + j - 1 < limit: the same condition, evaluated on values that cannot change in between.
	bud := x.iterBudget(loop, inLoop, counter, down, inc)
	budGated := func(in ssa.Instruction) bool { return bud.gated(x.headEdges(loop, in)) }
	// A loop the engine does not know as a loop over a slice (recognised by its induction variable only: `for i := 0; i < n;
	// i++ { … page[i] … }`) visits the listed manifests in order and completely only if its bound is the length of the page
	// (or the budgeted minimum): that is what a range over the page gives for free and what the per-iteration test relies on.
	extOK := true
	if x.extLoop[loop.Header] {
		k := bud.headerBoundKind()
		extOK = k == c10kLen || k == c10kMin
	}
	for _, call := range []*ssa.Call{fetch, verify} {
		edges := x.iterEdges(loop.Body, call)
		name := strings.TrimPrefix(calleeName(call), "invoke:")
		okG, okL := false, false
		var seen []string
		for _, e := range edges {
			seen = append(seen, condLabel(e.iff.Cond, e.truth))
			if a, b := limGuard(e); a {
				okG = true
				okL = okL || b
			}
		}
		c.Evals++
		okB := !(okG && okL && extOK) && budGated(call)
		c.Check((okG && okL && extOK) || okB, "bound/guard/"+name, "effect-site gate (per iteration): the call is reachable only through counter < MaxSignatureAttempts of the caller's options (counting down: counter != 0), tested in the same iteration — or only in an iteration j with j-1 < min(len(page), attempts left on entry), that bound fixed before the loop", w.InstrPos(call),
			fmt.Sprintf("guard present=%v limit is the caller's MaxSignatureAttempts=%v; per-iteration guards: {%s}; loop bound is the page length=%v; iteration budget: no (%s)", okG, okL, strings.Join(seen, "; "), extOK, bud.whyNot()))
		// preceded by the counting store in the same iteration (store and call in the loop body or in the worker)
		okInc := x.precedesInIter(loop.Body, inc, call)
		c.Check(okInc, "bound/counted/"+name, "every attempt is counted: the counting store precedes the call on every path of the iteration", w.InstrPos(call), "an attempt can be made without being counted")
	}
	// the counting store happens after the guard of the same iteration (the counter is compared before being changed)
	{
		found := false
		for _, e := range x.iterEdges(loop.Body, inc) {
			if a, _ := limGuard(e); a {
				found = true
			}
		}
		// (iteration budget: the counting store lies behind the gate of its iteration, and the budget was read before the loop)
		found = found || budGated(inc)
		c.Check(found, "bound/guard-before-count", "the limit is tested before the attempt is counted (at most N attempts, not N-1 or N+1)", w.InstrPos(inc), "the counter is changed before/without the limit test")
	}

	// ---- (d) early exit -----------------------------------------------------
	// The success branch: the edge on which Verifier.Verify's error is nil — in the function that makes the call or, when
	// the per-signature worker hands Verify's error back as it is, in the loop body on that result of the worker's call.
	okLbl := "EQ(" + desc(verify) + "#err,nil)"
	VF := verify.Parent()
	vfi := w.Info(VF)
	verifiedOK := c10assume{verify, 1, true}
	var succBlock *ssa.BasicBlock
	for _, b := range VF.Blocks {
		if iff, ok := blockTerm(b).(*ssa.If); ok {
			for j := 0; j < 2; j++ {
				if condLabel(iff.Cond, j == 0) == okLbl {
					succBlock = b.Succs[j]
				}
			}
		}
	}
	anchored := succBlock != nil
	if !anchored && x.H != nil && VF == x.H {
		for _, b := range CB.Blocks {
			iff, ok := blockTerm(b).(*ssa.If)
			if !ok {
				continue
			}
			if o, _, ok := c10NilTest(iff.Cond, true); ok {
				if k := c10ResultIdx(x.hc, o); k >= 0 {
					for _, e := range c10Exits(vfi, []state{{verify.Block().Index, 0, -1}}, nil) {
						if rv := c10ExitResult(e, k); rv != nil && c10IsResult(rv, verify, 1) {
							anchored = true
						}
					}
				}
			}
		}
	}
	if !anchored {
		c.Bad("early-exit/anchor", "the callback branches on Verifier.Verify err == nil", w.InstrPos(verify), "no such branch")
		return
	}
	// What can run after Verify returned a nil error: the rest of the function that called it, without the edges on which
	// that error is non-nil; when that function is the per-signature worker, also the loop body from the worker's call
	// site, once for every exit the worker can still take, without the edges those returned values contradict.
	more := false
	var wit []string
	for _, ct := range x.forward(verify, verifiedOK) {
		tg := map[int]bool{}
		for _, in := range []ssa.Instruction{fetch, verify} {
			if in.Parent() == ct.fi.Fn {
				tg[in.Block().Index] = true
			}
		}
		if ct.fi.Fn == CB {
			tg[loop.Header.Index] = true
			if x.H != nil {
				tg[x.hc.Block().Index] = true
				// a fetch or verification right after the worker's call, in the same block
				for _, in := range []ssa.Instruction{fetch, verify} {
					if VF == x.H && in.Parent() == CB && in.Block() == x.hc.Block() && instrIndex(in) > instrIndex(x.hc) {
						more = true
					}
				}
			}
			if wt := ct.fi.successWitness(Mode{Kind: mErr}, ct.starts, ct.cut); wt != nil && wit == nil {
				wit = wt
			}
		}
		if ct.fi.reachHit(ct.starts, ct.cut, tg) {
			more = true
		}
		c.Evals += 2
	}
	c.Check(!more && wit == nil, "early-exit/stop-after-success", "after the first successful verification the callback returns a non-nil sentinel: no further fetch, verification or iteration, and the listing is not continued", w.InstrPos(verify),
		fmt.Sprintf("further processing reachable=%v, nil return reachable=%v", more, wit != nil), wit...)
	// stores in the success region: behind the success branch in the function that called Verify; a store of the loop
	// body, when Verify is called in the per-signature worker: reachable only from exits of the worker that lie behind
	// Verify's nil error
	// "Behind the success branch" is a must-pass fact: EVERY path from the function's entry to the store takes the edge on
	// which Verify's error is nil (GuardsOf). That the store sits in the block the passing edge leads to is not enough: when
	// the failure test is weakened by a conjunct (`if strict && err != nil {`) that block has a second way in — the edge on
	// which the conjunct is false — and a failed verification sets the flag, stores its outcome and stops the listing as if
	// it had verified: the artifact is accepted on a signature that did not verify. Spelling does not matter: the label is
	// the canonical form of the comparison on the edge (operands swapped, negated, switch case, bool local, success region
	// inside `if err == nil {` or behind `if err != nil {… continue}`).
	afterVerify := func(st *ssa.Store) bool {
		if st.Parent() == VF {
			return labelHas(vfi.GuardsOf(st), okLbl)
		}
		return x.onlyAfterWorkerSuccess(st, verify, 1)
	}
	// the outcome of the signature that verified: result 0 of that Verify call, or what the worker hands back for it
	isOutcome := func(v ssa.Value) bool { return x.yields(v, verify, 0, verifiedOK) }
	var flag, out *c10cell
	okOut := false
	for _, b := range x.cbBlocks() {
		for _, in := range b.Instrs {
			st, ok := in.(*ssa.Store)
			if !ok {
				continue
			}
			cell, ok := shared(st.Addr)
			if !ok {
				continue
			}
			cell2 := cell
			if bv, isK := c10BoolConst(st.Val); isK && bv {
				flag = &cell2
				c.Check(afterVerify(st), "early-exit/flag-only-on-success", "the success flag is set only after Verifier.Verify returned nil", w.InstrPos(st), "the flag can be set without a successful verification")
			}
			if strings.Contains(st.Val.Type().String(), "VerificationOutcome") && strings.HasPrefix(st.Val.Type().String(), "[]") {
				out = &cell2
				els := sliceLitElems(st.Val)
				if len(els) == 1 && isOutcome(els[0]) {
					okOut = true
				}
				if !afterVerify(st) {
					okOut = false
				}
			}
		}
	}
	c.Check(okOut, "early-exit/outcome-of-that-signature", "the outcomes handed back on success are exactly the outcome of the signature that verified", w.InstrPos(verify), "the outcome list is built otherwise")
	// The success indicator the outer function tests after the listing:
	//   a bool cell that is false when the listing starts (zero value, or only `false` stored by the outer function) and in
	//   the callback is only ever set to true, after Verify returned nil; or, without such a flag,
	//   the outcome list itself: nil when the listing starts (zero value, or only nil stored by the outer function), and
	//   the callback stores to it only after Verify returned nil and only a slice literal, which is never nil — so
	//   "outcomes != nil" (or len(outcomes) != 0) holds exactly if some signature verified.
	// (The tests are selected by the values compared; a test made by a read-only accessor of the state object —
	// `func (s *state) succeeded() bool { return len(s.outcomes) > 0 }` — counts through c10frame.viaAccessor, a test that
	// is one operand of a computed disjunction through c10Alts.)
	var indicator c10sel
	indWhat := ""
	if flag != nil {
		fs := x.stores(*flag)
		okF := fs.ok
		for _, st := range fs.sts {
			bv, isK := c10BoolConst(st.Val)
			switch {
			case x.inCallback(st.Parent()) && isK && bv: // judged above
			case x.inOuter(st.Parent()) && isK && !bv:
			default:
				okF = false
			}
		}
		c.Check(okF, "early-exit/flag-only-on-success", "the success flag is set only after Verifier.Verify returned nil", w.InstrPos(flag.base), x.cellName(*flag)+" is also written elsewhere, or its address escapes")
		fc := *flag
		indWhat = "the success flag"
		indicator = func(l string, cond ssa.Value, truth bool) bool {
			for {
				u, ok := cond.(*ssa.UnOp)
				if !ok || u.Op != token.NOT {
					break
				}
				cond, truth = u.X, !truth
			}
			lc, isLoad := x.cellOfLoad(cond)
			return truth && isLoad && lc == fc
		}
	} else if out != nil {
		os := x.stores(*out)
		okF := os.ok
		for _, st := range os.sts {
			switch {
			case x.inCallback(st.Parent()):
				sl, isSl := st.Val.(*ssa.Slice)
				if !isSl || !afterVerify(st) {
					okF = false
				} else if _, isAl := sl.X.(*ssa.Alloc); !isAl {
					okF = false
				}
			case x.inOuter(st.Parent()) && isNilConst(st.Val):
			default:
				okF = false
			}
		}
		c.Check(okF, "early-exit/flag-only-on-success", "the success indicator (the outcome list, nil until then) is set only after Verifier.Verify returned nil, to a non-nil list", w.InstrPos(out.base), x.cellName(*out)+" can be non-nil without a successful verification, or its address escapes")
		oc := *out
		indWhat = "a non-nil outcome list"
		indicator = func(l string, cond ssa.Value, truth bool) bool {
			op, a, b, ok := c10Cmp(cond, truth)
			if !ok {
				return false
			}
			if lc, isLoad := x.cellOfLoad(a); isLoad && lc == oc && op == token.NEQ && isNilConst(b) {
				return true
			}
			if call, isCall := a.(*ssa.Call); isCall && calleeName(call) == "builtin:len" {
				if lc, isLoad := x.cellOfLoad(call.Call.Args[0]); isLoad && lc == oc {
					return ((op == token.NEQ || op == token.GTR) && c10IntConst(b, 0)) || (op == token.GEQ && c10IntConst(b, 1))
				}
			}
			return false
		}
	}
	// outer success exit
	if indicator == nil || out == nil {
		c.Bad("result/success-exit", "the success exit requires the success flag and a non-zero counter and returns the resolved descriptor with the stored outcomes", site, "the callback records neither a success flag nor the outcomes of the signature that verified")
	} else {
		afterList := func(sel EdgeSel) EdgeSel {
			return func(l string, iff *ssa.If, truth bool) bool {
				return list.Block().Dominates(iff.Block()) && sel(l, iff, truth)
			}
		}
		ok := len(listExits) > 0
		detail := ""
		if b, n, _ := exitsBlockedSel(fi, listExits, afterList(c10Edges(x.viaAccessor(indicator)))); !b || n == 0 {
			ok, detail = false, "success without "+indWhat
		}
		// some signature was processed: counter != 0 (counting down: counter != limit)
		processed := func(l string, cond ssa.Value, truth bool) bool {
			op, a, b, okc := c10Cmp(cond, truth)
			if !okc {
				return false
			}
			isCnt := func(v ssa.Value) bool {
				lc, isLoad := x.cellOfLoad(v)
				return isLoad && lc == counter
			}
			if down {
				return (isCnt(a) && x.isLimit(b) && (op == token.NEQ || op == token.LSS)) || (isCnt(b) && x.isLimit(a) && (op == token.NEQ || op == token.GTR))
			}
			return isCnt(a) && (((op == token.NEQ || op == token.GTR) && c10IntConst(b, 0)) || (op == token.GEQ && c10IntConst(b, 1)))
		}
		if b, n, _ := exitsBlockedSel(fi, listExits, afterList(c10Edges(x.viaAccessor(processed)))); !b || n == 0 {
			ok, detail = false, "success with zero processed signatures"
		}
		for _, ex := range listExits {
			r := ex.Ret
			rc, isLoad := x.cellOfLoad(r.Results[1])
			if !x.isResolved(r.Results[0]) || !isLoad || rc != *out {
				ok, detail = false, "the success exit returns "+desc(r.Results[0])+" / "+desc(r.Results[1])
			}
		}
		c.Check(ok, "result/success-exit", "the success exit requires the success flag and a non-zero counter and returns the resolved descriptor with the stored outcomes", site, detail)
		// listing error other than the sentinel is fail-closed (disjunctive)
		// (the two alternatives may be two branches or one branch on the computed disjunction `err == nil || errors.Is(err,
		// errDone)` — a `switch` case: c10Alts)
		okL, n, wit := exitsBlockedSel(fi, listExits, c10Edges(c10Labels(matchOf(pre("EQ("+descTailErr(list)+",nil)"), pre("T(call:errors.Is("+descTailErr(list)+",global:ngo.", "))")))))
		c.slot(okL && n >= 2, n, "result/listing-error", "a listing error other than the done sentinel fails verification", w.InstrPos(list), "success after a listing error", wit...)
	}

	// ---- (e) failures in the callback ---------------------------------------
	// From the event (the fetch returned an error / Verify returned a nil outcome) on, in this invocation of the callback:
	// the rest of the function that made the call without the edges that contradict the event and, for a call made in the
	// per-signature worker, the loop body after the worker returned through any exit it can still take.
	// A nil outcome is judged once for each answer of Verify's error (nil / not nil): the error is one value per
	// iteration, so the two cases together are all executions, and within a case the tests of that value all go the same
	// way — `if err != nil && outcome == nil {return err}; if err != nil {…continue}` (the nested test flattened) does not
	// continue with a nil outcome although, edge by edge, the second `err != nil` can be reached over the first one's
	// `err == nil`.
	for _, fc := range []struct {
		key   string
		ev    c10assume
		what  string
		split []c10assume
	}{
		{"fail/fetch-error", c10assume{fetch, 2, false}, "a signature that cannot be fetched", nil},
		{"fail/nil-outcome", c10assume{verify, 0, true}, "a failed verification without outcome", []c10assume{{verify, 1, true}, {verify, 1, false}}},
	} {
		if len(c10AssumeCut(fc.ev.call.Parent(), []c10assume{fc.ev})) == 0 && !(x.H != nil && fc.ev.call.Parent() == x.H) {
			c.Bad(fc.key, fc.what+" ends the callback with an error", w.FnPos(CB), "no branch on "+desc(fc.ev.call)+fmt.Sprintf("#%d", fc.ev.idx))
			continue
		}
		cont := false
		var wit []string
		var conts []c10cont
		if len(fc.split) == 0 {
			conts = x.forward(fc.ev.call, fc.ev)
		}
		for _, alt := range fc.split {
			conts = append(conts, x.forward(fc.ev.call, fc.ev, alt)...)
		}
		for _, ct := range conts {
			if ct.fi.Fn != CB {
				continue
			}
			if ct.fi.reachHit(ct.starts, ct.cut, map[int]bool{loop.Header.Index: true}) {
				cont = true
			}
			if wt := ct.fi.successWitness(Mode{Kind: mErr}, ct.starts, ct.cut); wt != nil && wit == nil {
				wit = wt
			}
			c.Evals++
		}
		c.Check(!cont && wit == nil, fc.key, fc.what+" ends the callback with an error: the loop does not continue and nil is not returned", w.FnPos(CB), fmt.Sprintf("loop continues=%v nil return=%v", cont, wit != nil), wit...)
	}
	// a failed verification with outcome continues and records the error (not a success)
}

func c10IsStructPtr(t types.Type) bool {
	pt, ok := t.Underlying().(*types.Pointer)
	if !ok {
		return false
	}
	_, ok = pt.Elem().Underlying().(*types.Struct)
	return ok
}

// objectDiscipline: the state object is used only through its fields — by the outer function (directly or through the
// one local that holds its address), by the callback only to hand it to the page worker, by the page worker only through
// the parameter that receives it — field by field, or handed on as it is to the per-signature worker at its one call
// site, which again uses the parameter that receives it field by field only; or handed to a read-only accessor (a module
// function that only loads fields of the parameter that receives it). Then the stores found by field
// (c10frame.stores, which looks at all these functions) are all the stores there are.
func (x *c10frame) objectDiscipline() (bool, string) {
	isObjParam := func(p *ssa.Parameter) bool {
		for _, q := range x.objParams {
			if q == p {
				return true
			}
		}
		return false
	}
	onlyFields := func(v ssa.Value, what string) string {
		refs := v.Referrers()
		if refs == nil {
			return ""
		}
		for _, r := range *refs {
			switch u := r.(type) {
			case *ssa.FieldAddr, *ssa.DebugRef:
			case *ssa.Store:
				// the address the constructor returned is put into the one local that holds it
				if !(x.ctorCall != nil && v == ssa.Value(x.ctorCall) && x.objPtr != nil && u.Addr == ssa.Value(x.objPtr) && u.Val == v) {
					return what + " is used other than field by field (" + x.w.InstrPos(r) + ")"
				}
			case *ssa.UnOp:
				// a load of the whole object: a copy (see c10WholeLoad)
				if !c10WholeLoad(u, v) {
					return what + " is used other than field by field (" + x.w.InstrPos(r) + ")"
				}
			case *ssa.MakeClosure:
				// captured once more by the per-signature worker made inside the callback (its uses are judged below)
				if x.hmc == nil || u != x.hmc {
					return what + " is captured by another closure (" + x.w.InstrPos(r) + ")"
				}
			case *ssa.Call:
				// handed to the per-signature worker: only as an argument whose parameter is known to alias the object
				okCall := x.H != nil && u == x.hc && u.Call.Value != v && len(u.Call.Args) == len(x.H.Params)
				if x.accCalls[u] {
					// handed to a read-only accessor (c10frame.findAccessors): it loads fields and nothing else, so it adds
					// neither a store nor another way to reach the object
					continue
				}
				if okCall {
					for i, a := range u.Call.Args {
						if a == v && !isObjParam(x.H.Params[i]) {
							okCall = false
						}
					}
				}
				if !okCall {
					return what + " is used other than field by field (" + x.w.InstrPos(r) + ")"
				}
			default:
				return what + " is used other than field by field (" + x.w.InstrPos(r) + ")"
			}
		}
		return ""
	}
	// the object
	for _, r := range *x.obj.Referrers() {
		switch u := r.(type) {
		case *ssa.FieldAddr, *ssa.DebugRef:
		case *ssa.UnOp:
			// a load of the whole object: a copy (see c10WholeLoad)
			if !c10WholeLoad(u, x.obj) {
				return false, "the address of the object escapes (" + x.w.InstrPos(r) + ")"
			}
		case *ssa.Store:
			if !(x.objPtr != nil && u.Addr == ssa.Value(x.objPtr) && u.Val == ssa.Value(x.obj)) {
				return false, "the object is overwritten as a whole or its address is stored (" + x.w.InstrPos(u) + ")"
			}
		case *ssa.MakeClosure:
			if u != x.mc && (x.hmc == nil || u != x.hmc) {
				return false, "the object is captured by another closure"
			}
		case *ssa.Return:
			// the constructor hands the object it built to the outer function (c10frame.ctorAlloc)
			if !(x.ctor != nil && u.Parent() == x.ctor) {
				return false, "the address of the object escapes (" + x.w.InstrPos(r) + ")"
			}
		case *ssa.Call:
			// The object is a struct-valued local of the outer function (`st := state{…}`, no local that holds its address)
			// and the outer function calls a read-only accessor on it (`st.limitError()`, `verified(&st)`): the address goes
			// to a parameter that is used for nothing but loading whole fields (c10frame.findAccessors / c10ReadOnlyParam),
			// so the callee neither stores through it nor keeps or hands back a way to reach the object — the same argument,
			// and the same test, as for an accessor called through the local that holds the address or through the page
			// worker's parameter (onlyFields above). Every other call that receives the address makes it escape.
			if !x.accCalls[u] {
				return false, "the address of the object escapes (" + x.w.InstrPos(r) + ")"
			}
		default:
			return false, "the address of the object escapes (" + x.w.InstrPos(r) + ")"
		}
	}
	// the object built by a constructor: the constructor is nothing else in this verification, and the outer function
	// uses the address it returned field by field, or keeps it in the one local that holds it
	if x.ctorCall != nil {
		if x.ctor == x.A || x.ctor == x.CB || (x.H != nil && x.ctor == x.H) || x.obj.Parent() != x.ctor {
			return false, "the constructor of the object also runs as part of the callback"
		}
		if why := onlyFields(x.ctorCall, "the object"); why != "" {
			return false, why
		}
	}
	// the local that holds its address
	if x.objPtr != nil {
		ps := x.stores(c10cell{x.objPtr, -1})
		if !ps.ok || len(ps.sts) != 1 {
			return false, "the variable holding the object is reassigned or escapes"
		}
		for _, r := range *x.objPtr.Referrers() {
			switch u := r.(type) {
			case *ssa.UnOp:
				if why := onlyFields(u, "the object"); why != "" {
					return false, why
				}
			case *ssa.MakeClosure:
				if u != x.mc && (x.hmc == nil || u != x.hmc) {
					return false, "the object is captured by another closure"
				}
			}
		}
	}
	// the callback: hands it to the page worker, nothing else; a callback that does the work itself (and a per-signature
	// worker that is a closure) uses what it captured field by field
	for fv, b := range x.bind {
		if b != ssa.Value(x.obj) && (x.objPtr == nil || b != ssa.Value(x.objPtr)) {
			continue
		}
		if !(x.fc != nil && fv.Parent() == x.A) {
			if b == ssa.Value(x.obj) {
				if why := onlyFields(fv, "the object"); why != "" {
					return false, why
				}
				continue
			}
			for _, r := range *fv.Referrers() {
				switch u := r.(type) {
				case *ssa.DebugRef:
				case *ssa.UnOp:
					if why := onlyFields(u, "the object"); why != "" {
						return false, why
					}
				case *ssa.MakeClosure:
					if x.hmc == nil || u != x.hmc {
						return false, "the object is captured by another closure"
					}
				default:
					return false, "the variable holding the object is used other than by loading it (" + x.w.InstrPos(r) + ")"
				}
			}
			continue
		}
		for _, r := range *fv.Referrers() {
			switch u := r.(type) {
			case *ssa.DebugRef:
			case *ssa.UnOp:
				for _, rr := range *u.Referrers() {
					if _, dbg := rr.(*ssa.DebugRef); !dbg && rr != ssa.Instruction(x.fc) {
						return false, "the callback uses the object itself"
					}
				}
			case *ssa.Call:
				if u != x.fc {
					return false, "the callback uses the object itself"
				}
			default:
				return false, "the callback uses the object itself"
			}
		}
	}
	// the page worker
	if x.objParam != nil {
		if why := onlyFields(x.objParam, "the object"); why != "" {
			return false, why
		}
	}
	// the per-signature worker
	for _, p := range x.objParams {
		if why := onlyFields(p, "the object"); why != "" {
			return false, why
		}
	}
	return true, ""
}

// c10WholeLoad: u reads the whole state object through its address (`*obj`: the receiver of a value-receiver method
// called on it — `func (s state) limitError() error` —, a struct argument, a snapshot for a log line). The result is a
// copy of the struct: no store to a field of the object can be made through it and it is no way to reach the object, so
// "the stores found field by field are all the stores there are" — all the object discipline is there for — is not
// touched by it. What is read from the copy is not state of the verification for any rule: a test made on a copy is not
// recognised as a test of the counter or of the success indicator (c10frame.cellOfLoad knows field loads through the
// object's address only), so a decision that moves onto a copy is still reported by the rule that needs the decision.
func c10WholeLoad(u *ssa.UnOp, addr ssa.Value) bool {
	return u.Op == token.MUL && u.X == addr && c10IsStructPtr(addr.Type())
}

func paramDesc(fn *ssa.Function, p *ssa.Parameter) string {
	// parameters captured by closures are spilled into Allocs: describe the way desc() does
	for _, r := range *p.Referrers() {
		if st, ok := r.(*ssa.Store); ok && st.Val == ssa.Value(p) {
			if al, ok := st.Addr.(*ssa.Alloc); ok {
				return descAllocLoad(al)
			}
		}
	}
	return "param:" + p.Name()
}

func descAllocLoad(al *ssa.Alloc) string {
	if sv := singleStore(al); sv != nil {
		return desc(sv)
	}
	return "alloc:" + namedOf(al.Type()) + "<" + al.Comment + ">"
}

func descCellLoad(v ssa.Value) string {
	if al, ok := v.(*ssa.Alloc); ok {
		return descAllocLoad(al)
	}
	return desc(v)
}

func unwrapLoad(v ssa.Value) ssa.Value {
	if u, ok := v.(*ssa.UnOp); ok && u.Op.String() == "*" {
		return u.X
	}
	return v
}

// bindOf resolves a load of a free variable to the outer function's cell.
func bindOf(bind map[string]ssa.Value, v ssa.Value) ssa.Value {
	if fv, ok := unwrapLoad(v).(*ssa.FreeVar); ok {
		return bind[fv.Name()]
	}
	return nil
}

func isPlainIntPtr(t interface{ String() string }) bool { return t.String() == "*int" }

func sliceLitElems(v ssa.Value) []ssa.Value {
	sl, ok := v.(*ssa.Slice)
	if !ok {
		return nil
	}
	al, ok := sl.X.(*ssa.Alloc)
	if !ok {
		return nil
	}
	var out []ssa.Value
	for _, r := range *al.Referrers() {
		if ia, ok := r.(*ssa.IndexAddr); ok {
			for _, rr := range *ia.Referrers() {
				if st, ok := rr.(*ssa.Store); ok && st.Addr == ia {
					out = append(out, st.Val)
				}
			}
		}
	}
	return out
}

// dominatesEdge: every path to target passes through edge (b, j).
func dominatesEdge(b *ssa.BasicBlock, j int, target *ssa.BasicBlock) bool {
	s := b.Succs[j]
	return len(s.Preds) == 1 && s.Dominates(target)
}

// exitsBlockedSel: cutting the selected edges leaves none of the given exits reachable.
func exitsBlockedSel(fi *FnInfo, exits []*ExitSum, sel EdgeSel) (bool, int, []string) {
	cut := fi.edgesMatching(sel)
	n := len(cut)
	r := fi.reach(entryState(), cut)
	for _, ex := range exits {
		for st := range r {
			if st.b == ex.Ret.Block().Index {
				cl, _, _, _ := fi.classify(ex.Ret, state{st.b, fi.through(fi.Fn.Blocks[st.b], st.m), st.p}, Mode{Kind: mErr})
				if cl != clFail {
					return false, n, []string{fmt.Sprintf("exit b%d %s", st.b, fi.W.InstrPos(ex.Ret))}
				}
			}
		}
	}
	return true, n, nil
}
