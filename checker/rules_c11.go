package main

import (
	"fmt"
	"go/token"
	"sort"
	"strings"

	"golang.org/x/tools/go/ssa"
)

func init() {
	register(&Rule{
		ID:    "C11",
		Title: "signing an OCI artifact signs exactly what was resolved and changes nothing else",
		Run:   runC11,
		Explain: "(a) ownership (interprocedural origin analysis over the call tree of SignOCI and SignBlob, closures included): every map update, bulk map copy (maps.Copy), slice element store and store through a pointer targets storage that is freshly made, or owned by the signer object, " +
			"never storage reachable from the entry points' parameters (option maps) or from the descriptor Repository.Resolve returned — also when that descriptor was copied into a local variable whose address a helper received; " +
			"(b) provenance, decided on SSA values: 'the resolved descriptor' is result 0 of Resolve, the result of a helper on the call path to Resolve whose every success-capable exit returns it, or a load of a local variable that holds nothing else and none of whose fields is written; " +
			"Signer.Sign receives what the metadata merge of (resolved descriptor, UserMetadata) delivered (its result, or the local copy it filled in through a pointer); PushSignature receives the caller's media type, the signature bytes Sign returned, the resolved descriptor itself as subject " +
			"and the annotations generated from Sign's SignerInfo; the annotation generator stores the lower-case hex text of sha256(cert.Raw) of every chain certificate under the thumbprint key and the signing time under the created key; " +
			"the merge copies the descriptor's annotations (loop or maps.Copy into a map made there; or the map is born as a copy: maps.Clone with the nil case replaced by a fresh empty map, inline or in a helper handed the annotations) and the metadata pairs into one fresh map, replaces nothing but the Annotations of the descriptor it was handed — in the by-value parameter or in a further local copy of it, the replacement preceding the read that is returned — and skips the replacement only without metadata; " +
			"(c) gates: a digest reference that differs from the resolved digest, a reserved-prefix key (every element of the list: counting loop from 0 to its length, or slices.IndexFunc/ContainsFunc over the whole list with a HasPrefix predicate) and a key already present are fail-closed before Signer.Sign; " +
			"the digest test is applied to the very string that was resolved, in the function that resolves (SignOCI or a helper whose success is a guard of Sign); (d) the repository parameter is used exactly for one Resolve and one PushSignature, counted per call path. " +
			"The gates of (c) are facts about values in roles (the string resolved, the resolved descriptor and its digest; this pair's key, the annotations handed in, a map holding at least those): an edge establishes a fact directly or as the verdict of a module helper " +
			"(bool predicate, validator returning an error, lookup returning (value, ok), closure) every return of which with that verdict lies behind such an edge of its own, roles travelling with the arguments; the pairs may be examined in a loop of the merge or of a helper handed the metadata map, " +
			"and taken over per pair or in bulk (maps.Copy / pure copy loop) where control arrives only over the exhaustion edge of the examining loop; the annotation generator may sit behind wrappers that return its map untouched; the thumbprint list is followed as a value (append chain, preallocated slice, helper handed the chain) over a counting loop 0..len(chain)-1.",
		NotCov:  "what a concrete repository does on push; writes performed inside Signer implementations and dependencies.",
		Trusted: []string{"go/types, go/ssa", "Go map/slice aliasing semantics", "go-digest Parse / Digest.Validate / Digest.String", "maps.Copy, maps.Clone (nil iff the source is nil), slices.IndexFunc, slices.ContainsFunc, fmt %x of a byte array (standard library contracts)", "signer-owned manifest annotation map (table entry)"},
	})
}

// ---- origin analysis -------------------------------------------------------

type originCtx struct {
	w       *World
	entries map[*ssa.Function]bool
	callers map[*ssa.Function][]*ssa.Call      // static call sites inside the tree
	makers  map[*ssa.Function]*ssa.MakeClosure // closure -> its MakeClosure
	tree    map[*ssa.Function]bool
	memo    map[string][]string
	busy    map[string]bool
}

// external results: protected or allowed origins (one line of reason each).
var externalOrigins = map[string]string{
	"invoke:ngo/registry.Repository.Resolve": "protected:descriptor returned by Repository.Resolve",
	"invoke:ngo.Signer.Sign":                 "allowed:values returned by the signer",
	"invoke:ngo.BlobSigner.SignBlob":         "allowed:values returned by the signer",
	"maps.Clone":                             "fresh",
	"slices.Clone":                           "fresh",
	"encoding/json.Marshal":                  "fresh",
	"crypto/sha256.Sum256":                   "fresh",
	"encoding/hex.EncodeToString":            "fresh",
}

func (oc *originCtx) of(fn *ssa.Function, v ssa.Value, depth int) []string {
	if v == nil {
		return []string{"fresh"}
	}
	key := fmt.Sprintf("%p|%p", fn, v)
	if r, ok := oc.memo[key]; ok {
		return r
	}
	if oc.busy[key] || depth > 12 {
		return nil
	}
	oc.busy[key] = true
	defer delete(oc.busy, key)
	r := uniq(oc.of1(fn, v, depth))
	oc.memo[key] = r
	return r
}

func (oc *originCtx) of1(fn *ssa.Function, v ssa.Value, depth int) []string {
	w := oc.w
	switch x := v.(type) {
	case *ssa.MakeMap, *ssa.MakeSlice, *ssa.MakeClosure, *ssa.MakeInterface, *ssa.Function:
		if mi, ok := v.(*ssa.MakeInterface); ok {
			return oc.of(fn, mi.X, depth+1)
		}
		return []string{"fresh"}
	case *ssa.Const:
		return []string{"fresh"}
	case *ssa.Global:
		return []string{"global:" + desc(x)}
	case *ssa.ChangeType:
		return oc.of(fn, x.X, depth+1)
	case *ssa.Convert:
		return oc.of(fn, x.X, depth+1)
	case *ssa.ChangeInterface:
		return oc.of(fn, x.X, depth+1)
	case *ssa.Slice:
		return oc.of(fn, x.X, depth+1)
	case *ssa.Phi:
		var out []string
		for _, e := range x.Edges {
			out = append(out, oc.of(fn, e, depth+1)...)
		}
		return out
	case *ssa.Alloc:
		// the storage itself is local; what matters is what a load of it yields (handled at UnOp)
		return []string{"fresh"}
	case *ssa.Field:
		return oc.of(fn, x.X, depth+1)
	case *ssa.FieldAddr:
		return oc.addrOrigins(fn, x, depth)
	case *ssa.IndexAddr:
		return oc.of(fn, x.X, depth+1)
	case *ssa.Index:
		return oc.of(fn, x.X, depth+1)
	case *ssa.Lookup:
		return oc.of(fn, x.X, depth+1)
	case *ssa.TypeAssert:
		return oc.of(fn, x.X, depth+1)
	case *ssa.UnOp:
		if x.Op != token.MUL {
			return []string{"fresh"}
		}
		switch a := x.X.(type) {
		case *ssa.Alloc:
			return oc.allocContent(fn, a, -1, depth)
		case *ssa.FieldAddr:
			if al, ok := a.X.(*ssa.Alloc); ok {
				return oc.allocContent(fn, al, a.Field, depth)
			}
			// nested field of a local struct: conservative union of everything stored into the struct
			root := ssa.Value(a)
			for {
				if fa, ok := root.(*ssa.FieldAddr); ok {
					root = fa.X
					continue
				}
				break
			}
			if al, ok := root.(*ssa.Alloc); ok {
				return oc.allocDeepContent(fn, al, depth)
			}
			if p, ok := root.(*ssa.Parameter); ok {
				return oc.pointeeContent(fn, p, depth)
			}
			return oc.of(fn, a.X, depth+1)
		case *ssa.IndexAddr:
			return oc.of(fn, a.X, depth+1)
		case *ssa.FreeVar:
			return oc.freeVarContent(fn, a, depth)
		case *ssa.Global:
			return []string{"global:" + desc(a)}
		case *ssa.Parameter:
			return oc.pointeeContent(fn, a, depth)
		}
		return oc.of(fn, x.X, depth+1)
	case *ssa.Extract:
		if call, ok := x.Tuple.(*ssa.Call); ok {
			return oc.callResult(fn, call, x.Index, depth)
		}
		if n, ok := x.Tuple.(*ssa.Next); ok {
			return oc.of(fn, rangeOperand(n), depth+1)
		}
		return oc.of(fn, x.Tuple, depth+1)
	case *ssa.Call:
		return oc.callResult(fn, x, 0, depth)
	case *ssa.Parameter:
		if oc.entries[fn] {
			return []string{"protected:parameter " + x.Name() + " of " + fnName(fn)}
		}
		idx := -1
		for i, p := range fn.Params {
			if p == x {
				idx = i
			}
		}
		var out []string
		for _, call := range oc.callers[fn] {
			if idx < len(call.Call.Args) {
				out = append(out, oc.of(call.Parent(), call.Call.Args[idx], depth+1)...)
			}
		}
		if len(oc.callers[fn]) == 0 {
			out = append(out, "unknown:parameter "+x.Name()+" of "+fnName(fn)+" (no call site in the tree)")
		}
		return out
	case *ssa.FreeVar:
		return oc.freeVarContent(fn, x, depth)
	case *ssa.BinOp:
		return []string{"fresh"}
	}
	_ = w
	return []string{"unknown:" + desc(v)}
}

func (oc *originCtx) addrOrigins(fn *ssa.Function, fa *ssa.FieldAddr, depth int) []string {
	if _, ok := fa.X.(*ssa.Alloc); ok {
		return []string{"fresh"}
	}
	return oc.of(fn, fa.X, depth+1)
}

// pointeeContent: origins of the values that can be loaded through a pointer parameter. The storage a caller's local
// variable provides is the caller's own, but what it holds is whatever the caller put there: a struct copied from a
// protected object still refers to that object's maps and slices (`c := resolved; helper(&c)` — the helper reads the
// resolved descriptor's annotation map through its pointer).
func (oc *originCtx) pointeeContent(fn *ssa.Function, p *ssa.Parameter, depth int) []string {
	if oc.entries[fn] || len(oc.callers[fn]) == 0 || depth > 12 {
		return oc.of(fn, p, depth+1)
	}
	idx := -1
	for i, q := range fn.Params {
		if q == p {
			idx = i
		}
	}
	var out []string
	for _, call := range oc.callers[fn] {
		if idx < 0 || idx >= len(call.Call.Args) {
			continue
		}
		switch a := call.Call.Args[idx].(type) {
		case *ssa.Alloc:
			out = append(out, oc.allocDeepContent(call.Parent(), a, depth+1)...)
		case *ssa.Parameter:
			out = append(out, oc.pointeeContent(call.Parent(), a, depth+1)...)
		default:
			out = append(out, oc.of(call.Parent(), a, depth+1)...)
		}
	}
	return out
}

// allocContent: origins of the values stored in a local Alloc (field < 0: whole value).
func (oc *originCtx) allocContent(fn *ssa.Function, al *ssa.Alloc, field int, depth int) []string {
	var out []string
	n := 0
	for _, r := range *al.Referrers() {
		switch x := r.(type) {
		case *ssa.Store:
			if x.Addr == al {
				n++
				out = append(out, oc.of(fn, x.Val, depth+1)...)
			}
		case *ssa.FieldAddr:
			if field >= 0 && x.Field != field {
				continue
			}
			for _, rr := range *x.Referrers() {
				if st, ok := rr.(*ssa.Store); ok && st.Addr == x {
					n++
					if field >= 0 {
						// a later field store overrides: we cannot order, so union
						out = append(out, oc.of(fn, st.Val, depth+1)...)
					}
				}
			}
		}
	}
	if n == 0 {
		return []string{"fresh"}
	}
	return out
}

// allocDeepContent: origins of every value stored into the Alloc or into any
// (nested) field of it.
func (oc *originCtx) allocDeepContent(fn *ssa.Function, al *ssa.Alloc, depth int) []string {
	var out []string
	n := 0
	var walk func(addr ssa.Value)
	walk = func(addr ssa.Value) {
		refs := addr.Referrers()
		if refs == nil {
			return
		}
		for _, r := range *refs {
			switch x := r.(type) {
			case *ssa.Store:
				if x.Addr == addr {
					n++
					out = append(out, oc.of(fn, x.Val, depth+1)...)
				}
			case *ssa.FieldAddr:
				walk(x)
			}
		}
	}
	walk(al)
	if n == 0 {
		return []string{"fresh"}
	}
	return out
}

func (oc *originCtx) freeVarContent(fn *ssa.Function, fv *ssa.FreeVar, depth int) []string {
	mc := oc.makers[fn]
	if mc == nil {
		return []string{"unknown:free variable " + fv.Name()}
	}
	for i, f := range fn.FreeVars {
		if f == fv && i < len(mc.Bindings) {
			b := mc.Bindings[i]
			if al, ok := b.(*ssa.Alloc); ok {
				return oc.allocContent(mc.Parent(), al, -1, depth)
			}
			return oc.of(mc.Parent(), b, depth+1)
		}
	}
	return []string{"unknown:free variable " + fv.Name()}
}

func (oc *originCtx) callResult(fn *ssa.Function, call *ssa.Call, idx int, depth int) []string {
	name := calleeName(call)
	if o, ok := externalOrigins[name]; ok {
		return []string{o}
	}
	// the optional annotation interface probed on the signer (whatever the module calls it)
	if call.Call.IsInvoke() && call.Call.Method.Name() == "PluginAnnotations" && strings.HasPrefix(name, "invoke:ngo.") {
		return []string{"allowed:manifest annotation map owned by the signer object"}
	}
	if bi, ok := call.Call.Value.(*ssa.Builtin); ok {
		switch bi.Name() {
		case "append":
			base := oc.of(fn, call.Call.Args[0], depth+1)
			return base // the backing array may be the first argument's
		case "len", "cap", "copy", "min", "max":
			return []string{"fresh"}
		}
	}
	g := staticCallee(call)
	if g != nil && g.Blocks != nil && oc.w.IsProductFn(g) {
		var out []string
		for _, b := range g.Blocks {
			if r, ok := blockTerm(b).(*ssa.Return); ok && idx < len(r.Results) {
				// evaluate in the callee with this call as its (only) caller context
				saved := oc.callers[g]
				oc.callers[g] = []*ssa.Call{call}
				sub := &originCtx{w: oc.w, entries: oc.entries, callers: oc.callers, makers: oc.makers, tree: oc.tree, memo: map[string][]string{}, busy: oc.busy}
				out = append(out, sub.of(g, r.Results[idx], depth+1)...)
				oc.callers[g] = saved
			}
		}
		return out
	}
	// results of other external calls that return scalars/strings/errors carry no shared storage of interest
	if !hasRefComponents(call.Type(), 0) {
		return []string{"fresh"}
	}
	return []string{"unknown:result of " + name}
}

func buildOriginCtx(w *World, entries []*ssa.Function) *originCtx {
	oc := &originCtx{w: w, entries: map[*ssa.Function]bool{}, callers: map[*ssa.Function][]*ssa.Call{}, makers: map[*ssa.Function]*ssa.MakeClosure{}, tree: map[*ssa.Function]bool{}, memo: map[string][]string{}, busy: map[string]bool{}}
	for _, e := range entries {
		oc.entries[e] = true
	}
	var rec func(f *ssa.Function)
	rec = func(f *ssa.Function) {
		if oc.tree[f] || f.Blocks == nil || !w.IsProductFn(f) {
			return
		}
		oc.tree[f] = true
		for _, b := range f.Blocks {
			for _, in := range b.Instrs {
				switch x := in.(type) {
				case *ssa.Call:
					if g := staticCallee(x); g != nil && g.Blocks != nil && w.IsProductFn(g) {
						oc.callers[g] = append(oc.callers[g], x)
						rec(g)
					}
				case *ssa.MakeClosure:
					if g, ok := x.Fn.(*ssa.Function); ok {
						oc.makers[g] = x
						rec(g)
					}
				}
			}
		}
	}
	for _, e := range entries {
		rec(e)
	}
	return oc
}

func runC11(c *Ctx) {
	w := c.W
	signOCI := w.Func("", "SignOCI")
	signBlob := w.Func("", "SignBlob")
	if signOCI == nil || signBlob == nil {
		c.Unk("anchors", "anchors: notation.SignOCI and notation.SignBlob", "-", "not found")
		return
	}
	c11Ownership(c, []*ssa.Function{signOCI, signBlob})
	c11SignOCI(c, signOCI)
	c.MinCount("", 14, "signing obligations")
}

func c11Ownership(c *Ctx, entries []*ssa.Function) {
	rule := "ownership: a write (map update, delete, element store, store through a pointer) on the signing call tree targets only fresh or signer-owned storage, never the caller's option maps or the descriptor the repository resolved"
	fns, nWrites := ownershipWrites(c, entries, rule, false)
	if nWrites < 3 {
		c.Unk("ownership#count", "vacuity guard: the signing call tree contains map updates", "-", fmt.Sprintf("%d writes found", nWrites))
	}
	c.Extra["ownership_functions"] = fns
	c.Extra["ownership_writes"] = nWrites
}

// ownershipWrites checks every write on the call tree of the entries against the origin analysis.
// mapsOnly restricts the inventory to map updates and deletes.
func ownershipWrites(c *Ctx, entries []*ssa.Function, rule string, mapsOnly bool) (int, int) {
	w := c.W
	oc := buildOriginCtx(w, entries)
	var fns []*ssa.Function
	for f := range oc.tree {
		fns = append(fns, f)
	}
	sort.Slice(fns, func(i, j int) bool { return fns[i].String() < fns[j].String() })
	nWrites := 0
	for _, f := range fns {
		c.SeenFn(f.String())
		k := 0
		for _, b := range f.Blocks {
			for _, in := range b.Instrs {
				var target ssa.Value
				what := ""
				switch x := in.(type) {
				case *ssa.MapUpdate:
					target, what = x.Map, "map update"
				case *ssa.Call:
					if bi, ok := x.Call.Value.(*ssa.Builtin); ok && bi.Name() == "delete" {
						target, what = x.Call.Args[0], "delete"
					} else if bi, ok := x.Call.Value.(*ssa.Builtin); ok && bi.Name() == "clear" {
						target, what = x.Call.Args[0], "clear"
					} else if n := calleeName(x); (n == "maps.Copy" || n == "maps.Insert") && len(x.Call.Args) == 2 {
						// the standard library's bulk map update: `for k, v := range src { dst[k] = v }` on its first argument
						target, what = x.Call.Args[0], "map copy"
					} else {
						continue
					}
				case *ssa.Store:
					if mapsOnly {
						continue
					}
					switch a := x.Addr.(type) {
					case *ssa.IndexAddr:
						if _, local := a.X.(*ssa.Alloc); local {
							continue
						}
						target, what = a.X, "element store"
					case *ssa.FieldAddr:
						root := ssa.Value(a)
						for {
							if fa, ok := root.(*ssa.FieldAddr); ok {
								root = fa.X
								continue
							}
							break
						}
						if _, local := root.(*ssa.Alloc); local {
							continue
						}
						target, what = root, "store through pointer"
					case *ssa.Parameter, *ssa.FreeVar:
						// *p = v / captured variable assignment: the cell belongs to the parent (a local there)
						if fv, ok := a.(*ssa.FreeVar); ok {
							_ = fv
							continue
						}
						target, what = a, "store through pointer parameter"
					default:
						continue
					}
				default:
					continue
				}
				nWrites++
				k++
				c.Evals++
				os := oc.of(f, target, 0)
				var bad []string
				for _, o := range os {
					if strings.HasPrefix(o, "protected:") || strings.HasPrefix(o, "unknown:") || strings.HasPrefix(o, "global:") {
						bad = append(bad, o)
					}
				}
				key := fmt.Sprintf("ownership/%s/%s#%d", fnName(f), strings.ReplaceAll(what, " ", "-"), k)
				if len(os) == 0 {
					c.Unk(key, rule, w.InstrPos(in), "origin of "+desc(target)+" could not be determined")
				} else if len(bad) > 0 {
					c.Bad(key, rule, w.InstrPos(in), what+" on "+desc(target)+" may write into: "+strings.Join(bad, "; "))
				} else {
					c.OK(key, rule, w.InstrPos(in))
				}
			}
		}
	}
	return len(fns), nWrites
}

func c11SignOCI(c *Ctx, W *ssa.Function) {
	w := c.W
	fi := w.Info(W)
	c.SeenFn(W.String())
	site := w.FnPos(W)
	// (d) the repository calls, per call path of the static call tree (a helper's body counts where it is called)
	var resolve, sign, push *ssa.Call
	var resolvePath []*ssa.Call
	repoCalls := c11RepoCalls(w, W)
	okRepo := len(repoCalls) == 2
	for _, rc := range repoCalls {
		call, plain := rc.call.(*ssa.Call)
		if !plain || rc.opaque {
			okRepo = false
			continue
		}
		switch calleeName(call) {
		case "invoke:ngo/registry.Repository.Resolve":
			if resolve != nil {
				okRepo = false
			}
			resolve, resolvePath = call, rc.path
		case "invoke:ngo/registry.Repository.PushSignature":
			// the push is decided in the entry function's own frame
			if push != nil || len(rc.path) > 0 {
				okRepo = false
			}
			if len(rc.path) == 0 {
				push = call
			}
		}
	}
	for _, ci := range allCalls(W) {
		if call, ok := ci.(*ssa.Call); ok && calleeName(call) == "invoke:ngo.Signer.Sign" {
			sign = call
		}
	}
	// both on the repository the caller handed in (a parameter passed down unchanged)
	repoParam := ""
	if resolve != nil && push != nil {
		up := c11Up(resolve.Call.Value, resolvePath)
		if p, ok := up.(*ssa.Parameter); !ok || p.Parent() != W || up != push.Call.Value {
			okRepo = false
			repoParam = "; Resolve and PushSignature are not both invoked on the repository parameter"
		}
	}
	c.Check(okRepo && resolve != nil && push != nil, "repository/only-resolve-and-push", "who-may-call: the repository is used for exactly one Resolve and one PushSignature", site, fmt.Sprintf("%d repository calls on the call tree%s", len(repoCalls), repoParam))
	if resolve == nil || push == nil || sign == nil {
		c.Unk("anchors/calls", "anchors: Resolve (in SignOCI or a helper on its call tree), Signer.Sign, PushSignature", site, "not all found")
		return
	}
	R := resolve.Parent() // the function that resolves: SignOCI itself or a helper
	c.SeenFn(R.String())
	res := &c11Res{w: w, resolve: resolve, path: resolvePath, busy: map[ssa.Value]bool{}}
	isResolved := res.is
	// the merge call: module callee receiving the caller's UserMetadata and the resolved descriptor — by value, or as a
	// pointer to a local copy of it that the callee fills in
	var merge, gen *ssa.Call
	var copyCell *ssa.Alloc
	for _, ci := range allCalls(W) {
		call, ok := ci.(*ssa.Call)
		if !ok {
			continue
		}
		g := staticCallee(call)
		if g == nil || !w.IsProductFn(g) {
			continue
		}
		hasD, hasM := false, false
		var cell *ssa.Alloc
		for _, a := range call.Call.Args {
			if isResolved(a) {
				hasD = true
			}
			if al, ok := a.(*ssa.Alloc); ok && c11CopyOfResolved(fi, res, al, call) {
				hasD, cell = true, al
			}
			if strings.HasSuffix(desc(a), ".UserMetadata") {
				hasM = true
			}
		}
		if hasD && hasM {
			merge, copyCell = call, cell
		}
		if g.Signature.Results().Len() == 2 && strings.HasPrefix(g.Signature.Results().At(0).Type().String(), "map[string]string") {
			for _, a := range call.Call.Args {
				if ex, ok := a.(*ssa.Extract); ok && ex.Tuple == sign && ex.Index == 1 {
					gen = call
				}
			}
		}
	}
	// (b) provenance
	// The descriptor signed is what the merge delivered: its result 0, or — when the merge works in place — the local copy
	// of the resolved descriptor whose address it was given. c11CopyOfResolved has established that this variable is
	// written once (the resolved descriptor, before the call) and that its address goes to the merge only; the merge rule
	// establishes what the callee does through the pointer; gate/metadata-merge that Sign runs only after it succeeded.
	okSign := false
	if merge != nil {
		if ex, ok := sign.Call.Args[1].(*ssa.Extract); ok && ex.Tuple == merge && ex.Index == 0 && copyCell == nil {
			okSign = true
		}
		if u, ok := sign.Call.Args[1].(*ssa.UnOp); ok && copyCell != nil && u.Op == token.MUL && u.X == ssa.Value(copyCell) {
			okSign = true
		}
	}
	c.Check(okSign, "provenance/signed-descriptor", "Signer.Sign receives the descriptor produced by merging the resolved descriptor with the caller's UserMetadata", w.InstrPos(sign), "Sign receives "+desc(sign.Call.Args[1]))
	c.Check(strings.HasSuffix(desc(sign.Call.Args[2]), ".SignerSignOptions"), "provenance/sign-options", "Signer.Sign receives the caller's signer options", w.InstrPos(sign), "options: "+desc(sign.Call.Args[2]))
	pa := push.Call.Args // ctx, mediaType, blob, subject, annotations
	c.Check(strings.HasSuffix(desc(pa[1]), ".SignatureMediaType"), "provenance/push-media-type", "PushSignature receives the caller's signature media type", w.InstrPos(push), desc(pa[1]))
	okBlob := false
	if ex, ok := pa[2].(*ssa.Extract); ok && ex.Tuple == sign && ex.Index == 0 {
		okBlob = true
	}
	c.Check(okBlob, "provenance/push-signature-bytes", "PushSignature receives the signature bytes Signer.Sign returned", w.InstrPos(push), desc(pa[2]))
	c.Check(isResolved(pa[3]), "provenance/push-subject", "the subject pushed is the resolved descriptor itself (not the descriptor that was signed, which carries the user metadata)", w.InstrPos(push), "subject is "+desc(pa[3]))
	okAnn := false
	if gen != nil {
		if ex, ok := pa[4].(*ssa.Extract); ok && ex.Tuple == gen && ex.Index == 0 {
			okAnn = true
		}
	}
	c.Check(okAnn, "provenance/push-annotations", "the manifest annotations pushed are generated from the SignerInfo Signer.Sign returned", w.InstrPos(push), "annotations are "+desc(pa[4]))
	// the generator proper may sit behind wrappers that hand its map on unchanged (c11Generator); the optional-interface
	// probe on the signer is looked for in SignOCI and in those wrappers
	var G *ssa.Function
	probed := []*ssa.Function{W}
	if gen != nil {
		if G0 := staticCallee(gen); G0 != nil && w.IsProductFn(G0) {
			tk, _ := w.constString("internal/envelope", "AnnotationX509ChainThumbprint")
			ck, _ := w.depConstString("github.com/opencontainers/image-spec/specs-go/v1", "AnnotationCreated")
			var wrappers []*ssa.Function
			var why string
			G, wrappers, why = c11Generator(w, G0, tk, ck)
			if len(wrappers) > 0 || why != "" {
				c.Check(why == "", "annotations/delivered", "the annotations pushed are the map the annotation generator returned, handed on unchanged by the helpers in between", w.FnPos(G0), why)
			}
			for _, wf := range wrappers {
				c.SeenFn(wf.String())
				probed = append(probed, wf)
			}
			c11AnnotationsWin(c, G)
		}
	}
	for _, pf := range probed {
		probeAgreement(c, pf, "probe")
	}
	// (c) gates before Sign
	g := fi.GuardsOf(sign)
	c.Evals++
	need := func(key, what string, subs ...string) {
		_, h := hasLabel(g, subs...)
		c.Check(h, "gate/"+key, "effect-site gate: Signer.Sign is reachable only through — "+what, w.InstrPos(sign), "guards: "+summarizeLabels(g, 8))
	}
	need("arguments", "valid sign arguments", "EQ(call:ngo.", "("+paramWhere(fi.Fn, isNamed("ngo.Signer"))+",", "#err,nil)")
	need("repo-non-nil", "a non-nil repository", "NE("+paramWhere(fi.Fn, isNamed("ngo/registry.Repository"))+",nil)")
	// A gate of the resolving function R holds before Sign when R is SignOCI and it guards the Sign call, or when R is a
	// helper: then it must hold on every success-capable exit of R, and Sign must be reachable only after the calls
	// leading to R returned a nil error (c11ChainSucceeded).
	chainOK, chainWhy := c11ChainSucceeded(w, W, resolvePath, sign)
	if R == W {
		need("resolve", "a successful Resolve", c11ErrLabel(resolve))
	} else {
		s := w.Summarize(R, Mode{Kind: mErr})
		okRes := chainOK && len(s.Exits) > 0
		why := chainWhy
		for _, ex := range s.Exits {
			if _, ok := hasLabel(ex.Checked, c11ErrLabel(resolve)); !ok {
				okRes = false
				why = fnName(R) + " can succeed although Resolve failed (exit at " + w.InstrPos(ex.Ret) + ")"
			}
		}
		c.Check(okRes, "gate/resolve", "effect-site gate: Signer.Sign is reachable only through — a successful Resolve", w.InstrPos(sign), why)
	}
	if merge != nil {
		need("metadata-merge", "a successful metadata merge (reserved prefix / existing key refused)", c11ErrLabel(merge))
	}
	// digest pinning on the resolved string, decided in the frame of the function that resolves: with the edges removed
	// on which the digest fact is known (c11DigestFact — directly, or as the verdict of a helper that was handed the
	// string and the descriptor), Sign (when SignOCI resolves) resp. a nil-error return of the resolving helper is out of
	// reach. At least one such edge must exist; which of the two tests a rewrite keeps separate is not prescribed.
	D := c11DigestFact()
	rfr := res.frame()
	cut := D.edges(rfr)
	c.Evals++
	var hit bool
	if R == W {
		hit = fi.reachHit(entryState(), cut, blocksOf(sign))
	} else {
		hit = !chainOK || !D.outcome(rfr, c11Outcome{err: true})
	}
	c.Check(D.prims() >= 2 && !hit, "gate/digest-pinning", "effect-site gate (disjunctive): Signer.Sign is reachable only if the very string that was resolved equals the resolved digest or is not a digest at all", w.InstrPos(sign),
		fmt.Sprintf("a digest reference (%s) resolving to another digest reaches the signer", desc(resolve.Call.Args[1])))
	// the gates behind Sign: the push only after Sign and the generator succeeded, success only after the push succeeded
	c11SuccessGates(c, W, sign, gen, push)
	if merge != nil {
		c11Merge(c, staticCallee(merge))
	}
	if G != nil {
		c11Annotations(c, G)
		c11FallibleSources(c, G, c11AnnotationKeys(w)...)
	}
}

// c11CopyOfResolved: al is a local copy of the resolved descriptor made for `call` to fill in: one whole-value store, of
// the resolved descriptor, which no path can run after the call; the address is an argument of that one call; everything
// else reads it.
func c11CopyOfResolved(fi *FnInfo, res *c11Res, al *ssa.Alloc, call *ssa.Call) bool {
	var init *ssa.Store
	for _, r := range *al.Referrers() {
		switch x := r.(type) {
		case *ssa.Store:
			if x.Addr != ssa.Value(al) || init != nil || !res.is(x.Val) {
				return false
			}
			init = x
		case *ssa.Call:
			if x != call {
				return false
			}
		case *ssa.UnOp, *ssa.DebugRef:
		case *ssa.FieldAddr:
			if addrWritten(x, 0) {
				return false
			}
		default:
			return false
		}
	}
	return init != nil && c11Before(init, call) && !c11MayPrecede(fi, call, init)
}

// c11Merge: the metadata merge. Every clause is decided on SSA values: the descriptor object (the by-value parameter's
// spill, or the pointer parameter of an in-place merge), its annotation map as handed in, and the key / value of the
// current pair of the loop over the metadata — whether used directly or through a per-iteration variable.
func c11Merge(c *Ctx, M *ssa.Function) {
	w := c.W
	c.SeenFn(M.String())
	site := w.FnPos(M)
	m, why := c11MergeRoles(w, M)
	if m == nil {
		c.Unk("merge/shape", "anchor: merge(descriptor, metadata)", site, why)
		return
	}
	if m.loop == nil && m.xm == nil {
		c.Bad("merge/loop", "the merge visits every metadata pair", site, "no loop over the metadata")
		return
	}
	fi := m.fi
	// what is done with maps (the union map, the copy of the annotations handed in, how the pairs arrive)
	u := m.union()
	fr := m.frame(u)
	// where the pairs are examined: here, or in a helper that was handed the metadata map
	x, xfr := m.examination(fr)
	c.SeenFn(x.M.String())
	lsite := w.InstrPos(blockTerm(x.loop.Header))
	gate := func(f *c11Fact) bool {
		c.Evals++
		return xfr != nil && c11IterGate(x.fi, x.loop, f.edges(xfr))
	}
	// existing key / reserved prefix: per-pair gates. With the edges removed on which the fact is known (c11Fact: inline,
	// or as the verdict of a helper that was handed this pair's key), an iteration of the examining loop can neither get
	// back to the header nor leave through a success-capable exit (c11IterGate).
	c.Check(gate(c11ExistingKeyFact()), "merge/existing-key", "per-pair gate: a key already present in the artifact's annotations is refused", lsite, "an existing annotation can be overwritten: a pair can be taken over without its key having been looked up, and found absent, in the annotations of the descriptor handed in")
	// reserved prefixes: every element of the package-level list that holds the notary prefix
	okRes := false
	if rl := c11ReservedList(w); rl != nil {
		okRes = gate(c11ReservedFact(rl))
	}
	c.Check(okRes, "merge/reserved-prefix", "per-pair gate: a key with a reserved prefix (every element of the reserved list) is refused", lsite, "a reserved-prefix key can pass")
	// the union (c11Union): one fresh map, the annotations handed in copied once, the pairs taken over once — per pair
	// inside the examining loop or in bulk after its exhaustion
	c.Check(u.fresh && u.copies == 1 && u.adds == 1, "merge/fresh-union", "the merged annotations are a fresh map filled with the artifact's own annotations and the metadata pairs (key -> value of the same iteration, or all pairs at once after every one of them was examined)", site,
		fmt.Sprintf("copies=%d adds=%d all-fresh=%v", u.copies, u.adds, u.fresh))
	// the result: the descriptor handed in with nothing but its Annotations replaced (c11MergeRoles refuses any other
	// write to it); delivered as result 0 (by-value form) or left in the caller's variable (in-place form); an exit that
	// does not pass the replacement is possible only when there is no metadata
	s := w.Summarize(M, Mode{Kind: mErr})
	okResult := len(s.Exits) > 0
	detail := ""
	for _, ex := range s.Exits {
		// the object delivered and the replacements it carries (c11M.replacements). By value: result 0 is the parameter
		// itself (nothing replaced) or a load of D / of a local copy of D that holds the descriptor at that point — an equal
		// descriptor value whichever variable it is read from, since no other field of any of them is ever written. In
		// place: the caller's variable, every store into its Annotations counts.
		rel := m.annS
		var ld ssa.Instruction = ex.Ret
		if !m.ptr {
			r0 := ex.Ret.Results[0]
			u, isLoad := r0.(*ssa.UnOp)
			switch {
			case r0 == ssa.Value(m.dPar):
				rel = nil
			case isLoad && u.Op == token.MUL && m.isObject(u.X) && m.holdsDescriptor(u.X, u):
				rel, ld = m.replacements(u.X), u
			default:
				okResult = false
				detail = "the exit at " + w.InstrPos(ex.Ret) + " returns " + desc(r0) + ", not the descriptor handed in"
				continue
			}
		}
		// the value delivered is read at ld (the load of the object; in place: the return): a replacement counts when it runs
		// before that read — earlier in the read's block, or in another block that every path to the read's block passes
		// (a store behind the read in the same block comes too late: `out := *d; d.Annotations = u; return out`)
		noAssign := map[edgeKey]bool{}
		inAssignBlock := false
		for _, st := range rel {
			if st.Block() == ld.Block() {
				if instrIndex(st) < instrIndex(ld) {
					inAssignBlock = true
				}
				continue
			}
			cutInto(fi, st.Block(), noAssign)
			if st.Block().Index == 0 {
				inAssignBlock = true
			}
		}
		if inAssignBlock || !fi.reachHit(entryState(), noAssign, blocksOf(ld)) && ld.Block().Index != 0 {
			continue
		}
		if _, ok := ex.Checked["EQ(len("+desc(m.mPar)+"),const:0)"]; !ok {
			okResult = false
			detail = "the exit at " + w.InstrPos(ex.Ret) + " succeeds without the merged annotations although there is metadata"
		}
	}
	c.Evals++
	c.Check(okResult, "merge/result", "on success the merge delivers the descriptor it was handed with only the Annotations replaced by the merged map; the annotations stay as handed in only when there is no metadata", site, detail)
}

func paramValueDesc(p *ssa.Parameter) string {
	// struct parameters whose address is taken are spilled; desc() forwards single stores
	for _, r := range *p.Referrers() {
		if st, ok := r.(*ssa.Store); ok && st.Val == ssa.Value(p) {
			if al, ok := st.Addr.(*ssa.Alloc); ok {
				return descAllocLoad(al)
			}
		}
	}
	return "param:" + p.Name()
}

// c11Annotations: the manifest annotation generator.
func c11Annotations(c *Ctx, G *ssa.Function) {
	w := c.W
	c.SeenFn(G.String())
	site := w.FnPos(G)
	tk, _ := w.constString("internal/envelope", "AnnotationX509ChainThumbprint")
	ck, _ := w.depConstString("github.com/opencontainers/image-spec/specs-go/v1", "AnnotationCreated")
	// the signer info parameter, by type (its position is not part of the behaviour)
	si := paramWhere(G, isNamed("core/signature.SignerInfo"))
	var okT, okC, okLoop bool
	// thumbprints: what is marshalled under the thumbprint key is, as an SSA value, the list of hex(sha256(cert.Raw)) over
	// the whole chain of the SignerInfo — built here or by a helper that was handed the chain (c11Thumbs); each text is
	// followed back to the Sum256 call it renders (c11HexOfSum)
	fr := c11NewFrame(w, G)
	fr.base["chain"] = func(v ssa.Value, _ ssa.Instruction) bool { return si != "" && desc(v) == si+".CertificateChain" }
	for _, b := range G.Blocks {
		for _, in := range b.Instrs {
			mu, ok := in.(*ssa.MapUpdate)
			if !ok {
				continue
			}
			kd, vd := desc(mu.Key), desc(mu.Value)
			switch kd {
			case fmt.Sprintf("const:%q", tk):
				okT = strings.HasPrefix(vd, "call:encoding/json.Marshal(") && strings.HasSuffix(vd, "#0")
				th := &c11Thumbs{}
				okLoop = th.list(fr, c11MarshalArg(mu.Value)) && th.fills > 0
			case fmt.Sprintf("const:%q", ck):
				okC = strings.HasPrefix(vd, "call:(time.Time).Format(call:ngo/internal/envelope.SigningTime("+si+")#0,")
			}
		}
	}
	c.Check(okT && okLoop, "annotations/thumbprints", "the thumbprint annotation is the JSON list of hex(sha256(cert.Raw)) over every certificate of the signer's chain, under the constant thumbprint key", site, fmt.Sprintf("key/value ok=%v, per-certificate sha256 loop=%v", okT, okLoop))
	c.Check(okC, "annotations/created", "the created annotation is the signing time of the SignerInfo in RFC 3339, under the OCI created key", site, "")
}

// c11Annotations: the generated manifest annotations give the chain thumbprints and the signing time,
// and nothing written into the map afterwards (signer-supplied annotations) can replace them.
func c11AnnotationsWin(c *Ctx, G *ssa.Function) {
	w := c.W
	c.SeenFn(G.String())
	fi := w.Info(G)
	tp, _ := w.constString("internal/envelope", "AnnotationX509ChainThumbprint")
	cr, _ := w.depConstString("github.com/opencontainers/image-spec/specs-go/v1", "AnnotationCreated")
	var sp string
	for _, p := range G.Params {
		if namedOf(p.Type()) == "core/signature.SignerInfo" {
			sp = "param:" + p.Name()
		}
	}
	s := w.Summarize(G, Mode{Kind: mErr})
	c.Evals += s.States
	type upd struct {
		mu  *ssa.MapUpdate
		key string
	}
	required := map[string]func(string) bool{
		fmt.Sprintf("const:%q", tp): func(v string) bool {
			return strings.HasPrefix(v, "convert(call:encoding/json.Marshal(") || strings.HasPrefix(v, "call:encoding/json.Marshal(")
		},
		fmt.Sprintf("const:%q", cr): func(v string) bool {
			return strings.HasPrefix(v, "call:(time.Time).Format(call:ngo/internal/envelope.SigningTime("+sp+")#0,")
		},
	}
	ok := len(s.Exits) > 0 && tp != "" && cr != "" && sp != ""
	detail := ""
	for _, e := range s.Exits {
		M := e.Ret.Results[0]
		// writes into M
		var mine []upd
		var others []ssa.Instruction
		for _, b := range G.Blocks {
			for _, in := range b.Instrs {
				switch x := in.(type) {
				case *ssa.MapUpdate:
					if x.Map != M {
						continue
					}
					k := desc(x.Key)
					if chk, isReq := required[k]; isReq && chk(desc(x.Value)) {
						mine = append(mine, upd{x, k})
					} else {
						others = append(others, in)
					}
				case *ssa.Call:
					if _, isB := x.Call.Value.(*ssa.Builtin); isB {
						continue
					}
					for _, a := range x.Call.Args {
						if a == M {
							others = append(others, in)
						}
					}
				}
			}
		}
		for k := range required {
			var u *ssa.MapUpdate
			for _, m := range mine {
				if m.key == k {
					u = m.mu
				}
			}
			if u == nil {
				ok = false
				detail = "the returned map is not given " + k + " from the signer info"
				continue
			}
			// on every path to the return
			cut := map[edgeKey]bool{}
			cutInto(fi, u.Block(), cut)
			if u.Block().Index != 0 && fi.reachHit(entryState(), cut, blocksOf(e.Ret)) && u.Block() != e.Ret.Block() {
				ok = false
				detail = k + " is not set on every path to the return"
			}
			// no other write into the map can follow it
			for _, o := range others {
				after := false
				if o.Block() == u.Block() {
					after = instrIndex(o) > instrIndex(u)
				} else {
					after = fi.reachHit([]state{{u.Block().Index, 0, -1}}, nil, blocksOf(o))
				}
				if after {
					ok = false
					detail = "after " + k + " is set, " + w.InstrPos(o) + " writes into the same map (e.g. copies signer-supplied annotations over the computed ones)"
				}
			}
		}
	}
	c.Evals++
	c.Check(ok, "annotations/computed-values-win", "the manifest annotations returned carry the SHA-256 thumbprints of the signing chain and the signing time computed from the SignerInfo, set on every path and after any signer-supplied annotation (nothing written into the map later can replace them)", w.FnPos(G), detail)
}
