package main

import (
	"go/types"
	"fmt"
	"go/token"
	"sort"
	"strings"

	"golang.org/x/tools/go/ssa"
)

func init() {
	register(&Rule{
		ID:    "C11",
		Title: "signing an OCI artifact signs exactly what was resolved and changes nothing else",
		Run:   runC11,
		Explain: "(a) ownership (interprocedural origin analysis over the call tree of SignOCI and SignBlob, closures included): every map update, slice element store and store through a pointer targets storage that is freshly made, or owned by the signer object, " +
			"never storage reachable from the entry points' parameters (option maps) or from the descriptor Repository.Resolve returned; " +
			"(b) provenance: Signer.Sign receives the descriptor returned by the metadata merge of (resolved descriptor, UserMetadata); PushSignature receives the caller's media type, the signature bytes Sign returned, the resolved descriptor itself as subject " +
			"and the annotations generated from Sign's SignerInfo; the annotation generator stores hex(sha256(cert.Raw)) of every chain certificate under the thumbprint key and the signing time under the created key; " +
			"the merge copies the descriptor's annotations and the metadata pairs into one fresh map; (c) gates: a digest reference that differs from the resolved digest, a reserved-prefix key and a key already present are fail-closed before Signer.Sign; " +
			"the digest test is applied to the very string that was resolved; (d) the repository is used exactly for one Resolve and one PushSignature.",
		NotCov:  "what a concrete repository does on push; writes performed inside Signer implementations and dependencies.",
		Trusted: []string{"go/types, go/ssa", "Go map/slice aliasing semantics", "go-digest Parse", "signer-owned manifest annotation map (table entry)"},
	})
}

// ---- origin analysis -------------------------------------------------------

type originCtx struct {
	w       *World
	entries map[*ssa.Function]bool
	callers map[*ssa.Function][]*ssa.Call      // static call sites inside the tree
	makers  map[*ssa.Function]*ssa.MakeClosure // closure -> its MakeClosure
	tree    map[*ssa.Function]bool
	memo    map[string][]string
	busy    map[string]bool
}

// external results: protected or allowed origins (one line of reason each).
var externalOrigins = map[string]string{
	"invoke:ngo/registry.Repository.Resolve":        "protected:descriptor returned by Repository.Resolve",
	"invoke:ngo.Signer.Sign":                        "allowed:values returned by the signer",
	"invoke:ngo.BlobSigner.SignBlob":                "allowed:values returned by the signer",
	"maps.Clone":                                    "fresh",
	"slices.Clone":                                  "fresh",
	"encoding/json.Marshal":                         "fresh",
	"crypto/sha256.Sum256":                          "fresh",
	"encoding/hex.EncodeToString":                   "fresh",
}

func (oc *originCtx) of(fn *ssa.Function, v ssa.Value, depth int) []string {
	if v == nil {
		return []string{"fresh"}
	}
	key := fmt.Sprintf("%p|%p", fn, v)
	if r, ok := oc.memo[key]; ok {
		return r
	}
	if oc.busy[key] || depth > 12 {
		return nil
	}
	oc.busy[key] = true
	defer delete(oc.busy, key)
	r := uniq(oc.of1(fn, v, depth))
	oc.memo[key] = r
	return r
}

func (oc *originCtx) of1(fn *ssa.Function, v ssa.Value, depth int) []string {
	w := oc.w
	switch x := v.(type) {
	case *ssa.MakeMap, *ssa.MakeSlice, *ssa.MakeClosure, *ssa.MakeInterface, *ssa.Function:
		if mi, ok := v.(*ssa.MakeInterface); ok {
			return oc.of(fn, mi.X, depth+1)
		}
		return []string{"fresh"}
	case *ssa.Const:
		return []string{"fresh"}
	case *ssa.Global:
		return []string{"global:" + desc(x)}
	case *ssa.ChangeType:
		return oc.of(fn, x.X, depth+1)
	case *ssa.Convert:
		return oc.of(fn, x.X, depth+1)
	case *ssa.ChangeInterface:
		return oc.of(fn, x.X, depth+1)
	case *ssa.Slice:
		return oc.of(fn, x.X, depth+1)
	case *ssa.Phi:
		var out []string
		for _, e := range x.Edges {
			out = append(out, oc.of(fn, e, depth+1)...)
		}
		return out
	case *ssa.Alloc:
		// the storage itself is local; what matters is what a load of it yields (handled at UnOp)
		return []string{"fresh"}
	case *ssa.Field:
		return oc.of(fn, x.X, depth+1)
	case *ssa.FieldAddr:
		return oc.addrOrigins(fn, x, depth)
	case *ssa.IndexAddr:
		return oc.of(fn, x.X, depth+1)
	case *ssa.Index:
		return oc.of(fn, x.X, depth+1)
	case *ssa.Lookup:
		return oc.of(fn, x.X, depth+1)
	case *ssa.TypeAssert:
		return oc.of(fn, x.X, depth+1)
	case *ssa.UnOp:
		if x.Op != token.MUL {
			return []string{"fresh"}
		}
		switch a := x.X.(type) {
		case *ssa.Alloc:
			return oc.allocContent(fn, a, -1, depth)
		case *ssa.FieldAddr:
			if al, ok := a.X.(*ssa.Alloc); ok {
				return oc.allocContent(fn, al, a.Field, depth)
			}
			// nested field of a local struct: conservative union of everything stored into the struct
			root := ssa.Value(a)
			for {
				if fa, ok := root.(*ssa.FieldAddr); ok {
					root = fa.X
					continue
				}
				break
			}
			if al, ok := root.(*ssa.Alloc); ok {
				return oc.allocDeepContent(fn, al, depth)
			}
			return oc.of(fn, a.X, depth+1)
		case *ssa.IndexAddr:
			return oc.of(fn, a.X, depth+1)
		case *ssa.FreeVar:
			return oc.freeVarContent(fn, a, depth)
		case *ssa.Global:
			return []string{"global:" + desc(a)}
		}
		return oc.of(fn, x.X, depth+1)
	case *ssa.Extract:
		if call, ok := x.Tuple.(*ssa.Call); ok {
			return oc.callResult(fn, call, x.Index, depth)
		}
		if n, ok := x.Tuple.(*ssa.Next); ok {
			return oc.of(fn, rangeOperand(n), depth+1)
		}
		return oc.of(fn, x.Tuple, depth+1)
	case *ssa.Call:
		return oc.callResult(fn, x, 0, depth)
	case *ssa.Parameter:
		if oc.entries[fn] {
			return []string{"protected:parameter " + x.Name() + " of " + fnName(fn)}
		}
		idx := -1
		for i, p := range fn.Params {
			if p == x {
				idx = i
			}
		}
		var out []string
		for _, call := range oc.callers[fn] {
			if idx < len(call.Call.Args) {
				out = append(out, oc.of(call.Parent(), call.Call.Args[idx], depth+1)...)
			}
		}
		if len(oc.callers[fn]) == 0 {
			out = append(out, "unknown:parameter "+x.Name()+" of "+fnName(fn)+" (no call site in the tree)")
		}
		return out
	case *ssa.FreeVar:
		return oc.freeVarContent(fn, x, depth)
	case *ssa.BinOp:
		return []string{"fresh"}
	}
	_ = w
	return []string{"unknown:" + desc(v)}
}

func (oc *originCtx) addrOrigins(fn *ssa.Function, fa *ssa.FieldAddr, depth int) []string {
	if _, ok := fa.X.(*ssa.Alloc); ok {
		return []string{"fresh"}
	}
	return oc.of(fn, fa.X, depth+1)
}

// allocContent: origins of the values stored in a local Alloc (field < 0: whole value).
func (oc *originCtx) allocContent(fn *ssa.Function, al *ssa.Alloc, field int, depth int) []string {
	var out []string
	n := 0
	for _, r := range *al.Referrers() {
		switch x := r.(type) {
		case *ssa.Store:
			if x.Addr == al {
				n++
				out = append(out, oc.of(fn, x.Val, depth+1)...)
			}
		case *ssa.FieldAddr:
			if field >= 0 && x.Field != field {
				continue
			}
			for _, rr := range *x.Referrers() {
				if st, ok := rr.(*ssa.Store); ok && st.Addr == x {
					n++
					if field >= 0 {
						// a later field store overrides: we cannot order, so union
						out = append(out, oc.of(fn, st.Val, depth+1)...)
					}
				}
			}
		}
	}
	if n == 0 {
		return []string{"fresh"}
	}
	return out
}

// allocDeepContent: origins of every value stored into the Alloc or into any
// (nested) field of it.
func (oc *originCtx) allocDeepContent(fn *ssa.Function, al *ssa.Alloc, depth int) []string {
	var out []string
	n := 0
	var walk func(addr ssa.Value)
	walk = func(addr ssa.Value) {
		refs := addr.Referrers()
		if refs == nil {
			return
		}
		for _, r := range *refs {
			switch x := r.(type) {
			case *ssa.Store:
				if x.Addr == addr {
					n++
					out = append(out, oc.of(fn, x.Val, depth+1)...)
				}
			case *ssa.FieldAddr:
				walk(x)
			}
		}
	}
	walk(al)
	if n == 0 {
		return []string{"fresh"}
	}
	return out
}

func (oc *originCtx) freeVarContent(fn *ssa.Function, fv *ssa.FreeVar, depth int) []string {
	mc := oc.makers[fn]
	if mc == nil {
		return []string{"unknown:free variable " + fv.Name()}
	}
	for i, f := range fn.FreeVars {
		if f == fv && i < len(mc.Bindings) {
			b := mc.Bindings[i]
			if al, ok := b.(*ssa.Alloc); ok {
				return oc.allocContent(mc.Parent(), al, -1, depth)
			}
			return oc.of(mc.Parent(), b, depth+1)
		}
	}
	return []string{"unknown:free variable " + fv.Name()}
}

func (oc *originCtx) callResult(fn *ssa.Function, call *ssa.Call, idx int, depth int) []string {
	name := calleeName(call)
	if o, ok := externalOrigins[name]; ok {
		return []string{o}
	}
	// the optional annotation interface probed on the signer (whatever the module calls it)
	if call.Call.IsInvoke() && call.Call.Method.Name() == "PluginAnnotations" && strings.HasPrefix(name, "invoke:ngo.") {
		return []string{"allowed:manifest annotation map owned by the signer object"}
	}
	if bi, ok := call.Call.Value.(*ssa.Builtin); ok {
		switch bi.Name() {
		case "append":
			base := oc.of(fn, call.Call.Args[0], depth+1)
			return base // the backing array may be the first argument's
		case "len", "cap", "copy", "min", "max":
			return []string{"fresh"}
		}
	}
	g := staticCallee(call)
	if g != nil && g.Blocks != nil && oc.w.IsProductFn(g) {
		var out []string
		for _, b := range g.Blocks {
			if r, ok := blockTerm(b).(*ssa.Return); ok && idx < len(r.Results) {
				// evaluate in the callee with this call as its (only) caller context
				saved := oc.callers[g]
				oc.callers[g] = []*ssa.Call{call}
				sub := &originCtx{w: oc.w, entries: oc.entries, callers: oc.callers, makers: oc.makers, tree: oc.tree, memo: map[string][]string{}, busy: oc.busy}
				out = append(out, sub.of(g, r.Results[idx], depth+1)...)
				oc.callers[g] = saved
			}
		}
		return out
	}
	// results of other external calls that return scalars/strings/errors carry no shared storage of interest
	if !hasRefComponents(call.Type(), 0) {
		return []string{"fresh"}
	}
	return []string{"unknown:result of " + name}
}

func buildOriginCtx(w *World, entries []*ssa.Function) *originCtx {
	oc := &originCtx{w: w, entries: map[*ssa.Function]bool{}, callers: map[*ssa.Function][]*ssa.Call{}, makers: map[*ssa.Function]*ssa.MakeClosure{}, tree: map[*ssa.Function]bool{}, memo: map[string][]string{}, busy: map[string]bool{}}
	for _, e := range entries {
		oc.entries[e] = true
	}
	var rec func(f *ssa.Function)
	rec = func(f *ssa.Function) {
		if oc.tree[f] || f.Blocks == nil || !w.IsProductFn(f) {
			return
		}
		oc.tree[f] = true
		for _, b := range f.Blocks {
			for _, in := range b.Instrs {
				switch x := in.(type) {
				case *ssa.Call:
					if g := staticCallee(x); g != nil && g.Blocks != nil && w.IsProductFn(g) {
						oc.callers[g] = append(oc.callers[g], x)
						rec(g)
					}
				case *ssa.MakeClosure:
					if g, ok := x.Fn.(*ssa.Function); ok {
						oc.makers[g] = x
						rec(g)
					}
				}
			}
		}
	}
	for _, e := range entries {
		rec(e)
	}
	return oc
}

func runC11(c *Ctx) {
	w := c.W
	signOCI := w.Func("", "SignOCI")
	signBlob := w.Func("", "SignBlob")
	if signOCI == nil || signBlob == nil {
		c.Unk("anchors", "anchors: notation.SignOCI and notation.SignBlob", "-", "not found")
		return
	}
	c11Ownership(c, []*ssa.Function{signOCI, signBlob})
	c11SignOCI(c, signOCI)
	c.MinCount("", 14, "signing obligations")
}

func c11Ownership(c *Ctx, entries []*ssa.Function) {
	rule := "ownership: a write (map update, delete, element store, store through a pointer) on the signing call tree targets only fresh or signer-owned storage, never the caller's option maps or the descriptor the repository resolved"
	fns, nWrites := ownershipWrites(c, entries, rule, false)
	if nWrites < 3 {
		c.Unk("ownership#count", "vacuity guard: the signing call tree contains map updates", "-", fmt.Sprintf("%d writes found", nWrites))
	}
	c.Extra["ownership_functions"] = fns
	c.Extra["ownership_writes"] = nWrites
}

// ownershipWrites checks every write on the call tree of the entries against the origin analysis.
// mapsOnly restricts the inventory to map updates and deletes.
func ownershipWrites(c *Ctx, entries []*ssa.Function, rule string, mapsOnly bool) (int, int) {
	w := c.W
	oc := buildOriginCtx(w, entries)
	var fns []*ssa.Function
	for f := range oc.tree {
		fns = append(fns, f)
	}
	sort.Slice(fns, func(i, j int) bool { return fns[i].String() < fns[j].String() })
	nWrites := 0
	for _, f := range fns {
		c.SeenFn(f.String())
		k := 0
		for _, b := range f.Blocks {
			for _, in := range b.Instrs {
				var target ssa.Value
				what := ""
				switch x := in.(type) {
				case *ssa.MapUpdate:
					target, what = x.Map, "map update"
				case *ssa.Call:
					if bi, ok := x.Call.Value.(*ssa.Builtin); ok && bi.Name() == "delete" {
						target, what = x.Call.Args[0], "delete"
					} else if bi, ok := x.Call.Value.(*ssa.Builtin); ok && bi.Name() == "clear" {
						target, what = x.Call.Args[0], "clear"
					} else {
						continue
					}
				case *ssa.Store:
					if mapsOnly {
						continue
					}
					switch a := x.Addr.(type) {
					case *ssa.IndexAddr:
						if _, local := a.X.(*ssa.Alloc); local {
							continue
						}
						target, what = a.X, "element store"
					case *ssa.FieldAddr:
						root := ssa.Value(a)
						for {
							if fa, ok := root.(*ssa.FieldAddr); ok {
								root = fa.X
								continue
							}
							break
						}
						if _, local := root.(*ssa.Alloc); local {
							continue
						}
						target, what = root, "store through pointer"
					case *ssa.Parameter, *ssa.FreeVar:
						// *p = v / captured variable assignment: the cell belongs to the parent (a local there)
						if fv, ok := a.(*ssa.FreeVar); ok {
							_ = fv
							continue
						}
						target, what = a, "store through pointer parameter"
					default:
						continue
					}
				default:
					continue
				}
				nWrites++
				k++
				c.Evals++
				os := oc.of(f, target, 0)
				var bad []string
				for _, o := range os {
					if strings.HasPrefix(o, "protected:") || strings.HasPrefix(o, "unknown:") || strings.HasPrefix(o, "global:") {
						bad = append(bad, o)
					}
				}
				key := fmt.Sprintf("ownership/%s/%s#%d", fnName(f), strings.ReplaceAll(what, " ", "-"), k)
				if len(os) == 0 {
					c.Unk(key, rule, w.InstrPos(in), "origin of "+desc(target)+" could not be determined")
				} else if len(bad) > 0 {
					c.Bad(key, rule, w.InstrPos(in), what+" on "+desc(target)+" may write into: "+strings.Join(bad, "; "))
				} else {
					c.OK(key, rule, w.InstrPos(in))
				}
			}
		}
	}
	return len(fns), nWrites
}

func c11SignOCI(c *Ctx, W *ssa.Function) {
	w := c.W
	fi := w.Info(W)
	c.SeenFn(W.String())
	site := w.FnPos(W)
	var resolve, sign, push, merge, gen *ssa.Call
	nRepo := 0
	for _, ci := range allCalls(W) {
		call, ok := ci.(*ssa.Call)
		if !ok {
			continue
		}
		n := calleeName(call)
		if strings.HasPrefix(n, "invoke:ngo/registry.Repository.") {
			nRepo++
		}
		switch n {
		case "invoke:ngo/registry.Repository.Resolve":
			resolve = call
		case "invoke:ngo/registry.Repository.PushSignature":
			push = call
		case "invoke:ngo.Signer.Sign":
			sign = call
		}
	}
	c.Check(nRepo == 2 && resolve != nil && push != nil, "repository/only-resolve-and-push", "who-may-call: the repository is used for exactly one Resolve and one PushSignature", site, fmt.Sprintf("%d repository calls", nRepo))
	if resolve == nil || push == nil || sign == nil {
		c.Unk("anchors/calls", "anchors: Resolve, Signer.Sign, PushSignature", site, "not all found")
		return
	}
	// the resolved descriptor cell
	var cell ssa.Value
	for _, b := range W.Blocks {
		for _, in := range b.Instrs {
			if st, ok := in.(*ssa.Store); ok {
				if ex, ok := st.Val.(*ssa.Extract); ok && ex.Tuple == resolve && ex.Index == 0 {
					cell = st.Addr
				}
			}
		}
	}
	isResolved := func(v ssa.Value) bool {
		if ex, ok := v.(*ssa.Extract); ok && ex.Tuple == resolve && ex.Index == 0 {
			return true
		}
		return cell != nil && unwrapLoad(v) == cell && v != cell
	}
	// the merge call: module callee receiving the resolved descriptor and UserMetadata
	for _, ci := range allCalls(W) {
		call, ok := ci.(*ssa.Call)
		if !ok {
			continue
		}
		g := staticCallee(call)
		if g == nil || !w.IsProductFn(g) {
			continue
		}
		hasD, hasM := false, false
		for _, a := range call.Call.Args {
			if isResolved(a) {
				hasD = true
			}
			if strings.HasSuffix(desc(a), ".UserMetadata") {
				hasM = true
			}
		}
		if hasD && hasM {
			merge = call
		}
		if g.Signature.Results().Len() == 2 && strings.HasPrefix(g.Signature.Results().At(0).Type().String(), "map[string]string") {
			for _, a := range call.Call.Args {
				if ex, ok := a.(*ssa.Extract); ok && ex.Tuple == sign && ex.Index == 1 {
					gen = call
				}
			}
		}
	}
	// (b) provenance
	okSign := false
	if merge != nil {
		if ex, ok := sign.Call.Args[1].(*ssa.Extract); ok && ex.Tuple == merge && ex.Index == 0 {
			okSign = true
		}
	}
	c.Check(okSign, "provenance/signed-descriptor", "Signer.Sign receives the descriptor produced by merging the resolved descriptor with the caller's UserMetadata", w.InstrPos(sign), "Sign receives "+desc(sign.Call.Args[1]))
	c.Check(strings.HasSuffix(desc(sign.Call.Args[2]), ".SignerSignOptions"), "provenance/sign-options", "Signer.Sign receives the caller's signer options", w.InstrPos(sign), "options: "+desc(sign.Call.Args[2]))
	pa := push.Call.Args // ctx, mediaType, blob, subject, annotations
	c.Check(strings.HasSuffix(desc(pa[1]), ".SignatureMediaType"), "provenance/push-media-type", "PushSignature receives the caller's signature media type", w.InstrPos(push), desc(pa[1]))
	okBlob := false
	if ex, ok := pa[2].(*ssa.Extract); ok && ex.Tuple == sign && ex.Index == 0 {
		okBlob = true
	}
	c.Check(okBlob, "provenance/push-signature-bytes", "PushSignature receives the signature bytes Signer.Sign returned", w.InstrPos(push), desc(pa[2]))
	c.Check(isResolved(pa[3]), "provenance/push-subject", "the subject pushed is the resolved descriptor itself (not the descriptor that was signed, which carries the user metadata)", w.InstrPos(push), "subject is "+desc(pa[3]))
	okAnn := false
	if gen != nil {
		if ex, ok := pa[4].(*ssa.Extract); ok && ex.Tuple == gen && ex.Index == 0 {
			okAnn = true
		}
	}
	c.Check(okAnn, "provenance/push-annotations", "the manifest annotations pushed are generated from the SignerInfo Signer.Sign returned", w.InstrPos(push), "annotations are "+desc(pa[4]))
	if gen != nil {
		if G := staticCallee(gen); G != nil && w.IsProductFn(G) {
			c11AnnotationsWin(c, G)
		}
	}
	probeAgreement(c, W, "probe")
	// success returns the resolved descriptor and the pushed manifest descriptor
	// (c) gates before Sign
	g := fi.GuardsOf(sign)
	c.Evals++
	need := func(key, what string, subs ...string) {
		_, h := hasLabel(g, subs...)
		c.Check(h, "gate/"+key, "effect-site gate: Signer.Sign is reachable only through — "+what, w.InstrPos(sign), "guards: "+summarizeLabels(g, 8))
	}
	need("arguments", "valid sign arguments", "EQ(call:ngo.", "("+paramWhere(fi.Fn, isNamed("ngo.Signer"))+",", "#err,nil)")
	need("repo-non-nil", "a non-nil repository", "NE("+paramWhere(fi.Fn, isNamed("ngo/registry.Repository"))+",nil)")
	need("resolve", "a successful Resolve", "EQ("+desc(resolve)+"#err,nil)")
	if merge != nil {
		need("metadata-merge", "a successful metadata merge (reserved prefix / existing key refused)", "EQ("+desc(merge)+"#err,nil)")
	}
	// digest pinning on the resolved string
	refV := resolve.Call.Args[1]
	refD := desc(refV)
	cut := fi.edgesMatching(func(l string, iff *ssa.If, truth bool) bool {
		cond := stripNot(iff.Cond, &truth)
		bo, ok := cond.(*ssa.BinOp)
		if !ok {
			return false
		}
		// refV == digest string
		if bo.Op == token.EQL || bo.Op == token.NEQ {
			other := ssa.Value(nil)
			if bo.X == refV {
				other = bo.Y
			} else if bo.Y == refV {
				other = bo.X
			}
			if other != nil {
				d := desc(other)
				if strings.HasPrefix(d, "call:(digest.Digest).String(") && strings.HasSuffix(d, ".Digest)") && ((bo.Op == token.EQL) == truth) {
					return true
				}
			}
			// digest.Parse(refV) err != nil
			var o ssa.Value
			if isNilConst(bo.Y) {
				o = bo.X
			} else if isNilConst(bo.X) {
				o = bo.Y
			}
			if ex, ok := o.(*ssa.Extract); ok {
				if call, ok := ex.Tuple.(*ssa.Call); ok && calleeName(call) == "digest.Parse" && call.Call.Args[0] == refV && ((bo.Op == token.NEQ) == truth) {
					return true
				}
			}
		}
		return false
	})
	hit := fi.reachHit(entryState(), cut, blocksOf(sign))
	c.Evals++
	c.Check(len(cut) >= 2 && !hit, "gate/digest-pinning", "effect-site gate (disjunctive): Signer.Sign is reachable only if the very string that was resolved equals the resolved digest or is not a digest at all", w.InstrPos(sign),
		fmt.Sprintf("a digest reference (%s) resolving to another digest reaches the signer", refD))
	if merge != nil {
		c11Merge(c, staticCallee(merge))
	}
	if gen != nil {
		c11Annotations(c, staticCallee(gen))
	}
}

// c11Merge: the metadata merge.
func c11Merge(c *Ctx, M *ssa.Function) {
	w := c.W
	fi := w.Info(M)
	c.SeenFn(M.String())
	var dP, mP string
	for _, p := range M.Params {
		switch {
		case namedOf(p.Type()) == "ocispec.Descriptor":
			dP = paramValueDesc(p)
		case p.Type().String() == "map[string]string":
			mP = "param:" + p.Name()
		}
	}
	site := w.FnPos(M)
	if dP == "" || mP == "" {
		c.Unk("merge/shape", "anchor: merge(descriptor, metadata)", site, "parameters not recognised")
		return
	}
	loop := findLoop(M, func(d string) bool { return d == mP })
	if loop == nil {
		c.Bad("merge/loop", "the merge visits every metadata pair", site, "no loop over the metadata")
		return
	}
	lsite := w.InstrPos(blockTerm(loop.Header))
	key := "rangekey(" + mP + ")"
	labels, _ := fi.mustPassBetween([]int{loop.Body.Index}, map[int]bool{loop.Header.Index: true})
	_, h := hasLabel(labels, "F(ok("+dP+".Annotations["+key+"]))")
	c.Check(h, "merge/existing-key", "per-pair gate: a key already present in the artifact's annotations is refused", lsite, "an existing annotation can be overwritten; per-iteration facts: "+summarizeLabels(labels, 6))
	// reserved prefixes: inner loop over the reserved list with F(HasPrefix(key, prefix)) per element, entered on every iteration
	// the reserved prefixes: the package-level list of strings that holds the notary prefix
	rp := "global:ngo." + w.globalWhere("", func(t types.Type) bool {
		switch x := t.Underlying().(type) {
		case *types.Array:
			b, ok := x.Elem().Underlying().(*types.Basic)
			return ok && b.Kind() == types.String
		case *types.Slice:
			b, ok := x.Elem().Underlying().(*types.Basic)
			return ok && b.Kind() == types.String
		}
		return false
	})
	inner := findLoop(M, func(d string) bool { return strings.HasPrefix(d, rp) })
	okRes := false
	if inner != nil {
		il, _ := fi.mustPassBetween([]int{inner.Body.Index}, map[int]bool{inner.Header.Index: true})
		_, h1 := hasLabel(il, "F(call:strings.HasPrefix("+key+","+rp+"[")
		cut := map[edgeKey]bool{}
		cutInto(fi, inner.Header, cut)
		thru := !fi.reachHit([]state{{loop.Body.Index, 0, -1}}, cut, map[int]bool{loop.Header.Index: true})
		okRes = h1 && thru
	}
	c.Check(okRes, "merge/reserved-prefix", "per-pair gate: a key with a reserved prefix (every element of the reserved list) is refused", lsite, "a reserved-prefix key can pass")
	// the result: annotations field replaced by a fresh map that received both sources
	s := w.Summarize(M, Mode{Kind: mErr})
	okFresh := len(s.Exits) > 0
	for _, ex := range s.Exits {
		// result 0 is the descriptor value: its Annotations either unchanged (no metadata) or fresh
		_ = ex
	}
	var copies, adds int
	for _, b := range M.Blocks {
		for _, in := range b.Instrs {
			mu, ok := in.(*ssa.MapUpdate)
			if !ok {
				continue
			}
			if !freshMap(mu.Map, 0) {
				okFresh = false
			}
			kd, vd := desc(mu.Key), desc(mu.Value)
			switch {
			case kd == "rangekey("+dP+".Annotations)" && vd == "rangeval("+dP+".Annotations)":
				copies++
			case kd == key && vd == "rangeval("+mP+")":
				adds++
			default:
				okFresh = false
			}
		}
	}
	c.Check(okFresh && copies == 1 && adds == 1, "merge/fresh-union", "the merged annotations are a fresh map filled with the artifact's own annotations and the metadata pairs (key -> value of the same iteration)", site,
		fmt.Sprintf("copies=%d adds=%d all-fresh=%v", copies, adds, okFresh))
}

func paramValueDesc(p *ssa.Parameter) string {
	// struct parameters whose address is taken are spilled; desc() forwards single stores
	for _, r := range *p.Referrers() {
		if st, ok := r.(*ssa.Store); ok && st.Val == ssa.Value(p) {
			if al, ok := st.Addr.(*ssa.Alloc); ok {
				return descAllocLoad(al)
			}
		}
	}
	return "param:" + p.Name()
}

// c11Annotations: the manifest annotation generator.
func c11Annotations(c *Ctx, G *ssa.Function) {
	w := c.W
	c.SeenFn(G.String())
	site := w.FnPos(G)
	tk, _ := w.constString("internal/envelope", "AnnotationX509ChainThumbprint")
	ck, _ := w.depConstString("github.com/opencontainers/image-spec/specs-go/v1", "AnnotationCreated")
	si := "param:" + G.Params[0].Name()
	var okT, okC bool
	for _, b := range G.Blocks {
		for _, in := range b.Instrs {
			mu, ok := in.(*ssa.MapUpdate)
			if !ok {
				continue
			}
			kd, vd := desc(mu.Key), desc(mu.Value)
			switch kd {
			case fmt.Sprintf("const:%q", tk):
				okT = strings.HasPrefix(vd, "call:encoding/json.Marshal(") && strings.HasSuffix(vd, "#0")
			case fmt.Sprintf("const:%q", ck):
				okC = strings.HasPrefix(vd, "call:(time.Time).Format(call:ngo/internal/envelope.SigningTime("+si+")#0,")
			}
		}
	}
	// thumbprints: loop over the chain appending hex(sha256(cert.Raw))
	loop := findLoop(G, func(d string) bool { return d == si+".CertificateChain" })
	okLoop := false
	if loop != nil {
		for _, ci := range allCalls(G) {
			call, ok := ci.(*ssa.Call)
			if !ok {
				continue
			}
			if bi, ok := call.Call.Value.(*ssa.Builtin); ok && bi.Name() == "append" {
				for _, el := range appendedElems(call.Call.Args[1]) {
					d := desc(el)
					if strings.HasPrefix(d, "call:encoding/hex.EncodeToString(") && loopBlocks(loop.Header)[call.Block().Index] {
						// the hashed bytes are cert.Raw of this iteration
						for _, c2 := range allCalls(G) {
							if cc, ok := c2.(*ssa.Call); ok && calleeName(cc) == "crypto/sha256.Sum256" && strings.HasPrefix(desc(cc.Call.Args[0]), si+".CertificateChain[") && strings.HasSuffix(desc(cc.Call.Args[0]), "].Raw") {
								okLoop = true
							}
						}
					}
				}
			}
		}
	}
	c.Check(okT && okLoop, "annotations/thumbprints", "the thumbprint annotation is the JSON list of hex(sha256(cert.Raw)) over every certificate of the signer's chain, under the constant thumbprint key", site, fmt.Sprintf("key/value ok=%v, per-certificate sha256 loop=%v", okT, okLoop))
	c.Check(okC, "annotations/created", "the created annotation is the signing time of the SignerInfo in RFC 3339, under the OCI created key", site, "")
}

// c11Annotations: the generated manifest annotations give the chain thumbprints and the signing time,
// and nothing written into the map afterwards (signer-supplied annotations) can replace them.
func c11AnnotationsWin(c *Ctx, G *ssa.Function) {
	w := c.W
	c.SeenFn(G.String())
	fi := w.Info(G)
	tp, _ := w.constString("internal/envelope", "AnnotationX509ChainThumbprint")
	cr, _ := w.depConstString("github.com/opencontainers/image-spec/specs-go/v1", "AnnotationCreated")
	var sp string
	for _, p := range G.Params {
		if namedOf(p.Type()) == "core/signature.SignerInfo" {
			sp = "param:" + p.Name()
		}
	}
	s := w.Summarize(G, Mode{Kind: mErr})
	c.Evals += s.States
	type upd struct {
		mu  *ssa.MapUpdate
		key string
	}
	required := map[string]func(string) bool{
		fmt.Sprintf("const:%q", tp): func(v string) bool { return strings.HasPrefix(v, "convert(call:encoding/json.Marshal(") || strings.HasPrefix(v, "call:encoding/json.Marshal(") },
		fmt.Sprintf("const:%q", cr): func(v string) bool {
			return strings.HasPrefix(v, "call:(time.Time).Format(call:ngo/internal/envelope.SigningTime("+sp+")#0,")
		},
	}
	ok := len(s.Exits) > 0 && tp != "" && cr != "" && sp != ""
	detail := ""
	for _, e := range s.Exits {
		M := e.Ret.Results[0]
		// writes into M
		var mine []upd
		var others []ssa.Instruction
		for _, b := range G.Blocks {
			for _, in := range b.Instrs {
				switch x := in.(type) {
				case *ssa.MapUpdate:
					if x.Map != M {
						continue
					}
					k := desc(x.Key)
					if chk, isReq := required[k]; isReq && chk(desc(x.Value)) {
						mine = append(mine, upd{x, k})
					} else {
						others = append(others, in)
					}
				case *ssa.Call:
					if _, isB := x.Call.Value.(*ssa.Builtin); isB {
						continue
					}
					for _, a := range x.Call.Args {
						if a == M {
							others = append(others, in)
						}
					}
				}
			}
		}
		for k := range required {
			var u *ssa.MapUpdate
			for _, m := range mine {
				if m.key == k {
					u = m.mu
				}
			}
			if u == nil {
				ok = false
				detail = "the returned map is not given " + k + " from the signer info"
				continue
			}
			// on every path to the return
			cut := map[edgeKey]bool{}
			cutInto(fi, u.Block(), cut)
			if u.Block().Index != 0 && fi.reachHit(entryState(), cut, blocksOf(e.Ret)) && u.Block() != e.Ret.Block() {
				ok = false
				detail = k + " is not set on every path to the return"
			}
			// no other write into the map can follow it
			for _, o := range others {
				after := false
				if o.Block() == u.Block() {
					after = instrIndex(o) > instrIndex(u)
				} else {
					after = fi.reachHit([]state{{u.Block().Index, 0, -1}}, nil, blocksOf(o))
				}
				if after {
					ok = false
					detail = "after " + k + " is set, " + w.InstrPos(o) + " writes into the same map (e.g. copies signer-supplied annotations over the computed ones)"
				}
			}
		}
	}
	c.Evals++
	c.Check(ok, "annotations/computed-values-win", "the manifest annotations returned carry the SHA-256 thumbprints of the signing chain and the signing time computed from the SignerInfo, set on every path and after any signer-supplied annotation (nothing written into the map later can replace them)", w.FnPos(G), detail)
}
