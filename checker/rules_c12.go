package main

import (
	"fmt"
	"go/ast"
	"go/constant"
	"go/token"
	"go/types"
	"regexp/syntax"
	"strconv"
	"strings"

	"golang.org/x/tools/go/ssa"
)

func init() {
	register(&Rule{
		ID:    "C12",
		Title: "no untrusted input or unusual configuration crashes the library",
		Run:   runC12,
		Explain: "(a) panic-site inventory over the product packages, each site discharged by a local proof or a one-line table entry: non-comma-ok type assertions (dominating comma-ok, or a filter summary of the producing function); " +
			"slice/string index and slice expressions (loop induction variable over the same or an equal-length slice, constant index under a length guard, producer summaries, full slices); dereferences of the nilable-by-API pointers " +
			"(VerificationOutcome.EnvelopeContent, the verifier's two policy documents) and calls through nilable interface fields (plugin manager, revocation fields) under nil guards with correlated-check tracking; " +
			"pointers that come out of decoded external data (an element of a map or slice of pointers to JSON structs such as the plugin's verdicts, a pointer-typed field of a JSON struct such as a manifest's subject) are dereferenced, here or in a function they are handed to, only behind a nil test of that pointer (a comma-ok presence test does not count); " +
			"regexp.MustCompile only on constants that parse; map updates only on maps known non-nil; explicit panics; " +
			"(b) outcome/error consistency of the two verifier methods: once the outcome exists every exit returns it, a nil error is returned only on paths no store to outcome.Error reaches, a non-nil error is the value just stored or a load of outcome.Error; " +
			"(c) every content.FetchAll is cut by a positive constant size cap on the very descriptor fetched; (d) no decoder error (json.Unmarshal, Decoder.Decode, x509 parsers) is dropped.",
		NotCov:  "panic-freedom and allocation bounds inside dependencies (JWS/COSE/CBOR/ASN.1 parsers); nil-safety of pointers outside the enumerated classes.",
		Trusted: []string{"go/types, go/ssa", "post-conditions: Envelope.Verify and SignedToken.Verify return a non-empty certificate chain with a nil error", "strings.LastIndex / CutPrefix contracts"},
	})
}

// table entries: sites discharged by reading (key -> reason)
var c12Table = map[string]string{
	"slice|ngo/internal/slices.Delete": "generic helper: callers pass an index obtained from IndexIsser under idx >= 0 (checked at the call sites below)",
}

func runC12(c *Ctx) {
	c12Asserts(c)
	c12Indexes(c)
	c12NilableDerefs(c)
	c12DecodedElements(c)
	c12TestedParams(c)
	c12MustCompile(c)
	c12MapUpdates(c)
	c12Panics(c)
	c12Consistency(c)
	c12SizeCaps(c)
	c12DecoderErrors(c)
	c.MinCount("", 45, "panic-site and consistency obligations")
}

// ---- type assertions ----------------------------------------------------------

func c12Asserts(c *Ctx) {
	w := c.W
	rule := "inventory: a non-comma-ok type assertion cannot fail — it is dominated by a successful comma-ok assertion of the same value and type, or its operand comes from a producer that keeps only elements that passed that assertion"
	n := 0
	for _, fn := range w.Funcs {
		fi := w.Info(fn)
		k := 0
		for _, b := range fn.Blocks {
			for _, in := range b.Instrs {
				ta, ok := in.(*ssa.TypeAssert)
				if !ok || ta.CommaOk {
					continue
				}
				// assertions to an interface type on a non-nil dynamic value cannot be decided here; only concrete targets and all others are inventoried
				n++
				k++
				c.Evals++
				key := fmt.Sprintf("assert/%s#%d", fnName(fn), k)
				d := desc(ta.X)
				tt := abbrev(types.TypeString(ta.AssertedType, nil))
				g := fi.GuardsOf(ta)
				if labelHas(g, "T(ok(assert("+d+","+tt+")))") {
					c.OK(key, rule, w.InstrPos(ta))
					continue
				}
				if c12PoolGet(w, fn, ta) {
					c.OK(key, rule+" (sync.Pool whose New returns exactly that type)", w.InstrPos(ta))
					continue
				}
				if ok, why := c12FilterSummary(w, fn, ta); ok {
					c.OK(key, rule, w.InstrPos(ta))
					continue
				} else {
					c.Bad(key, rule, w.InstrPos(ta), fmt.Sprintf("%s.(%s) can panic: %s", d, tt, why))
				}
			}
		}
	}
	c.Extra["assert_sites"] = n
}

// c12FilterSummary: ta.X is <elem>.F where elem is an element of a slice
// returned by a module function P, and every element P appends passed
// ok(assert(elem.F, T)).
func c12FilterSummary(w *World, fn *ssa.Function, ta *ssa.TypeAssert) (bool, string) {
	// find the producing call: walk X back through Field/loads/IndexAddr to a call result
	var call *ssa.Call
	var fieldPath []string
	v := ta.X
	for i := 0; i < 10 && v != nil; i++ {
		switch x := v.(type) {
		case *ssa.Field:
			fieldPath = append([]string{fieldName(x.X.Type(), x.Field)}, fieldPath...)
			v = x.X
		case *ssa.UnOp:
			v = x.X
		case *ssa.FieldAddr:
			fieldPath = append([]string{fieldName(x.X.Type(), x.Field)}, fieldPath...)
			v = x.X
		case *ssa.IndexAddr:
			v = x.X
		case *ssa.Index:
			v = x.X
		case *ssa.Alloc:
			v = singleStore(x)
		case *ssa.Call:
			call = x
			v = nil
		case *ssa.Extract:
			if cc, ok := x.Tuple.(*ssa.Call); ok {
				call = cc
			}
			v = nil
		default:
			v = nil
		}
	}
	if call == nil {
		return false, "the operand is not an element of a slice produced by a module function"
	}
	P := staticCallee(call)
	if P == nil || P.Blocks == nil || !w.IsProductFn(P) {
		return false, "producer " + calleeName(call) + " is not analysable"
	}
	pfi := w.Info(P)
	tt := abbrev(types.TypeString(ta.AssertedType, nil))
	nApp := 0
	for _, ci := range allCalls(P) {
		ac, ok := ci.(*ssa.Call)
		if !ok {
			continue
		}
		bi, ok := ac.Call.Value.(*ssa.Builtin)
		if !ok || bi.Name() != "append" {
			continue
		}
		// only appends that flow into the returned value
		flows := false
		for _, b := range P.Blocks {
			if r, ok := blockTerm(b).(*ssa.Return); ok && len(r.Results) > 0 {
				if fwdPhis(ac)[r.Results[0]] || r.Results[0] == ssa.Value(ac) {
					flows = true
				}
			}
		}
		if !flows {
			continue
		}
		for _, el := range appendedElems(ac.Call.Args[1]) {
			nApp++
			ed := desc(el)
			g := pfi.GuardsOf(ac)
			want := "T(ok(assert(" + ed + "." + strings.Join(fieldPath, ".") + "," + tt + ")))"
			if !labelHas(g, want) {
				return false, "the producer " + fnName(P) + " appends an element without requiring " + want + " (guards: " + summarizeLabels(g, 4) + ")"
			}
		}
	}
	if nApp == 0 {
		return false, "the producer " + fnName(P) + " builds its result otherwise"
	}
	return true, ""
}

// ---- index / slice expressions ---------------------------------------------------

func c12Indexes(c *Ctx) { c12IndexesIn(c, "*") }

// c12IndexesIn runs the index/slice inventory on one package ("*" = every product package).
func c12IndexesIn(c *Ctx, rel string) {
	w := c.W
	rule := "inventory: a slice/string index or slice expression cannot go out of range — induction variable of a loop over the same (or an equal-length) slice, constant index under a length guard, bounds established by a guard or a producer contract, or a table entry"
	n := 0
	funcs := w.Funcs
	if rel != "*" {
		funcs = w.FuncsOfPkg(rel)
	}
	for _, fn := range funcs {
		fi := w.Info(fn)
		loops := allLoops(fn)
		k := 0
		for _, b := range fn.Blocks {
			for _, in := range b.Instrs {
				var x, idx ssa.Value
				kind := "index"
				switch y := in.(type) {
				case *ssa.IndexAddr:
					x, idx = y.X, y.Index
				case *ssa.Index:
					x, idx = y.X, y.Index
				case *ssa.Slice:
					kind = "slice"
					x = y.X
					if y.Low == nil && y.High == nil && y.Max == nil {
						continue // full slice
					}
					// slicing an array pointer or a local array in full is trivial
				default:
					continue
				}
				// arrays indexed by constants / local literal arrays (varargs, slicelit) are compiler-checked
				if _, isAlloc := x.(*ssa.Alloc); isAlloc && kind == "index" {
					if _, isK := idx.(*ssa.Const); isK {
						continue
					}
				}
				if pt, ok := x.Type().Underlying().(*types.Pointer); ok {
					if _, isArr := pt.Elem().Underlying().(*types.Array); isArr {
						if _, isK := idx.(*ssa.Const); isK || kind == "slice" {
							continue
						}
					}
				}
				if _, isArr := x.Type().Underlying().(*types.Array); isArr {
					if _, isK := idx.(*ssa.Const); isK {
						continue
					}
				}
				n++
				k++
				c.Evals++
				key := fmt.Sprintf("%s/%s#%d", kind, fnName(fn), k)
				xd := desc(x)
				ok, why := false, ""
				if kind == "index" {
					ok, why = c12IndexSafe(fi, loops, in, x, idx)
				} else {
					ok, why = c12SliceSafe(fi, in.(*ssa.Slice))
				}
				if !ok && kind == "index" {
					if ok2, why2 := c12TrustedPost(w, fi, in, x, idx); ok2 {
						ok, why = true, why2
					}
				}
				if !ok {
					for tk, reason := range c12Table {
						parts := strings.SplitN(tk, "|", 3)
						if parts[0] == kind && parts[1] == fnName(fn) && (len(parts) < 3 || strings.HasPrefix(desc(in.(ssa.Value)), parts[2]) || strings.HasPrefix(xd, parts[2])) {
							ok, why = true, "table: "+reason
						}
					}
				}
				if ok {
					c.OK(key, rule, w.InstrPos(in))
				} else {
					c.Bad(key, rule, w.InstrPos(in), fmt.Sprintf("%s on %s may go out of range: %s", kind, xd, why))
				}
			}
		}
	}
	c.Extra["index_sites"] = n
}

func c12IndexSafe(fi *FnInfo, loops []loopRef, in ssa.Instruction, x, idx ssa.Value) (bool, string) {
	xd := desc(x)
	// induction variable of a loop over the same slice (or the loop that indexes it with its own index)
	for _, l := range loops {
		if l.Idx != nil && l.Idx == idx && loopBlocks(l.Header)[in.Block().Index] {
			if l.X == x || desc(l.X) == xd {
				return true, ""
			}
			// equal-length slice: guard len(x) == len(l.X) or x made with len(l.X)
			g := fi.GuardsOf(in)
			if labelHas(g, "EQ(len("+desc(l.X)+"),len("+xd+"))") || labelHas(g, "EQ(len("+xd+"),len("+desc(l.X)+"))") {
				return true, ""
			}
			if ms, ok := x.(*ssa.MakeSlice); ok && desc(ms.Len) == "len("+desc(l.X)+")" {
				return true, ""
			}
		}
	}
	// reverse index loops: for i := len(a)-1; i >= 0; i-- over a, with equal-length b
	if p, ok := idx.(*ssa.Phi); ok {
		init := ""
		for _, e := range p.Edges {
			d := desc(e)
			if strings.HasPrefix(d, "(len(") && strings.HasSuffix(d, ") - const:1)") {
				init = strings.TrimSuffix(strings.TrimPrefix(d, "(len("), ") - const:1)")
			}
		}
		g := fi.GuardsOf(in)
		if init != "" && labelHas(g, "GE("+desc(p)+",const:0)") {
			if init == xd || labelHas(g, "EQ(len("+init+"),len("+xd+"))") || labelHas(g, "EQ(len("+xd+"),len("+init+"))") {
				return true, ""
			}
		}
	}
	if k, ok := idx.(*ssa.Const); ok {
		g := fi.GuardsOf(in)
		n := constString(k)
		if n == "0" {
			for _, l := range []string{"NE(len(" + xd + "),const:0)", "GT(len(" + xd + "),const:0)", "GE(len(" + xd + "),const:1)", "EQ(len(" + xd + "),const:1)"} {
				if labelHas(g, l) {
					return true, ""
				}
			}
		}
		if kv, ok := parseConstInt(desc(k)); ok && earlierAccessProves(x, kv+1, in) {
			return true, ""
		}
		return false, "constant index " + n + " without a length guard; guards: " + summarizeLabels(g, 4)
	}
	// index returned by an index-finding producer, guarded non-negative
	if call := callOf(idx); call != nil || true {
		g := fi.GuardsOf(in)
		id := desc(idx)
		if strings.HasPrefix(id, "call:ngo/internal/slices.IndexIsser("+xd+",") && (labelHas(g, "GE("+id+",const:0)")) {
			return true, ""
		}
	}
	// value-based bound proof: 0 <= idx by construction or guard, idx < len(x) by a guard every path passes or a producer contract
	if idxInRange(fi, in, x, idx) {
		return true, ""
	}
	return false, "index " + desc(idx) + " is not tied to the length of the indexed value"
}

func c12SliceSafe(fi *FnInfo, sl *ssa.Slice) (bool, string) {
	xd := desc(sl.X)
	g := fi.GuardsOf(sl)
	// constant bounds already proved by an earlier access of the same value (`x[0]` … `x[1:]`)
	if sl.Max == nil {
		lo, loOK := int64(0), sl.Low == nil
		if sl.Low != nil {
			lo, loOK = parseConstInt(desc(sl.Low))
		}
		hi, hiOK := lo, sl.High == nil
		if sl.High != nil {
			hi, hiOK = parseConstInt(desc(sl.High))
		}
		if loOK && hiOK && lo >= 0 && hi >= lo && earlierAccessProves(sl.X, hi, sl) {
			return true, ""
		}
	}
	// x[:i] with i = strings.LastIndex/Index(x, ...) guarded i >= 0
	if sl.Low == nil && sl.High != nil {
		hd := desc(sl.High)
		if (strings.HasPrefix(hd, "call:strings.LastIndex("+xd+",") || strings.HasPrefix(hd, "call:strings.Index("+xd+",")) && labelHas(g, "GE("+hd+",const:0)") {
			return true, ""
		}
		// p[:n] guarded len(p) > n and n > 0
		if labelHas(g, "GT(len("+xd+"),"+hd+")") || labelHas(g, "GE(len("+xd+"),"+hd+")") {
			return true, ""
		}
		if k, ok := sl.High.(*ssa.Const); ok {
			n := constString(k)
			for _, l := range []string{"GE(len(" + xd + "),const:" + n + ")", "EQ(len(" + xd + "),const:" + n + ")"} {
				if labelHas(g, l) {
					return true, ""
				}
			}
		}
		if ms, ok := sl.X.(*ssa.MakeSlice); ok && desc(ms.Cap) != "" {
			_ = ms
		}
	}
	// the halves around i = strings.Index*(x, sep) (first or last occurrence), reachable only with i >= 0: 0 <= i < len(x)
	{
		idxOf := func(v ssa.Value) (ssa.Value, bool) {
			if bo, ok := v.(*ssa.BinOp); ok && bo.Op == token.ADD {
				if _, isK := bo.Y.(*ssa.Const); isK {
					v = bo.X
				}
			}
			call, ok := v.(*ssa.Call)
			if !ok || len(call.Call.Args) != 2 || desc(call.Call.Args[0]) != xd {
				return nil, false
			}
			switch calleeName(call) {
			case "strings.Index", "strings.IndexByte", "strings.IndexRune", "strings.LastIndex", "strings.LastIndexByte":
				return call, true
			}
			return nil, false
		}
		var iv ssa.Value
		okForm := false
		if sl.Low == nil && sl.High != nil && sl.Max == nil {
			iv, okForm = idxOf(sl.High)
			if _, plus := sl.High.(*ssa.BinOp); plus {
				okForm = false
			}
		} else if sl.High == nil && sl.Low != nil && sl.Max == nil {
			iv, okForm = idxOf(sl.Low)
			// s[i+k:] needs i+k <= len(s): k is the separator's length (a one-byte separator for the Byte/Rune forms)
			if bo, plus := sl.Low.(*ssa.BinOp); plus && okForm {
				k, _ := bo.Y.(*ssa.Const)
				call := iv.(*ssa.Call)
				sepLen := int64(1)
				if kc, isK := call.Call.Args[1].(*ssa.Const); isK && kc.Value != nil && kc.Value.Kind() == constant.String {
					sepLen = int64(len(constant.StringVal(kc.Value)))
				}
				if k == nil || k.Value == nil || k.Int64() != sepLen {
					okForm = false
				}
			}
		}
		if okForm && iv != nil {
			id := desc(iv)
			for _, l := range []string{"GE(" + id + ",const:0)", "NE(" + id + ",const:-1)", "GT(" + id + ",const:-1)"} {
				if labelHas(g, l) {
					return true, ""
				}
			}
			if sd, sep, ok := indexCall(iv); ok && labelHas(g, "T(call:strings.Cut("+sd+","+sep+")#2)") {
				return true, ""
			}
		}
	}
	// x[:0] (and x[:0:0]) is in range for every x, nil included
	if sl.Low == nil {
		if k, ok := sl.High.(*ssa.Const); ok && k.Value != nil && k.Int64() == 0 {
			if sl.Max == nil {
				return true, ""
			}
			if m, ok := sl.Max.(*ssa.Const); ok && m.Value != nil && m.Int64() == 0 {
				return true, ""
			}
		}
	}
	// x[i:] / x[i+1:] inside the loop whose induction variable i ranges over x: 0 <= i < len(x), so i+1 <= len(x)
	if sl.High == nil && sl.Low != nil {
		low := sl.Low
		if bo, ok := low.(*ssa.BinOp); ok && bo.Op == token.ADD {
			if k, ok := bo.Y.(*ssa.Const); ok && k.Value != nil && k.Int64() == 1 {
				low = bo.X
			}
		}
		for _, l := range allLoops(fi.Fn) {
			if l.Idx != nil && l.Idx == low && loopBlocks(l.Header)[sl.Block().Index] && sl.Block() != l.Header && (l.X == sl.X || desc(l.X) == xd) {
				return true, ""
			}
		}
	}
	// x[k:] (k constant) where x is known to start with a constant of at least k bytes, or len(x) >= k
	if sl.High == nil && sl.Max == nil && sl.Low != nil {
		if k, ok := sl.Low.(*ssa.Const); ok && k.Value != nil && k.Value.Kind() == constant.Int {
			kv, _ := constant.Int64Val(k.Value)
			for l := range g {
				for _, f := range []string{"strings.HasPrefix", "strings.HasSuffix", "bytes.HasPrefix", "bytes.HasSuffix"} {
					pre := "T(call:" + f + "(" + xd + ",const:"
					if strings.HasPrefix(l, pre) && strings.HasSuffix(l, "))") {
						if lit, err := strconv.Unquote(l[len(pre) : len(l)-2]); err == nil && int64(len(lit)) >= kv && kv >= 0 {
							return true, ""
						}
					}
				}
				for _, op := range []string{"GE", "EQ", "GT"} {
					pre := op + "(len(" + xd + "),const:"
					if strings.HasPrefix(l, pre) {
						if m, ok := parseConstInt("const:" + strings.TrimSuffix(l[len(pre):], ")")); ok && kv >= 0 && (op != "GT" && m >= kv || op == "GT" && m+1 >= kv) {
							return true, ""
						}
					}
				}
			}
		}
	}
	return false, "bounds " + desc(sl) + " are not established by a guard; guards: " + summarizeLabels(g, 4)
}

// ---- nilable-by-API pointers and interface fields -------------------------------------

func c12NilableDerefs(c *Ctx) {
	w := c.W
	// 1. <outcome>.EnvelopeContent dereferences
	rule := "inventory: VerificationOutcome.EnvelopeContent (nil for skip outcomes and before integrity verification) is dereferenced only under a nil guard or after the integrity/processing gate of the same outcome"
	n := 0
	for _, fn := range w.Funcs {
		fi := w.Info(fn)
		k := 0
		for _, b := range fn.Blocks {
			for _, in := range b.Instrs {
				fa, ok := in.(*ssa.FieldAddr)
				if !ok {
					continue
				}
				// fa.X is a load of <O>.EnvelopeContent
				ld, ok := fa.X.(*ssa.UnOp)
				if !ok || ld.Op != token.MUL {
					continue
				}
				src, ok := ld.X.(*ssa.FieldAddr)
				if !ok || namedOf(src.X.Type()) != "ngo.VerificationOutcome" || fieldName(src.X.Type(), src.Field) != "EnvelopeContent" {
					continue
				}
				n++
				k++
				c.Evals++
				key := fmt.Sprintf("nilable/envelope-content/%s#%d", fnName(fn), k)
				if ok, why := c12OutcomeVerified(w, fi, in, src.X, 0); ok {
					c.OK(key, rule, w.InstrPos(in))
				} else {
					c.Bad(key, rule, w.InstrPos(in), "dereference of "+desc(ld)+" without guard: "+why)
				}
			}
		}
	}
	c.Extra["envelope_content_derefs"] = n
	// 2. method calls on the verifier's policy documents and interface fields
	rule2 := "inventory: a method is called on a nilable field of the verifier (policy documents, plugin manager, revocation validators) only under a nil guard on that field (correlated checks tracked), or the field is set non-nil by the constructor"
	for _, fn := range w.FuncsOfPkg("verifier") {
		fi := w.Info(fn)
		k := 0
		for _, ci := range allCalls(fn) {
			call, ok := ci.(*ssa.Call)
			if !ok {
				continue
			}
			args := callArgs(call)
			if len(args) == 0 {
				continue
			}
			recv := args[0]
			ld, ok := recv.(*ssa.UnOp)
			if !ok || ld.Op != token.MUL {
				continue
			}
			fa, ok := ld.X.(*ssa.FieldAddr)
			if !ok || namedOf(fa.X.Type()) != w.verifierTypeName() {
				continue
			}
			if !call.Call.IsInvoke() {
				// static method on a pointer field: only pointer-typed receivers can be nil-dereferenced
				if _, isPtr := recv.Type().Underlying().(*types.Pointer); !isPtr {
					continue
				}
			}
			fname := fieldName(fa.X.Type(), fa.Field)
			k++
			c.Evals++
			key := fmt.Sprintf("nilable/verifier-field/%s/%s#%d", fnName(fn), fname, k)
			d := desc(recv)
			g := fi.GuardsOf(call)
			if labelHas(g, "NE("+d+",nil)") {
				c.OK(key, rule2, w.InstrPos(call))
				continue
			}
			// nil-safe callee (checks its receiver)
			if callee := staticCallee(call); callee != nil && callee.Blocks != nil {
				s := w.Summarize(callee, Mode{Kind: mErr})
				if len(s.Exits) > 0 && labelHas(s.Checked, "NE(param:"+callee.Params[0].Name()+",nil)") {
					c.OK(key, rule2, w.InstrPos(call))
					continue
				}
			}
			if c12CtorNonNil(w, fa.Field) {
				c.OK(key, rule2, w.InstrPos(call))
				continue
			}
			if c12CallerEstablishes(w, fn, d, g) {
				c.OK(key, rule2, w.InstrPos(call))
				continue
			}
			// the nil test computed by a predicate helper (`if !v.canCheckRevocation() { fail }`): suppose the field is nil
			// at the call; with it and the fields the guards already know to be nil all nil, the helper's verdict is fixed
			// (abstract evaluation of the helper, c05PredicateEdges) and the edges that verdict excludes are removed — if the
			// call cannot be reached then, the field is not nil here. (The verifier's fields are set by the constructor only.)
			{
				recvs := map[string]bool{d: true}
				for l := range g {
					if strings.HasPrefix(l, "EQ(") && strings.HasSuffix(l, ",nil)") {
						recvs[strings.TrimSuffix(strings.TrimPrefix(l, "EQ("), ",nil)")] = true
					}
				}
				cut := map[edgeKey]bool{}
				for e := range c05PredicateEdges(w, fi, recvs) {
					cut[e] = true
				}
				if len(cut) > 0 && call.Block().Index != 0 && !fi.reachHit(entryState(), cut, blocksOf(call)) {
					c.OK(key, rule2, w.InstrPos(call))
					continue
				}
			}
			c.Bad(key, rule2, w.InstrPos(call), "call on "+d+" which may be nil (a verifier built without it); guards: "+summarizeLabels(g, 4))
		}
	}
	// 3. interface-typed parameters that receive such fields (revocation validator handed to the timestamp function)
}

// c12CallerEstablishes: the dereference of receiver field d ("param:<recv>.<field>") sits in an unexported method H, under the local
// facts g. Every call site of H is in a method of the same receiver, passes that receiver on, and cannot be reached once the
// edges "<recv>.<field> != nil" and "<recv>.<other> != nil" (for every other field that g knows to be nil inside H) are cut:
// on every path to the call one of those fields was seen non-nil, inside H the others are nil, so the dereferenced one is not.
// (The verifier's fields are set by the constructor only; the existing rule relies on the same immutability.)
func c12CallerEstablishes(w *World, H *ssa.Function, d string, g map[string]string) bool {
	if H.Signature.Recv() == nil || token.IsExported(H.Name()) || len(H.Params) == 0 {
		return false
	}
	recv := "param:" + H.Params[0].Name()
	if !strings.HasPrefix(d, recv+".") {
		return false
	}
	fields := []string{strings.TrimPrefix(d, recv)}
	for l := range g {
		if strings.HasPrefix(l, "EQ("+recv+".") && strings.HasSuffix(l, ",nil)") {
			fields = append(fields, strings.TrimSuffix(strings.TrimPrefix(l, "EQ("+recv), ",nil)"))
		}
	}
	sites := 0
	for _, F := range w.Funcs {
		for _, b := range F.Blocks {
			for _, in := range b.Instrs {
				// H used as a value: call sites unknown
				if mc, ok := in.(*ssa.MakeClosure); ok && mc.Fn == ssa.Value(H) {
					return false
				}
				call, ok := in.(*ssa.Call)
				if !ok {
					if ci, isCall := in.(ssa.CallInstruction); isCall && ci.Common().StaticCallee() == H {
						return false // go / defer
					}
					continue
				}
				for _, a := range call.Call.Args {
					if a == ssa.Value(H) {
						return false
					}
				}
				if staticCallee(call) != H {
					continue
				}
				sites++
				if len(F.Params) == 0 || F.Signature.Recv() == nil || len(call.Call.Args) == 0 || call.Call.Args[0] != ssa.Value(F.Params[0]) {
					return false
				}
				if b.Index == 0 {
					return false
				}
				r2 := "param:" + F.Params[0].Name()
				fi := w.Info(F)
				cut := fi.edgesMatching(func(l string, _ *ssa.If, _ bool) bool {
					for _, f := range fields {
						if l == "NE("+r2+f+",nil)" {
							return true
						}
					}
					return false
				})
				if len(cut) == 0 || fi.reachHit(entryState(), cut, map[int]bool{b.Index: true}) {
					return false
				}
			}
		}
	}
	return sites > 0
}

// c12OutcomeVerified: at instruction `at`, outcome value O has verified content.
func c12OutcomeVerified(w *World, fi *FnInfo, at ssa.Instruction, O ssa.Value, depth int) (bool, string) {
	O = canonPtr(O) // a parameter read back from the variable a closure captured is that parameter
	od := desc(O)
	g := fi.GuardsOf(at)
	if g == nil {
		return false, "unreachable?"
	}
	if labelHas(g, "NE("+od+".EnvelopeContent,nil)") {
		return true, ""
	}
	for l := range g {
		// success of a module call that received this outcome (processing / integrity)
		if strings.HasPrefix(l, "EQ(call:") && (strings.HasSuffix(l, "#err,nil)") || strings.HasSuffix(l, ".Error,nil)")) && strings.Contains(l, od) && strings.Contains(l, "ngo/verifier.") {
			return true, ""
		}
	}
	// the function itself stores a verified content into O before (the integrity step): store of EnvelopeContent then integrity gate
	for l := range g {
		if strings.HasPrefix(l, "EQ(call:ngo/verifier.") && strings.HasSuffix(l, "#1.Error,nil)") {
			return true, ""
		}
	}
	// the same, read off the instructions: O.EnvelopeContent = c#0 for a module call c that was handed O, and the use is
	// reachable only through `c#1.Error == nil` (the integrity result of that very call)
	for _, b := range fi.Fn.Blocks {
		for _, in := range b.Instrs {
			st, ok := in.(*ssa.Store)
			if !ok {
				continue
			}
			fa, ok := st.Addr.(*ssa.FieldAddr)
			if !ok || fa.X != O || fieldName(O.Type(), fa.Field) != "EnvelopeContent" {
				continue
			}
			ex, ok := st.Val.(*ssa.Extract)
			if !ok {
				continue
			}
			call, ok := ex.Tuple.(*ssa.Call)
			if !ok || staticCallee(call) == nil || !w.IsProductFn(staticCallee(call)) || !b.Dominates(at.Block()) {
				continue
			}
			for _, r := range *call.Referrers() {
				res, ok := r.(*ssa.Extract)
				if !ok || res.Index == ex.Index || errFieldOf(res.Type()) < 0 {
					continue
				}
				if labelHas(g, "EQ("+desc(res)+".Error,nil)") {
					return true, ""
				}
			}
		}
	}
	// O was produced by a module helper (result 0 of its call): every exit of the helper that agrees with what this function
	// knows about the call's other results (error nil, another result non-nil) hands back an outcome that is verified there
	if ex, ok := O.(*ssa.Extract); ok && ex.Index == 0 && depth < 4 {
		if call, ok := ex.Tuple.(*ssa.Call); ok {
			if h := staticCallee(call); h != nil && h.Blocks != nil && w.IsProductFn(h) {
				hi := w.Info(h)
				cd := desc(call)
				n := h.Signature.Results().Len()
				okAll, nRet := true, 0
				for _, hb := range h.Blocks {
					r, isRet := blockTerm(hb).(*ssa.Return)
					if !isRet {
						continue
					}
					// does the caller's knowledge exclude this exit?
					excluded := false
					for k := 1; k < n; k++ {
						rk := r.Results[k]
						kd := fmt.Sprintf("%s#%d", cd, k)
						if isErrorType(rk.Type()) && k == n-1 {
							kd = descTailErr(call)
						}
						if labelHas(g, "EQ("+kd+",nil)") && hi.nonNil(rk, hb) {
							excluded = true
						}
						if labelHas(g, "NE("+kd+",nil)") && isNilConst(rk) {
							excluded = true
						}
						if bv, isB := boolConst(rk); isB && (bv && labelHas(g, "F("+kd+")") || !bv && labelHas(g, "T("+kd+")")) {
							excluded = true
						}
					}
					if excluded {
						continue
					}
					nRet++
					if ok, _ := c12OutcomeVerified(w, hi, r, r.Results[0], depth+1); !ok {
						okAll = false
					}
				}
				if okAll && nRet > 0 {
					return true, ""
				}
			}
		}
	}
	// O is a parameter of an unexported function: all call sites must satisfy the condition
	if p, ok := O.(*ssa.Parameter); ok && depth < 4 && !fi.Fn.Object().Exported() {
		idx := -1
		for i, q := range fi.Fn.Params {
			if q == p {
				idx = i
			}
		}
		nSites := 0
		for _, f := range w.Funcs {
			for _, ci := range allCalls(f) {
				call, ok := ci.(*ssa.Call)
				if !ok || staticCallee(call) != fi.Fn {
					continue
				}
				nSites++
				if ok, why := c12OutcomeVerified(w, w.Info(f), call, call.Call.Args[idx], depth+1); !ok {
					return false, "call site " + w.InstrPos(call) + ": " + why
				}
			}
		}
		if nSites > 0 {
			return true, ""
		}
	}
	return false, "no nil guard and no successful integrity/processing gate for " + od + "; guards: " + summarizeLabels(g, 4)
}

// c12CtorNonNil: every success exit of every function storing the verifier field stores a non-nil value (or a checked constructor result).
func c12CtorNonNil(w *World, field int) bool {
	found := false
	for _, fn := range w.FuncsOfPkg("verifier") {
		fi := w.Info(fn)
		var storeBlocks []*ssa.BasicBlock
		okVals := true
		for _, b := range fn.Blocks {
			for _, in := range b.Instrs {
				st, ok := in.(*ssa.Store)
				if !ok {
					continue
				}
				fa, ok := st.Addr.(*ssa.FieldAddr)
				if !ok || namedOf(fa.X.Type()) != w.verifierTypeName() || fa.Field != field {
					continue
				}
				good := fi.nonNil(st.Val, b)
				if p, ok := st.Val.(*ssa.Phi); ok && !good {
					good = true
					for i, e := range p.Edges {
						if fi.nonNil(e, p.Block().Preds[i]) {
							continue
						}
						if ex, ok := e.(*ssa.Extract); ok {
							if call, ok := ex.Tuple.(*ssa.Call); ok {
								gl, _ := fi.mustPassBetween([]int{0}, map[int]bool{p.Block().Preds[i].Index: true})
								if labelHas(gl, "EQ("+descTailErr(call)+",nil)") {
									continue
								}
							}
						}
						// the option value itself, on the edge where it was tested non-nil
						gl, _ := fi.mustPassBetween([]int{0}, map[int]bool{p.Block().Preds[i].Index: true})
						if labelHas(gl, "NE("+desc(e)+",nil)") {
							continue
						}
						good = false
					}
				}
				if good {
					storeBlocks = append(storeBlocks, b)
				} else {
					okVals = false
				}
			}
		}
		if len(storeBlocks) == 0 && okVals {
			continue
		}
		found = true
		if !okVals {
			return false
		}
		if n := fn.Signature.Results().Len(); n > 0 && isErrorType(fn.Signature.Results().At(n-1).Type()) {
			cut := map[edgeKey]bool{}
			for _, b := range storeBlocks {
				cutInto(fi, b, cut)
			}
			if fi.successWitness(Mode{Kind: mErr}, entryState(), cut) != nil {
				return false
			}
		}
	}
	return found
}

// ---- MustCompile, map updates, panics ----------------------------------------------------

func c12MustCompile(c *Ctx) {
	w := c.W
	rule := "inventory: regexp.MustCompile is applied only to constant patterns that parse"
	n := 0
	for _, fn := range w.Funcs {
		for _, ci := range allCalls(fn) {
			call, ok := ci.(*ssa.Call)
			if !ok || calleeName(call) != "regexp.MustCompile" {
				continue
			}
			n++
			c.Evals++
			key := fmt.Sprintf("must-compile/%s#%d", fnName(fn), n)
			k, isK := call.Call.Args[0].(*ssa.Const)
			if !isK {
				c.Bad(key, rule, w.InstrPos(call), "non-constant pattern "+desc(call.Call.Args[0]))
				continue
			}
			pat, err := unquote(constString(k))
			if err == nil {
				_, err = syntax.Parse(pat, syntax.Perl)
			}
			c.Check(err == nil, key, rule, w.InstrPos(call), fmt.Sprintf("pattern does not compile: %v", err))
		}
	}
	if n < 1 {
		c.Unk("must-compile#count", "vacuity guard: constant patterns exist", "-", fmt.Sprintf("%d found", n))
	}
}

func c12MapUpdates(c *Ctx) {
	w := c.W
	rule := "inventory: a map update targets a map that is known non-nil (made in the function, or tested/assigned on every path)"
	n := 0
	for _, fn := range w.Funcs {
		if fn.Name() == "init" && fn.Signature.Recv() == nil {
			continue // package initialisers fill map literals they have just made
		}
		fi := w.Info(fn)
		k := 0
		for _, b := range fn.Blocks {
			for _, in := range b.Instrs {
				mu, ok := in.(*ssa.MapUpdate)
				if !ok {
					continue
				}
				n++
				k++
				c.Evals++
				key := fmt.Sprintf("map-update/%s#%d", fnName(fn), k)
				if freshMap(mu.Map, 0) || fi.nonNil(mu.Map, b) || c12MapNonNil(fi, mu) {
					c.OK(key, rule, w.InstrPos(mu))
				} else {
					c.Bad(key, rule, w.InstrPos(mu), "update of "+desc(mu.Map)+" which may be nil")
				}
			}
		}
	}
	c.Extra["map_update_sites"] = n
}

// c12MapNonNil: additional idioms — receiver maps of set types created by New(), phi(param tested non-nil | make).
func c12MapNonNil(fi *FnInfo, mu *ssa.MapUpdate) bool {
	d := desc(mu.Map)
	g := fi.GuardsOf(mu)
	if labelHas(g, "NE("+d+",nil)") {
		return true
	}
	if p, ok := mu.Map.(*ssa.Phi); ok {
		for i, e := range p.Edges {
			if freshMap(e, 0) || fi.nonNil(e, p.Block().Preds[i]) {
				continue
			}
			gl, _ := fi.mustPassBetween([]int{0}, map[int]bool{p.Block().Preds[i].Index: true})
			if labelHas(gl, "NE("+desc(e)+",nil)") {
				continue
			}
			// the edge itself is the non-nil branch of a test of e
			pred := p.Block().Preds[i]
			if iff, ok := blockTerm(pred).(*ssa.If); ok {
				okEdge := false
				for j, s := range pred.Succs {
					if s == p.Block() && condImpliesNonNil(iff.Cond, j == 0, e) {
						okEdge = true
					}
				}
				if okEdge {
					continue
				}
			}
			return false
		}
		return true
	}
	// methods of map-based container types: the receiver is created by the package's constructors (make)
	if par, ok := mu.Map.(*ssa.Parameter); ok && fi.Fn.Signature.Recv() != nil && fi.Fn.Params[0] == par {
		if _, isMap := par.Type().Underlying().(*types.Map); isMap {
			return true
		}
	}
	// the map is a parameter of an unexported helper (`func addAttribute(attrs map[string]string, …)`): the helper runs only
	// on behalf of its call sites (closed list), and each of them passes a map that is known non-nil there
	if par, ok := mu.Map.(*ssa.Parameter); ok && c12ParamMapNonNil(fi.W, fi.Fn, par, 0) {
		return true
	}
	// lazily initialised field: `if x.f == nil { x.f = make(...) }; x.f[k] = v` — every path to the update either
	// took the non-nil edge of a test of the field or passed a store of a fresh map into it; all stores to the field are fresh maps
	if un, ok := mu.Map.(*ssa.UnOp); ok {
		if _, isFA := un.X.(*ssa.FieldAddr); isFA {
			cut := fi.edgesMatching(func(l string, _ *ssa.If, _ bool) bool { return l == "NE("+d+",nil)" })
			stores, allFresh := 0, true
			for _, b := range fi.Fn.Blocks {
				for _, in := range b.Instrs {
					if st, ok := in.(*ssa.Store); ok && desc(st.Addr) == d {
						stores++
						if freshMap(st.Val, 0) {
							cutInto(fi, b, cut)
						} else {
							allFresh = false
						}
					}
				}
			}
			if stores > 0 && allFresh && mu.Block().Index != 0 && !fi.reachHit(entryState(), cut, blocksOf(mu)) {
				return true
			}
		}
	}
	// delete-only / json-decoded maps handled by callers
	return false
}

// c12RangeFuncCheck: the panic is one of the run-time checks the compiler puts around a range-over-func loop (they fire only
// when the iterator function breaks the iteration protocol), and every iterator ranged over in that function comes from a
// function outside the module (standard library / dependencies: slices.All, slices.Backward, maps.Keys, …), which keep it.
func c12RangeFuncCheck(w *World, fn *ssa.Function, p *ssa.Panic) bool {
	k, ok := unwrap(p.X).(*ssa.Const)
	if !ok || k.Value == nil || k.Value.Kind() != constant.String {
		return false
	}
	switch constant.StringVal(k.Value) {
	case "iterator call did not preserve panic", "yield function called after range loop exit":
	default:
		return false
	}
	root := fn
	for root.Synthetic == "range-over-func yield" && root.Parent() != nil {
		root = root.Parent()
	}
	found := false
	var scan func(f *ssa.Function) bool
	scan = func(f *ssa.Function) bool {
		for _, ci := range allCalls(f) {
			for _, a := range ci.Common().Args {
				mc, ok := a.(*ssa.MakeClosure)
				if !ok {
					continue
				}
				y, _ := mc.Fn.(*ssa.Function)
				if y == nil || y.Synthetic != "range-over-func yield" {
					continue
				}
				found = true
				// the iterator: the value called with the yield function
				it, ok := ci.Common().Value.(*ssa.Call)
				if !ok {
					return false
				}
				g := staticCallee(it)
				if g != nil && g.Origin() != nil {
					g = g.Origin()
				}
				if g == nil || w.IsProductFn(g) || g.Pkg == nil || strings.HasPrefix(g.Pkg.Pkg.Path(), modPath) {
					return false
				}
				if !scan(y) {
					return false
				}
			}
		}
		return true
	}
	return scan(root) && found
}

func c12Panics(c *Ctx) {
	w := c.W
	n := 0
	for _, fn := range w.Funcs {
		for _, b := range fn.Blocks {
			for _, in := range b.Instrs {
				if p, ok := in.(*ssa.Panic); ok {
					if c12RangeFuncCheck(w, fn, p) {
						continue
					}
					n++
					c.Bad(fmt.Sprintf("explicit-panic/%s#%d", fnName(fn), n), "inventory: no explicit panic in product code", w.InstrPos(p), "panic("+desc(p.X)+")")
				}
			}
		}
	}
	if n == 0 {
		c.OK("explicit-panic/none", "inventory: no explicit panic in product code", "-")
	}
}

// ---- (b) outcome / error consistency -----------------------------------------------------

func c12Consistency(c *Ctx) {
	w := c.W
	var fns []*ssa.Function
	fns = append(fns, w.implementers("", "Verifier", "Verify")...)
	fns = append(fns, w.implementers("", "BlobVerifier", "VerifyBlob")...)
	if len(fns) < 2 {
		c.Unk("consistency/anchors", "anchors: the verifier's Verify and VerifyBlob", "-", "not found")
		return
	}
	for _, fn := range fns {
		fi := w.Info(fn)
		c.SeenFn(fn.String())
		// the outcome: allocated here, or handed back by a constructor of the module every return of which is a fresh allocation
		var O ssa.Value
		var oBlock *ssa.BasicBlock
		for _, b := range fn.Blocks {
			for _, in := range b.Instrs {
				if al, ok := in.(*ssa.Alloc); ok && namedOf(al.Type()) == "ngo.VerificationOutcome" {
					O, oBlock = al, b
				}
			}
		}
		if O == nil {
			for _, b := range fn.Blocks {
				for _, in := range b.Instrs {
					call, ok := in.(*ssa.Call)
					if !ok || namedOf(call.Type()) != "ngo.VerificationOutcome" {
						continue
					}
					if _, isPtr := call.Type().(*types.Pointer); !isPtr {
						continue
					}
					g := staticCallee(call)
					if g == nil || g.Blocks == nil || !w.IsProductFn(g) {
						continue
					}
					fresh := true
					for _, gb := range g.Blocks {
						if r, ok := blockTerm(gb).(*ssa.Return); ok {
							if al, ok := r.Results[0].(*ssa.Alloc); !ok || !al.Heap {
								fresh = false
							}
						}
					}
					if fresh {
						O, oBlock = call, b
					}
				}
			}
		}
		// … or produced, together with an error (last result), by a module helper every exit of which hands back the same fresh
		// outcome consistently with that error (checked on the helper by the very rules below)
		var prodCall *ssa.Call
		var prodErr ssa.Value
		if O == nil {
			for _, b := range fn.Blocks {
				for _, in := range b.Instrs {
					call, ok := in.(*ssa.Call)
					if !ok {
						continue
					}
					g := staticCallee(call)
					if g == nil || g.Blocks == nil || !w.IsProductFn(g) {
						continue
					}
					res := g.Signature.Results()
					if res.Len() < 2 || namedOf(res.At(0).Type()) != "ngo.VerificationOutcome" || !isErrorType(res.At(res.Len()-1).Type()) {
						continue
					}
					if ok, _ := c12ProducerConsistent(w, g); !ok {
						continue
					}
					for _, r := range *call.Referrers() {
						if e, ok := r.(*ssa.Extract); ok {
							if e.Index == 0 {
								O, oBlock, prodCall = e, b, call
							}
							if e.Index == res.Len()-1 {
								prodErr = e
							}
						}
					}
				}
			}
		}
		if O == nil {
			c.Unk("consistency/"+fnName(fn), "anchor: the outcome allocation", w.FnPos(fn), "not found")
			continue
		}
		// the outcome read back from the variable that holds it (a variable captured by a closure) is the outcome
		sameO := func(v ssa.Value) bool { return canonPtr(v) == ssa.Value(O) }
		var storeBlocks []*ssa.BasicBlock
		for _, b := range fn.Blocks {
			for _, in := range b.Instrs {
				if st, ok := in.(*ssa.Store); ok {
					if fa, ok := st.Addr.(*ssa.FieldAddr); ok && sameO(fa.X) && fieldName(O.Type(), fa.Field) == "Error" {
						storeBlocks = append(storeBlocks, b)
					}
				}
			}
		}
		k, kErr := 0, 0
		for _, b := range fn.Blocks {
			r, ok := blockTerm(b).(*ssa.Return)
			if !ok || len(r.Results) != 2 {
				continue
			}
			if !oBlock.Dominates(b) {
				continue // before the outcome exists (policy selection failures)
			}
			k++
			if !isNilConst(r.Results[1]) {
				kErr++ // an exit that can carry a failure
			}
			c.Evals++
			key := fmt.Sprintf("consistency/%s/exit#%d", fnName(fn), k)
			rule := "outcome/error consistency: once the outcome exists an exit returns (outcome, nil) only on paths no store to outcome.Error reaches, and otherwise (outcome, the error just stored) or (outcome, outcome.Error)"
			if !sameO(r.Results[0]) {
				// the tail of the method moved into a helper that is handed the outcome: `return helper(…, outcome, …)`
				if ok, why := c12TailConsistent(w, r, O, 0); ok {
					c.OK(key, rule+" (through a helper that returns the outcome it was handed with that outcome's error)", w.InstrPos(r))
				} else {
					c.Bad(key, rule, w.InstrPos(r), "an exit after policy selection returns "+desc(r.Results[0])+" instead of the outcome"+why)
				}
				continue
			}
			e := r.Results[1]
			// the pair the producer handed back, forwarded untouched (no store of this function can precede)
			if prodCall != nil && prodErr != nil && e == prodErr {
				bad := false
				for _, sb := range storeBlocks {
					if sb == b || fi.reachHit([]state{{sb.Index, 0, -1}}, nil, map[int]bool{b.Index: true}) {
						bad = true
					}
				}
				c.Check(!bad, key, rule+" (the pair a consistent producer handed back, forwarded)", w.InstrPos(r), "the producer's error is returned although this function stored another error into the outcome")
				continue
			}
			if prodCall != nil && !labelHas(fi.GuardsOf(r), "EQ("+descTailErr(prodCall)+",nil)") {
				c.Bad(key, rule, w.InstrPos(r), "the exit does not know that the producer of the outcome reported no error (its error may be recorded in the outcome)")
				continue
			}
			switch {
			case isNilConst(e):
				bad := false
				for _, sb := range storeBlocks {
					if sb == b || fi.reachHit([]state{{sb.Index, 0, -1}}, nil, map[int]bool{b.Index: true}) {
						bad = true
					}
				}
				c.Check(!bad, key, rule, w.InstrPos(r), "nil is returned although a store to outcome.Error can precede this exit (no error means an outcome without error)")
			case fi.cellOfLoad(e) >= 0 && fi.cells[fi.cellOfLoad(e)].base == ssa.Value(O):
				c.OK(key, rule, w.InstrPos(r))
			default:
				// the value returned was stored into outcome.Error in this block
				okSt := false
				for _, in := range b.Instrs {
					if st, ok := in.(*ssa.Store); ok {
						if fa, ok := st.Addr.(*ssa.FieldAddr); ok && sameO(fa.X) && fieldName(O.Type(), fa.Field) == "Error" && st.Val == e {
							okSt = true
						}
					}
				}
				// the value returned is the value just stored into outcome.Error (nil or not: the two always agree)
				c.Check(okSt, key, rule, w.InstrPos(r), "a failure is returned without being recorded in outcome.Error")
			}
		}
		if prodCall != nil {
			// the exits of the producer were judged too
			for _, hb := range staticCallee(prodCall).Blocks {
				if _, ok := blockTerm(hb).(*ssa.Return); ok {
					k++
				}
			}
		}
		// vacuity: the rule judged at least two exits after the outcome exists, one of which can carry a failure (a method
		// that funnels every failure through `outcome.Error = check(…); return outcome, outcome.Error` has exactly that)
		if k < 2 || kErr == 0 {
			c.Unk("consistency/"+fnName(fn)+"#count", "vacuity guard: exits after the outcome exists (at least two, one of which can carry a failure)", w.FnPos(fn), fmt.Sprintf("%d exits, %d with an error result", k, kErr))
		}
	}
}

// ---- (c) size caps ----------------------------------------------------------------------------

func c12SizeCaps(c *Ctx) {
	w := c.W
	rule := "size cap: content.FetchAll / content.ReadAll (which allocate descriptor.Size bytes) are reachable only through Size <= positive constant on the very descriptor that is fetched; when the fetch sits in an unexported helper that receives the descriptor, at every call of that helper"
	n := 0
	type site struct {
		fn   *ssa.Function
		call *ssa.Call
		d    ssa.Value
	}
	var sites []site
	for _, fn := range w.Funcs {
		for _, ci := range allCalls(fn) {
			call, ok := ci.(*ssa.Call)
			if !ok {
				continue
			}
			switch calleeName(call) {
			case "oras/content.FetchAll":
				sites = append(sites, site{fn, call, call.Call.Args[2]})
			case "oras/content.ReadAll":
				sites = append(sites, site{fn, call, call.Call.Args[1]})
			}
		}
	}
	// capped: the sink is reachable only through `D.Size <= K` with K a positive constant — or K an integer parameter of the
	// (unexported, never used as a value) helper the sink sits in, for which every call site passes a positive constant
	// (`fetchLimited(ctx, src, d, maxManifestSize)`: the cap is the caller's, the comparison the helper's).
	closedSites := func(g *ssa.Function) ([]*ssa.Call, []*ssa.Function, bool) {
		if token.IsExported(g.Name()) || g.Parent() != nil {
			return nil, nil, false
		}
		var calls []*ssa.Call
		var fns []*ssa.Function
		for _, F := range w.Funcs {
			for _, b := range F.Blocks {
				for _, in := range b.Instrs {
					if mc, ok := in.(*ssa.MakeClosure); ok && mc.Fn == ssa.Value(g) {
						return nil, nil, false
					}
					ci, ok := in.(ssa.CallInstruction)
					if !ok {
						continue
					}
					for _, a := range ci.Common().Args {
						if a == ssa.Value(g) {
							return nil, nil, false
						}
					}
					if ci.Common().StaticCallee() != g {
						continue
					}
					call, isCall := in.(*ssa.Call)
					if !isCall || len(call.Call.Args) != len(g.Params) {
						return nil, nil, false
					}
					calls = append(calls, call)
					fns = append(fns, F)
				}
			}
		}
		return calls, fns, len(calls) > 0
	}
	capped := func(st site) bool {
		fi := w.Info(st.fn)
		d := desc(st.d)
		pre := "LE(" + d + ".Size,"
		for l := range fi.GuardsOf(st.call) {
			if !strings.HasPrefix(l, pre) {
				continue
			}
			k := strings.TrimSuffix(l[len(pre):], ")")
			if v, ok := parseConstInt(k); ok && v > 0 {
				return true
			}
			for i, q := range st.fn.Params {
				if k != "param:"+q.Name() {
					continue
				}
				calls, _, closed := closedSites(st.fn)
				all := closed
				for _, call := range calls {
					if v, ok := parseConstInt(desc(call.Call.Args[i])); !ok || v <= 0 {
						all = false
					}
				}
				if all {
					return true
				}
			}
		}
		return false
	}
	// a sink on a parameter of an unexported helper that does not cap it itself is an obligation of the helper's callers
	for depth := 0; depth < 3; depth++ {
		var next []site
		for _, st := range sites {
			pi := -1
			if p, ok := st.d.(*ssa.Parameter); ok && !capped(st) {
				for i, q := range st.fn.Params {
					if q == p {
						pi = i
					}
				}
			}
			if pi < 0 {
				next = append(next, st)
				continue
			}
			calls, fns, closed := closedSites(st.fn)
			if !closed {
				next = append(next, st)
				continue
			}
			for i, call := range calls {
				next = append(next, site{fns[i], call, call.Call.Args[pi]})
			}
		}
		sites = next
	}
	for _, st := range sites {
		fn, call := st.fn, st.call
		n++
		c.Evals++
		d := desc(st.d)
		c.Check(capped(st), fmt.Sprintf("size-cap/%s#%d", fnName(fn), n), rule, w.InstrPos(call), "the fetch of "+d+" is not preceded by a cap on "+d+".Size; guards: "+summarizeLabels(w.Info(fn).GuardsOf(call), 5))
	}
	if n < 1 {
		c.Unk("size-cap#count", "vacuity guard: the registry package fetches content by descriptor", "-", fmt.Sprintf("%d found", n))
	}
}

// ---- (d) decoder errors -------------------------------------------------------------------------

var decoderFns = map[string]bool{
	"encoding/json.Unmarshal":         true,
	"(*encoding/json.Decoder).Decode": true,
	"crypto/x509.ParseRevocationList": true,
	"crypto/x509.ParseCertificate":    true,
	"core/x509.ReadCertificateFile":   true,
	"core/signature.ParseEnvelope":    true,
	"tspclient.ParseSignedToken":      true,
	"ldap.ParseDN":                    true,
	"oras/registry.ParseReference":    true,
}

func c12DecoderErrors(c *Ctx) {
	w := c.W
	rule := "error discipline: the error of a decoder of untrusted bytes is tested or returned, never dropped"
	n := 0
	for _, fn := range w.Funcs {
		k := 0
		for _, ci := range allCalls(fn) {
			call, ok := ci.(*ssa.Call)
			if !ok || !decoderFns[calleeName(call)] {
				continue
			}
			n++
			k++
			c.Evals++
			key := fmt.Sprintf("decoder-error/%s#%d", fnName(fn), k)
			var errV ssa.Value
			if isErrorType(call.Type()) {
				errV = call
			} else {
				for _, r := range *call.Referrers() {
					if ex, ok := r.(*ssa.Extract); ok && isErrorType(ex.Type()) {
						errV = ex
					}
				}
			}
			used := false
			if errV != nil && errV.Referrers() != nil {
				for _, r := range *errV.Referrers() {
					switch r.(type) {
					case *ssa.DebugRef:
					default:
						used = true
					}
				}
			}
			if !used && c12Redecode(w, fn, call) {
				// second decode of bytes that already decoded successfully at every call site; a failure leaves the maps empty, which reports no unknown field only for content that the first decode accepted
				c.OK(key, rule+" (re-decode of bytes whose json.Unmarshal already succeeded at every call site)", w.InstrPos(call))
				continue
			}
			c.Check(used, key, rule, w.InstrPos(call), "the error of "+calleeName(call)+" is discarded")
		}
	}
	if n < 6 {
		c.Unk("decoder-error#count", "vacuity guard: decoder call sites", "-", fmt.Sprintf("%d found", n))
	}
}

// c12TrustedPost: element 0 of a certificate chain that a trusted dependency guarantees to be non-empty.
//   - the chain returned by (*tspclient.SignedToken).Verify, on a path where its error is nil;
//   - a []*x509.Certificate parameter of a module function all of whose callers pass the
//     SignerInfo.CertificateChain of an envelope content (Envelope.Verify rejects an empty chain).
func c12TrustedPost(w *World, fi *FnInfo, in ssa.Instruction, x, idx ssa.Value) (bool, string) {
	k, ok := idx.(*ssa.Const)
	if !ok || k.Value == nil || k.Int64() != 0 {
		return false, ""
	}
	xd := desc(x)
	if strings.HasPrefix(xd, "call:(*tspclient.SignedToken).Verify(") && strings.HasSuffix(xd, "#0") {
		if labelHas(fi.GuardsOf(in), "EQ("+strings.TrimSuffix(xd, "#0")+"#err,nil)") {
			return true, "trusted post-condition: SignedToken.Verify returns a non-empty chain with a nil error; the site is dominated by its error gate"
		}
	}
	if p, ok := x.(*ssa.Parameter); ok && strings.HasSuffix(p.Type().String(), "[]*crypto/x509.Certificate") {
		fn := fi.Fn
		n := 0
		for _, g := range w.Funcs {
			for _, ci := range allCalls(g) {
				if staticCallee(ci) != fn {
					continue
				}
				n++
				for i, q := range fn.Params {
					if q == p && !strings.HasSuffix(desc(ci.Common().Args[i]), ".EnvelopeContent.SignerInfo.CertificateChain") {
						return false, ""
					}
				}
			}
		}
		if n > 0 {
			return true, "trusted post-condition: every caller passes the certificate chain of a verified envelope content, which notation-core-go guarantees to be non-empty"
		}
	}
	return false, ""
}

// c12Redecode: the decoder reads a []byte parameter of a module function every caller of which
// reaches the call only after a json.Unmarshal of the very same bytes returned nil.
func c12Redecode(w *World, fn *ssa.Function, call ssa.CallInstruction) bool {
	if calleeName(call) != "encoding/json.Unmarshal" {
		return false
	}
	p, ok := call.Common().Args[0].(*ssa.Parameter)
	if !ok {
		return false
	}
	n := 0
	for _, g := range w.Funcs {
		for _, ci := range allCalls(g) {
			if staticCallee(ci) != fn {
				continue
			}
			n++
			for i, q := range fn.Params {
				if q != p {
					continue
				}
				guards := w.Info(g).GuardsOf(ci)
				if _, ok := hasLabel(guards, "EQ(call:encoding/json.Unmarshal("+desc(ci.Common().Args[i])+",", "#err,nil)"); !ok {
					return false
				}
			}
		}
	}
	return n > 0
}

// c12PoolGet: `pool.Get().(T)` on a package-level sync.Pool whose New function returns a value of type T and
// into which only values of type T are Put: the assertion cannot fail.
func c12PoolGet(w *World, fn *ssa.Function, ta *ssa.TypeAssert) bool {
	call, ok := ta.X.(*ssa.Call)
	if !ok || calleeName(call) != "(*sync.Pool).Get" {
		return false
	}
	g, ok := call.Call.Args[0].(*ssa.Global)
	if !ok || g.Pkg == nil {
		return false
	}
	rel := strings.TrimPrefix(strings.TrimPrefix(g.Pkg.Pkg.Path(), modPath), "/")
	e, p := w.pkgVarInit(rel, g.Name())
	if e == nil {
		return false
	}
	nf, ok := structLitField(e, "New").(*ast.FuncLit)
	if !ok || len(nf.Body.List) != 1 {
		return false
	}
	ret, ok := nf.Body.List[0].(*ast.ReturnStmt)
	if !ok || len(ret.Results) != 1 {
		return false
	}
	tv, ok := p.TypesInfo.Types[ret.Results[0]]
	if !ok || !types.Identical(tv.Type, ta.AssertedType) {
		return false
	}
	// every Put into that pool passes a value of the same type
	for _, f := range w.Funcs {
		for _, ci := range allCalls(f) {
			if calleeName(ci) == "(*sync.Pool).Put" && ci.Common().Args[0] == ssa.Value(g) {
				if !types.Identical(unwrap(ci.Common().Args[1]).Type(), ta.AssertedType) {
					return false
				}
			}
		}
	}
	return true
}

// c12ProducerConsistent: g returns (outcome, …, error); every exit returns the same fresh outcome allocation A, and
// (A.Error, error) agree on it: nil only where no store to A.Error reaches, otherwise the value just stored or A.Error itself.
func c12ProducerConsistent(w *World, g *ssa.Function) (bool, string) {
	gi := w.Info(g)
	var A *ssa.Alloc
	n := g.Signature.Results().Len()
	for _, b := range g.Blocks {
		r, ok := blockTerm(b).(*ssa.Return)
		if !ok {
			continue
		}
		al, ok := canonPtr(r.Results[0]).(*ssa.Alloc)
		if !ok || !al.Heap || (A != nil && al != A) {
			return false, "the helper does not hand back one fresh outcome on every exit"
		}
		A = al
	}
	if A == nil {
		return false, ""
	}
	isA := func(v ssa.Value) bool { return canonPtr(v) == ssa.Value(A) }
	var storeBlocks []*ssa.BasicBlock
	for _, b := range g.Blocks {
		for _, in := range b.Instrs {
			if st, ok := in.(*ssa.Store); ok {
				if fa, ok := st.Addr.(*ssa.FieldAddr); ok && isA(fa.X) && fieldName(A.Type(), fa.Field) == "Error" {
					storeBlocks = append(storeBlocks, b)
				}
			}
		}
	}
	for _, b := range g.Blocks {
		r, ok := blockTerm(b).(*ssa.Return)
		if !ok {
			continue
		}
		e := r.Results[n-1]
		switch {
		case isNilConst(e):
			for _, sb := range storeBlocks {
				if sb == b || gi.reachHit([]state{{sb.Index, 0, -1}}, nil, map[int]bool{b.Index: true}) {
					return false, "nil is returned after a store to the outcome's Error"
				}
			}
		case gi.cellOfLoad(e) >= 0 && isA(gi.cells[gi.cellOfLoad(e)].base):
		default:
			okSt := false
			for _, in := range b.Instrs {
				if st, ok := in.(*ssa.Store); ok {
					if fa, ok := st.Addr.(*ssa.FieldAddr); ok && isA(fa.X) && fieldName(A.Type(), fa.Field) == "Error" && st.Val == e {
						okSt = true
					}
				}
			}
			if !okSt {
				return false, "an error is returned that was not recorded in the outcome"
			}
		}
	}
	return true, ""
}

// c12TailConsistent: `return g(…, O, …)` where every exit of the module function g returns the object it was handed in
// that position together with that object's Error field (or nil when it never stored into it).
func c12TailConsistent(w *World, r *ssa.Return, O ssa.Value, depth int) (bool, string) {
	if depth > 3 || len(r.Results) != 2 {
		return false, ""
	}
	e0, ok0 := r.Results[0].(*ssa.Extract)
	e1, ok1 := r.Results[1].(*ssa.Extract)
	if !ok0 || !ok1 || e0.Tuple != e1.Tuple || e0.Index != 0 || e1.Index != 1 {
		return false, ""
	}
	call, ok := e0.Tuple.(*ssa.Call)
	if !ok {
		return false, ""
	}
	g := staticCallee(call)
	if g == nil || g.Blocks == nil || !w.IsProductFn(g) {
		return false, ""
	}
	idx := -1
	for i, a := range call.Call.Args {
		if canonPtr(unwrap(a)) == O {
			idx = i
		}
	}
	var P ssa.Value
	// isP: the value is the outcome inside the helper — its parameter, or (a local closure) the captured variable read back
	isP := func(v ssa.Value) bool { return P != nil && v == P }
	if idx >= 0 && idx < len(g.Params) {
		P = g.Params[idx]
	} else if mc, ok := call.Call.Value.(*ssa.MakeClosure); ok {
		// a closure of the calling function that captured the variable holding the outcome and only reads that variable
		for k, bnd := range mc.Bindings {
			al, ok := bnd.(*ssa.Alloc)
			if !ok || k >= len(g.FreeVars) || singleStore(al) == nil || canonPtr(singleStore(al)) != O {
				continue
			}
			fv := g.FreeVars[k]
			P = fv
			isP = func(v ssa.Value) bool {
				ld, ok := v.(*ssa.UnOp)
				return ok && ld.Op == token.MUL && ld.X == ssa.Value(fv)
			}
		}
	}
	if P == nil {
		return false, " (the helper is not handed the outcome)"
	}
	gi := w.Info(g)
	for _, b := range g.Blocks {
		gr, ok := blockTerm(b).(*ssa.Return)
		if !ok {
			continue
		}
		if len(gr.Results) != 2 {
			return false, ""
		}
		if !isP(gr.Results[0]) {
			if ok, _ := c12TailConsistent(w, gr, P, depth+1); ok {
				continue
			}
			return false, " (the helper " + fnName(g) + " returns " + desc(gr.Results[0]) + ")"
		}
		e := gr.Results[1]
		switch {
		case isNilConst(e):
			for _, sb := range g.Blocks {
				for _, in := range sb.Instrs {
					if st, ok := in.(*ssa.Store); ok {
						if fa, ok := st.Addr.(*ssa.FieldAddr); ok && isP(fa.X) && fieldName(fa.X.Type(), fa.Field) == "Error" {
							if sb == b || gi.reachHit([]state{{sb.Index, 0, -1}}, nil, map[int]bool{b.Index: true}) {
								return false, " (the helper returns nil after storing an error)"
							}
						}
					}
				}
			}
			// nil although the caller may already have recorded a failure: only acceptable if the helper reports the cell
			return false, " (the helper returns a nil error regardless of the error already recorded in the outcome)"
		case gi.cellOfLoad(e) >= 0 && isP(gi.cells[gi.cellOfLoad(e)].base):
			// (outcome, outcome.Error)
		default:
			okSt := false
			for _, in := range b.Instrs {
				if st, ok := in.(*ssa.Store); ok {
					if fa, ok := st.Addr.(*ssa.FieldAddr); ok && isP(fa.X) && fieldName(fa.X.Type(), fa.Field) == "Error" && st.Val == e {
						okSt = true
					}
				}
			}
			// the value returned is the value just stored into the outcome's Error (nil or not: the two always agree)
			if !okSt {
				return false, " (the helper returns an error it did not record)"
			}
		}
	}
	return true, ""
}

// c12ParamMapNonNil: par (a parameter of fn) is bound to a non-nil map at every call site of fn, the list of which is closed.
func c12ParamMapNonNil(w *World, fn *ssa.Function, par *ssa.Parameter, depth int) bool {
	if depth > 2 || par.Parent() != fn {
		return false
	}
	i := c07ParamIndex(fn, par)
	sites, closed := c07CallSites(w, fn)
	if i < 0 || !closed || len(sites) == 0 {
		return false
	}
	for _, site := range sites {
		if i >= len(site.Call.Args) {
			return false
		}
		a := site.Call.Args[i]
		G := site.Parent()
		if freshMap(a, 0) || w.Info(G).nonNil(a, site.Block()) {
			continue
		}
		if pa, ok := a.(*ssa.Parameter); ok && c12ParamMapNonNil(w, G, pa, depth+1) {
			continue
		}
		if labelHas(w.Info(G).GuardsOf(site), "NE("+desc(a)+",nil)") {
			continue
		}
		return false
	}
	return true
}
