package main

import (
	"fmt"
	"strings"

	"golang.org/x/tools/go/ssa"
)

func init() {
	register(&Rule{
		ID:    "C13",
		Title: "trust stores load only valid certificates from real files of the named store",
		Run:   runC13,
		Explain: "For the GetCertificates method of the type implementing X509TrustStore: (a) gates on every success exit — known store type (validator true only for an element of Types), certified file-name validator on the store name, SysPath error, " +
			"os.Lstat (not Stat) error, directory and not symlink, ReadDir error, non-empty result; per directory entry (every completed iteration) — not a directory and not a symlink judged on the entry itself (DirEntry or Lstat, never a symlink-following Stat), " +
			"read error, at least one certificate, every certificate CA or self-signed (loop over all certificates with the disjunctive gate), and for tsa stores every certificate a self-signed root; " +
			"(b) exact set: the returned slice is appended only from ReadCertificateFile(Join(store path, entry.Name())) with store path = SysPath(X509TrustStoreDir(type, name)) and layout truststore/x509; " +
			"(c) every failing exit returns a nil slice; no failing edge continues the loop.",
		NotCov:  "certificate parsing (notation-core-go ReadCertificateFile, crypto/x509); special files other than directories and symlinks.",
		Trusted: []string{"go/types, go/ssa", "os.Lstat / os.ReadDir / fs.DirEntry semantics", "notation-core-go x509.ReadCertificateFile", "crypto/x509 CheckSignature"},
	})
}

func runC13(c *Ctx) {
	w := c.W
	var G *ssa.Function
	for _, fn := range w.implementers("verifier/truststore", "X509TrustStore", "GetCertificates") {
		if fnPkg(fn).Path() == modPath+"/verifier/truststore" {
			G = fn
		}
	}
	if G == nil {
		c.Unk("anchor", "anchor: the trust store implementation's GetCertificates", "-", "not found")
		return
	}
	c.SeenFn(G.String())
	m := Mode{Kind: mErr}
	gTypeP, gNameP := "param:"+G.Params[2].Name(), "param:"+G.Params[3].Name()
	sG := w.Summarize(G, m)
	c.Evals += sG.States
	// LF: the function that lists the directory (G itself, or a module callee whose success every success exit of G requires)
	LF := G
	typeP, nameP := gTypeP, gNameP
	if len(findCalls(G, "os.ReadDir")) == 0 {
		var lc *ssa.Call
		for _, ci := range allCalls(G) {
			call, ok := ci.(*ssa.Call)
			if !ok {
				continue
			}
			g := staticCallee(call)
			if g != nil && g.Blocks != nil && w.IsProductFn(g) && len(findCalls(g, "os.ReadDir")) > 0 {
				lc = call
			}
		}
		if lc == nil {
			c.Bad("anchor/readdir", "the store directory is listed with os.ReadDir", w.FnPos(G), "os.ReadDir is not called by GetCertificates or a direct helper")
			return
		}
		LF = staticCallee(lc)
		c.SeenFn(LF.String())
		okVia := len(sG.Exits) > 0
		detail := ""
		for _, ex := range sG.Exits {
			via := labelHas(ex.Checked, "EQ("+descTailErr(lc)+",nil)") || ex.Tail == calleeName(lc)
			r0 := ex.Ret.Results[0]
			fromLoader := false
			if e, ok := r0.(*ssa.Extract); ok && e.Tuple == lc && e.Index == 0 {
				fromLoader = true
			}
			if call := callOf(r0); call != nil {
				if bi, ok := call.Call.Value.(*ssa.Builtin); ok && bi.Name() == "append" && isNilConst(call.Call.Args[0]) {
					if e, ok := call.Call.Args[1].(*ssa.Extract); ok && e.Tuple == lc && e.Index == 0 {
						fromLoader = true
					}
				}
			}
			if ex.Tail == calleeName(lc) {
				fromLoader = true
			}
			if !via || !fromLoader {
				okVia = false
				detail = "exit " + w.InstrPos(ex.Ret) + " returns " + desc(r0) + " without loading the store from the file system"
			}
		}
		c.Check(okVia, "exact-set/returned-from-loader", "every success exit of GetCertificates returns what the directory loader just read for this type and name (nothing cached or shared between stores)", w.FnPos(G), detail)
		for i, a := range lc.Call.Args {
			switch desc(a) {
			case gTypeP:
				typeP = "param:" + LF.Params[i].Name()
			case gNameP:
				nameP = "param:" + LF.Params[i].Name()
			}
		}
	}
	fi := w.Info(LF)
	site := w.FnPos(LF)
	s := w.Summarize(LF, m)
	c.Evals += s.States
	hasIn := func(sum *Summary, subs ...string) bool {
		if len(sum.Exits) == 0 {
			return false
		}
		for _, ex := range sum.Exits {
			if _, ok := hasLabel(ex.Checked, subs...); !ok {
				return false
			}
		}
		return true
	}
	has := func(subs ...string) bool { return hasIn(s, subs...) }
	// store type
	okType := hasIn(sG, "T(call:slices.Contains(global:ngo/verifier/truststore.Types,"+gTypeP+"))") || has("T(call:slices.Contains(global:ngo/verifier/truststore.Types,"+typeP+"))")
	c.slot(okType, 1, "gate/known-type", "the store type is an element of truststore.Types", site, "an unknown store type is loaded")
	// store name: certified validator
	var nameFn *ssa.Function
	for _, ci := range allCalls(G) {
		if call, ok := ci.(*ssa.Call); ok && hasIn(sG, "T("+desc(call)+")") && len(call.Call.Args) == 1 && desc(call.Call.Args[0]) == gNameP {
			nameFn = staticCallee(call)
		}
	}
	for _, ci := range allCalls(LF) {
		if call, ok := ci.(*ssa.Call); ok && has("T("+desc(call)+")") && len(call.Call.Args) == 1 && desc(call.Call.Args[0]) == nameP {
			nameFn = staticCallee(call)
		}
	}
	okName := false
	why := "the store name is not validated"
	if nameFn != nil {
		okName, why = certifyFileNameValidator(w, nameFn)
	}
	c.slot(okName, 1, "gate/safe-name", "the store name passes a certified single-component file-name validator (no separator, NUL, empty, '.' or '..')", site, why)
	// path
	var sys *ssa.Call
	G = LF // from here on the directory loader is analysed
	for _, ci := range allCalls(G) {
		if call, ok := ci.(*ssa.Call); ok && calleeName(call) == "invoke:ngo/dir.SysFS.SysPath" {
			sys = call
		}
	}
	if sys == nil {
		c.Bad("path/syspath", "the store path is obtained from the trust store file system", site, "SysPath is not called")
		return
	}
	pathD := desc(sys) + "#0"
	wantArg := "{call:ngo/dir.X509TrustStoreDir({" + typeP + "," + nameP + "})}"
	c.Check(desc(sys.Call.Args[0]) == wantArg, "path/layout-arguments", "the store path is SysPath(X509TrustStoreDir(string(type), name))", w.InstrPos(sys), "SysPath receives "+desc(sys.Call.Args[0]))
	if lay := w.Func("dir", "X509TrustStoreDir"); lay != nil {
		c.SeenFn(lay.String())
		okLay := false
		tsd, _ := w.constString("dir", "TrustStoreDir")
		for _, ci := range allCalls(lay) {
			if call, ok := ci.(*ssa.Call); ok && (calleeName(call) == "path.Join" || calleeName(call) == "path/filepath.Join") {
				d := desc(call.Call.Args[0])
				if strings.HasPrefix(d, "call:builtin:append({const:"+fmt.Sprintf("%q", tsd)+`,const:"x509"},param:`) {
					okLay = true
				}
			}
		}
		c.Check(okLay, "path/layout", "layout: truststore/x509/<type>/<name> (constant prefix followed by the items in order)", w.FnPos(lay), "the layout function joins something else")
	}
	c.slot(has("EQ("+desc(sys)+"#err,nil)"), 1, "gate/syspath-error", "SysPath err == nil", site, "")
	c.slot(has("EQ(call:os.Lstat("+pathD+")#err,nil)"), 1, "gate/lstat", "os.Lstat(store path) err == nil (Lstat: a symlinked store directory is seen as a symlink)", site, "the store directory is not examined with Lstat")
	{
		// the mode of the Lstat result: directory bit set, symlink bit clear (predicate or bit-mask form), on every success exit
		isDir, notSym := len(s.Exits) > 0, len(s.Exits) > 0
		for _, ex := range s.Exits {
			d, sy, _ := modeBits(ex.Checked, "call:invoke:os.FileInfo.Mode(call:os.Lstat(")
			if d != 1 {
				isDir = false
			}
			// a value known to be a directory by the mode-type bits cannot be a symlink only if the symlink bit is tested
			if sy != -1 {
				notSym = false
			}
		}
		c.slot(isDir, 1, "gate/is-directory", "the store path is a directory", site, "")
		c.slot(notSym, 1, "gate/not-symlink", "the store path is not a symlink", site, "")
	}
	c.slot(has("EQ(call:os.ReadDir("+pathD+")#err,nil)"), 1, "gate/readdir", "os.ReadDir(store path) err == nil", site, "")
	nonEmpty := false
	for _, ex := range s.Exits {
		for l := range ex.Checked {
			if (strings.HasPrefix(l, "GE(len(") && strings.HasSuffix(l, "),const:1)")) || (strings.HasPrefix(l, "GT(len(") && strings.HasSuffix(l, "),const:0)")) || (strings.HasPrefix(l, "NE(len(") && strings.HasSuffix(l, "),const:0)")) {
				if strings.Contains(l, "ReadCertificateFile") || strings.Contains(l, "append") {
					nonEmpty = true
				}
			}
		}
	}
	c.slot(nonEmpty, 1, "gate/non-empty", "an empty result is an error", site, "an empty store loads successfully")

	// entries loop
	entriesD := "call:os.ReadDir(" + pathD + ")#0"
	loop := findLoop(G, func(d string) bool { return d == entriesD })
	if loop == nil {
		c.Bad("entry/loop", "every directory entry is examined", site, "no loop over the ReadDir result")
		return
	}
	lsite := w.InstrPos(blockTerm(loop.Header))
	{
		cut := map[edgeKey]bool{}
		cutInto(fi, loop.Header, cut)
		wit := fi.successWitness(m, entryState(), cut)
		c.slot(wit == nil, 1, "entry/loop", "every directory entry is examined before success", lsite, "the loop can be bypassed", wit...)
	}
	ent := entriesD + "["
	labels, _ := fi.mustPassBetween([]int{loop.Body.Index}, map[int]bool{loop.Header.Index: true})
	sc := &c13Scope{fn: G, fi: fi, loop: loop, labels: labels}
	typeX, pathX := typeP, pathD
	// the certificates one entry contributes, as the loader sees them
	var entryCall *ssa.Call
	if len(findCalls(G, "core/x509.ReadCertificateFile")) == 0 {
		// the entry is handed to an unexported helper that reads the file; the iteration completes only if it succeeds
		for _, ci := range allCalls(G) {
			call, ok := ci.(*ssa.Call)
			if !ok || !loopBlocks(loop.Header)[call.Block().Index] {
				continue
			}
			g := staticCallee(call)
			if g == nil || g.Blocks == nil || !w.IsProductFn(g) || len(findCalls(g, "core/x509.ReadCertificateFile")) == 0 || len(g.Params) != len(call.Call.Args) {
				continue
			}
			if !labelHas(labels, "EQ("+descTailErr(call)+",nil)") {
				continue
			}
			entryCall = call
			entX := ""
			typeX, pathX = "", ""
			for k, a := range call.Call.Args {
				pd := "param:" + g.Params[k].Name()
				switch d := desc(a); {
				case d == typeP:
					typeX = pd
				case d == pathD:
					pathX = pd
				case strings.HasPrefix(d, ent):
					entX = pd
				}
			}
			sg := w.Summarize(g, m)
			c.Evals += sg.States
			c.SeenFn(g.String())
			sc = &c13Scope{fn: g, fi: w.Info(g), labels: sg.Checked}
			ent = entX
			if entX == "" || pathX == "" {
				c.Bad("entry/helper", "the per-entry helper receives the directory entry and the store path", w.InstrPos(call), "arguments: "+desc(call))
				return
			}
		}
	}
	labels = sc.labels
	lsite = sc.site(w)
	hasIt := func(subs ...string) bool { _, ok := hasLabel(labels, subs...); return ok }
	// regular file judged on the entry itself
	formA := hasIt("F(call:invoke:os.DirEntry.IsDir("+ent) && hasIt("EQ((call:invoke:os.DirEntry.Type("+ent, "& const:134217728),const:0)")
	formB := hasIt("T(call:(io/fs.FileMode).IsRegular(call:invoke:os.DirEntry.Type(" + ent)
	formC := hasIt("T(call:(io/fs.FileMode).IsRegular(call:invoke:os.FileInfo.Mode(call:os.Lstat(")
	// bit-mask form on the entry's own type: directory and symlink bits both clear
	if d, sy, _ := modeBits(labels, "call:invoke:os.DirEntry.Type("+ent); d == -1 && sy == -1 {
		formA = true
	}
	if d, sy, _ := modeBits(labels, "call:invoke:io/fs.DirEntry.Type("+ent); d == -1 && sy == -1 {
		formA = true
	}
	if hasIt("F(call:invoke:io/fs.DirEntry.IsDir("+ent) && hasIt("EQ((call:invoke:io/fs.DirEntry.Type("+ent, "& const:134217728),const:0)") {
		formA = true
	}
	c.slot(formA || formB || formC, 1, "entry/regular-file", "per entry: not a directory and not a symlink, judged on the entry itself (DirEntry type or Lstat; a symlink-following Stat does not count)", lsite,
		"a sub-directory or a symlink to a certificate file is accepted; per-iteration facts: "+summarizeLabels(labels, 8))
	// read
	var read *ssa.Call
	for _, ci := range allCalls(sc.fn) {
		if call, ok := ci.(*ssa.Call); ok && calleeName(call) == "core/x509.ReadCertificateFile" {
			read = call
		}
	}
	if read == nil {
		c.Bad("entry/read", "per entry: the certificates are read with ReadCertificateFile", lsite, "not called")
		return
	}
	rd := desc(read)
	c.slot(hasIt("EQ("+rd+"#err,nil)"), 1, "entry/read-error", "per entry: read error fail-closed", lsite, "")
	okPath := false
	for _, dn := range []string{"os.DirEntry", "io/fs.DirEntry"} {
		if strings.HasPrefix(desc(read.Call.Args[0]), "call:path/filepath.Join({"+pathX+",call:invoke:"+dn+".Name("+ent) {
			okPath = true
		}
	}
	c.Check(okPath, "exact-set/file-path", "the file read is Join(store path, entry.Name()) of this entry", w.InstrPos(read), "ReadCertificateFile receives "+desc(read.Call.Args[0]))
	certs := rd + "#0"
	// at least one certificate per file
	okLen := false
	for l := range labels {
		if l == "GE(len("+certs+"),const:1)" || l == "GT(len("+certs+"),const:0)" || l == "NE(len("+certs+"),const:0)" {
			okLen = true
		}
	}
	c.slot(okLen, 1, "entry/at-least-one-certificate", "per entry: the file holds at least one certificate", lsite, "an empty file is skipped silently")
	// every certificate CA or self-signed
	okCA, caSite := c13CertLoop(c, sc, certs, func(el string) EdgeSel {
		return matchOf(pre("T("+el, ".IsCA)"), pre("EQ(call:(*crypto/x509.Certificate).CheckSignature("+strings.TrimSuffix(el, "["), "#err,nil)"))
	}, 2)
	c.slot(okCA, 1, "entry/ca-or-self-signed", "per entry: every certificate of the file is a CA certificate or self-signed (disjunctive gate inside a loop over all certificates, not bypassable)", caSite, "a leaf certificate that is not self-signed is accepted")
	// tsa: every certificate a self-signed root
	tsaC, _ := w.constString("verifier/truststore", "TypeTSA")
	var rootFn string
	for _, fn := range w.FuncsOfPkg("verifier/truststore") {
		if len(findCalls(fn, "(*crypto/x509.Certificate).CheckSignatureFrom")) > 0 {
			rootFn = fnName(fn)
			c13Root(c, fn)
		}
	}
	okTSA := false
	tsaSite := lsite
	if rootFn != "" && typeX != "" {
		// under type == tsa the entry completes only through a loop over all certificates gated by the root check
		notTSA := matchOf(pre("NE(" + typeX + fmt.Sprintf(",const:%q)", tsaC)))
		var inner *loopRef
		for _, l := range allLoops(sc.fn) {
			l := l
			if desc(l.X) == certs && sc.contains(l.Header) {
				il, _ := sc.fi.mustPassBetween([]int{l.Body.Index}, map[int]bool{l.Header.Index: true})
				if _, h := hasLabel(il, "EQ(call:"+rootFn+"("+certs+"[", "#err,nil)"); h {
					inner = &l
				}
			}
		}
		if inner != nil {
			cut := sc.fi.edgesMatching(notTSA)
			cutInto(sc.fi, inner.Header, cut)
			if sc.blocked(cut) {
				okTSA = true
				tsaSite = w.InstrPos(blockTerm(inner.Header))
			}
		}
	}
	if !okTSA && rootFn != "" && typeX != "" {
		// alternative shape: inside a non-bypassable loop over all certificates each iteration passes (type != tsa) or root(cert) err == nil
		ok2, site2 := c13CertLoop(c, sc, certs, func(el string) EdgeSel {
			return matchOf(pre("NE("+typeX+fmt.Sprintf(",const:%q)", tsaC)), pre("EQ(call:"+rootFn+"("+el, "#err,nil)"))
		}, 2)
		if ok2 {
			okTSA, tsaSite = true, site2
		}
	}
	c.slot(okTSA, 1, "entry/tsa-roots", "per entry of a tsa store: every certificate is a self-signed root", tsaSite, "a non-root certificate is accepted into a tsa store")
	if entryCall != nil {
		// what the helper hands back on success is what it read, and that is what the loader sees as this entry's certificates
		okBack := true
		for _, ex := range w.Summarize(sc.fn, m).Exits {
			if e, ok := ex.Ret.Results[0].(*ssa.Extract); !ok || e.Tuple != ssa.Value(read) || e.Index != 0 {
				okBack = false
			}
		}
		c.Check(okBack, "exact-set/helper-returns-what-it-read", "the per-entry helper returns exactly the certificates it read from the entry's file", w.FnPos(sc.fn), "a success exit returns something else")
		for _, r := range *entryCall.Referrers() {
			if e, ok := r.(*ssa.Extract); ok && e.Index == 0 {
				certs = desc(e)
			}
		}
	}
	// (b) exact set
	okApp, nApp := true, 0
	for _, ci := range allCalls(G) {
		call, ok := ci.(*ssa.Call)
		if !ok {
			continue
		}
		if bi, ok := call.Call.Value.(*ssa.Builtin); ok && bi.Name() == "append" && strings.Contains(call.Type().String(), "x509.Certificate") {
			nApp++
			if desc(call.Call.Args[1]) != certs {
				okApp = false
			}
		}
	}
	c.Check(okApp && nApp > 0, "exact-set/appended-only-from-files", "the result is appended only from the certificates read from this store's files", site, fmt.Sprintf("%d appends, foreign source=%v", nApp, !okApp))
	okRet := len(s.Exits) > 0
	for _, ex := range s.Exits {
		d := desc(ex.Ret.Results[0])
		if !strings.HasPrefix(d, "phi(call:builtin:append(") {
			okRet = false
		}
	}
	c.Check(okRet, "exact-set/returns-accumulated", "success exits return exactly the accumulated slice (nothing cached or taken from elsewhere)", site, "a success exit returns something else")
	// (c) failing exits return nil
	okNil := true
	bad := ""
	for _, b := range G.Blocks {
		r, ok := blockTerm(b).(*ssa.Return)
		if !ok || len(r.Results) != 2 {
			continue
		}
		if cl, _, _, _ := fi.classify(r, state{b.Index, 0, -1}, m); cl == clFail && !isNilConst(r.Results[0]) {
			okNil = false
			bad = w.InstrPos(r)
		}
	}
	c.Check(okNil, "no-partial-set", "every failing exit returns a nil slice", site, "a failing exit returns certificates: "+bad)
	c.MinCount("", 20, "trust store obligations")
}

// c13Scope: where one directory entry is processed — the body of the entries loop, or an unexported helper the loop hands
// the entry to and whose success every completed iteration requires. The per-entry rules are the same in both; only the
// frame in which values are written differs (loop: the loader's; helper: the helper's parameters).
type c13Scope struct {
	fn     *ssa.Function
	fi     *FnInfo
	loop   *loopRef // nil: the whole helper
	labels map[string]string
}

// blocked: with the cut edges removed, the entry cannot be completed successfully.
func (sc *c13Scope) blocked(cut map[edgeKey]bool) bool {
	if sc.loop != nil {
		return !sc.fi.reachHit([]state{{sc.loop.Body.Index, 0, -1}}, cut, map[int]bool{sc.loop.Header.Index: true})
	}
	return sc.fi.successWitness(Mode{Kind: mErr}, entryState(), cut) == nil
}

func (sc *c13Scope) contains(b *ssa.BasicBlock) bool {
	if sc.loop != nil {
		return loopBlocks(sc.loop.Header)[b.Index]
	}
	return true
}

func (sc *c13Scope) site(w *World) string {
	if sc.loop != nil {
		return w.InstrPos(blockTerm(sc.loop.Header))
	}
	return w.FnPos(sc.fn)
}

// c13CertLoop: on every completed entry iteration a loop over all elements of
// certs is traversed whose own iterations complete only through the selected
// gate. The loop may be in G or in a module function called with certs whose
// success gates the iteration.
func c13CertLoop(c *Ctx, sc *c13Scope, certs string, gate func(el string) EdgeSel, minEdges int) (bool, string) {
	w := c.W
	G, fi := sc.fn, sc.fi
	// a per-certificate helper whose success requires the gate on its parameter
	helperOK := func(g *ssa.Function) bool {
		if g == nil || g.Blocks == nil || !w.IsProductFn(g) || len(g.Params) != 1 {
			return false
		}
		ok, n, _ := exitsBlocked(w.Info(g), Mode{Kind: mErr}, gate("param:"+g.Params[0].Name()), nil)
		return ok && n >= minEdges
	}
	check := func(fn *ssa.Function, xd string) (*loopRef, bool) {
		ffi := w.Info(fn)
		for _, l := range allLoops(fn) {
			l := l
			if desc(l.X) != xd {
				continue
			}
			ok, n := iterBlocked(ffi, &l, Mode{Kind: mErr}, gate(xd+"["))
			if ok && n >= minEdges {
				return &l, true
			}
			// or: every completed iteration passes helper(element) err == nil
			il, _ := ffi.mustPassBetween([]int{l.Body.Index}, map[int]bool{l.Header.Index: true})
			for _, ci := range allCalls(fn) {
				call, isCall := ci.(*ssa.Call)
				if !isCall || len(call.Call.Args) != 1 || !strings.HasPrefix(desc(call.Call.Args[0]), xd+"[") {
					continue
				}
				if labelHas(il, "EQ("+descTailErr(call)+",nil)") && helperOK(staticCallee(call)) {
					return &l, true
				}
			}
		}
		return nil, false
	}
	// inline in G
	if l, ok := check(G, certs); ok && sc.contains(l.Header) {
		cut := map[edgeKey]bool{}
		cutInto(fi, l.Header, cut)
		if sc.blocked(cut) {
			return true, w.InstrPos(blockTerm(l.Header))
		}
	}
	// in a callee
	for _, ci := range allCalls(G) {
		call, ok := ci.(*ssa.Call)
		if !ok {
			continue
		}
		g := staticCallee(call)
		if g == nil || !w.IsProductFn(g) || !isErrorType(call.Type()) {
			continue
		}
		for i, a := range call.Call.Args {
			if desc(a) != certs {
				continue
			}
			l, ok := check(g, "param:"+g.Params[i].Name())
			if !ok {
				continue
			}
			// the callee's success requires traversing that loop, and the iteration requires the callee's success
			gfi := w.Info(g)
			cut := map[edgeKey]bool{}
			cutInto(gfi, l.Header, cut)
			if gfi.successWitness(Mode{Kind: mErr}, entryState(), cut) != nil {
				continue
			}
			if labelHas(sc.labels, "EQ("+descTailErr(call)+",nil)") {
				c.SeenFn(g.String())
				return true, w.InstrPos(blockTerm(l.Header))
			}
		}
	}
	return false, sc.site(w)
}

// c13Root: the root check requires a self-signature and equal subject/issuer.
func c13Root(c *Ctx, fn *ssa.Function) {
	w := c.W
	c.SeenFn(fn.String())
	s := w.Summarize(fn, Mode{Kind: mErr})
	p := "param:" + fn.Params[0].Name()
	c.requireOnExits("root-check", fn, s.Exits, []Need{
		{Name: "self-signed", What: "cert.CheckSignatureFrom(cert) err == nil", Subs: []string{"EQ(call:(*crypto/x509.Certificate).CheckSignatureFrom(" + p + "," + p + ")#err,nil)"}},
		{Name: "subject-is-issuer", What: "RawSubject equals RawIssuer", Alt: [][]string{{"T(call:bytes.Equal(" + p + ".RawSubject," + p + ".RawIssuer))"}, {"T(call:bytes.Equal(" + p + ".RawIssuer," + p + ".RawSubject))"}}},
	})
}
