package main

import (
	"fmt"
	"strings"

	"golang.org/x/tools/go/ssa"
)

func init() {
	register(&Rule{
		ID:    "C13",
		Title: "trust stores load only valid certificates from real files of the named store",
		Run:   runC13,
		Explain: "For the GetCertificates method of the type implementing X509TrustStore, decided in that method's frame over the static call tree under it (values of helpers are translated by substituting parameters and captured variables by what the call chain binds them to): " +
			"(a) gates on every success exit — known store type (validator true only for an element of Types), certified file-name validator on the store name, SysPath error, " +
			"os.Lstat (not Stat) error on the path that is listed, directory and not symlink, ReadDir error, non-empty result (the returned slice is tested, or the listing is tested and every completed iteration appends at least one certificate); " +
			"per directory entry (every completed iteration; an abandoned iteration cannot reach success) — not a directory and not a symlink judged on the entry itself (DirEntry or Lstat, never a symlink-following Stat), " +
			"read error, at least one certificate, every certificate CA or self-signed (a loop over all certificates with the disjunctive gate, inline, behind helpers whose success requires it or decided by module predicates that answer so only behind it), and for tsa stores every certificate a self-signed root; " +
			"(b) exact set: the returned slice starts empty and is appended only from ReadCertificateFile(Join(store path, entry.Name())) with store path = SysPath(X509TrustStoreDir(type, name)) = the directory listed, layout truststore/x509; every helper between hands back what it read; " +
			"(c) every failing exit returns a nil slice; no failing edge continues the loop.",
		NotCov:  "certificate parsing (notation-core-go ReadCertificateFile, crypto/x509); special files other than directories and symlinks.",
		Trusted: []string{"go/types, go/ssa", "os.Lstat / os.ReadDir / fs.DirEntry semantics", "notation-core-go x509.ReadCertificateFile", "crypto/x509 CheckSignature"},
	})
}

func runC13(c *Ctx) {
	w := c.W
	var G *ssa.Function
	for _, fn := range w.implementers("verifier/truststore", "X509TrustStore", "GetCertificates") {
		if fnPkg(fn).Path() == modPath+"/verifier/truststore" {
			G = fn
		}
	}
	if G == nil {
		c.Unk("anchor", "anchor: the trust store implementation's GetCertificates", "-", "not found")
		return
	}
	c.SeenFn(G.String())
	m := Mode{Kind: mErr}
	// the two inputs, by their position in the exported interface method
	gTypeP, gNameP := "param:"+G.Params[2].Name(), "param:"+G.Params[3].Name()
	// Everything below is written in the frame of GetCertificates; anchor calls are looked for in the call tree under it and
	// their operands are translated to that frame (extra_c13.go).
	_, all := c13Tree(w, G)

	// the listing of the directory, and the loop over what was listed (AF: the function that holds that loop and accumulates the result)
	rds := c13Sites(all, "os.ReadDir")
	if len(rds) == 0 {
		c.Bad("anchor/readdir", "the store directory is listed with os.ReadDir", w.FnPos(G), "os.ReadDir is not called by GetCertificates or by a helper under it")
		return
	}
	rd := rds[0]
	var afI *c13Inst
	var loop *loopRef
	for _, r := range rds {
		ed := "call:os.ReadDir(" + r.in.toG(desc(r.call.Call.Args[0])) + ")#0"
		for _, in := range all {
			for _, l := range allLoops(in.fn) {
				l := l
				if loop == nil && in.toG(desc(l.X)) == ed {
					rd, afI, loop = r, in, &l
				}
			}
		}
	}
	if afI == nil {
		afI = rd.in // no loop: the gates are still reported for the function that lists
	}
	pathD := rd.in.toG(desc(rd.call.Call.Args[0]))
	entriesD := "call:os.ReadDir(" + pathD + ")#0"
	chain := afI.path()
	var levels []*c13Level
	for _, in := range chain {
		c.SeenFn(in.fn.String())
		levels = append(levels, c13LevelOf(c, in))
	}
	AF := afI.fn
	fi := w.Info(AF)
	site := w.FnPos(AF)
	s := levels[len(levels)-1].sum
	// has: a fact of every success exit of some function of the chain (see c13Level for why any level will do)
	has := func(subs ...string) bool {
		for _, lv := range levels {
			if lv.has(subs...) {
				return true
			}
		}
		return false
	}
	every := func(pred func(m map[string]string) bool) bool {
		for _, lv := range levels {
			if lv.every(pred) {
				return true
			}
		}
		return false
	}
	if len(chain) > 1 {
		// each link of the chain: the caller succeeds only if the callee did, and hands back what the callee returned
		okVia, detail := true, ""
		for i := 0; i+1 < len(chain); i++ {
			lc := chain[i+1].call
			sP := levels[i].sum
			if len(sP.Exits) == 0 {
				okVia, detail = false, "no success exit in "+fnName(chain[i].fn)
			}
			for _, ex := range sP.Exits {
				via := labelHas(ex.Checked, "EQ("+descTailErr(lc)+",nil)") || ex.Tail == calleeName(lc)
				r0 := ex.Ret.Results[0]
				fromLoader := false
				if e, ok := r0.(*ssa.Extract); ok && e.Tuple == lc && e.Index == 0 {
					fromLoader = true
				}
				if call := callOf(r0); call != nil {
					if bi, ok := call.Call.Value.(*ssa.Builtin); ok && bi.Name() == "append" && isNilConst(call.Call.Args[0]) {
						if e, ok := call.Call.Args[1].(*ssa.Extract); ok && e.Tuple == lc && e.Index == 0 {
							fromLoader = true
						}
					}
				}
				if ex.Tail == calleeName(lc) {
					fromLoader = true
				}
				if !via || !fromLoader {
					okVia = false
					detail = "exit " + w.InstrPos(ex.Ret) + " returns " + trunc(desc(r0), 300) + " without loading the store from the file system"
				}
			}
		}
		c.Check(okVia, "exact-set/returned-from-loader", "every success exit of GetCertificates returns what the directory loader just read for this type and name (nothing cached or shared between stores)", w.FnPos(G), detail)
	}
	// store type
	knownType := has("T(call:slices.Contains(global:ngo/verifier/truststore.Types," + gTypeP + "))")
	if !knownType {
		// the membership test written out as a loop in a predicate of the package (`for _, t := range Types { if x == t
		// { return true } }; return false`): its `true` answer was passed, and it answers true only behind an equality
		// of its parameter with an element of truststore.Types
		for _, g := range w.FuncsOfPkg("verifier/truststore") {
			if g.Blocks != nil && len(g.Params) == 1 && c13IsTypesMembership(w, g) && has("T(call:"+fnName(g)+"("+gTypeP+"))") {
				knownType = true
			}
		}
	}
	c.slot(knownType, 1, "gate/known-type", "the store type is an element of truststore.Types", site, "an unknown store type is loaded")
	// store name: a certified validator, called on the name anywhere under GetCertificates, whose `true` answer every success exit passed
	okName, why := false, "the store name is not validated"
	for _, in := range all {
		for _, ci := range allCalls(in.fn) {
			call, ok := ci.(*ssa.Call)
			if !ok || okName || len(call.Call.Args) != 1 || in.toG(desc(call.Call.Args[0])) != gNameP || !has("T("+in.toG(desc(call))+")") {
				continue
			}
			if g := staticCallee(call); g != nil {
				okName, why = certifyFileNameValidator(w, g)
			}
		}
	}
	c.slot(okName, 1, "gate/safe-name", "the store name passes a certified single-component file-name validator (no separator, NUL, empty, '.' or '..')", site, why)
	// path: the directory that is listed is what SysPath returned for the layout of this type and name
	var sys *c13Site
	for _, st := range c13Sites(all, "invoke:ngo/dir.SysFS.SysPath") {
		st := st
		if st.in.toG(desc(st.call))+"#0" == pathD {
			sys = &st
		}
	}
	if sys == nil {
		c.Bad("path/syspath", "the store path is obtained from the trust store file system", site, "the directory listed is "+trunc(pathD, 200)+", which is not the result of SysPath")
		return
	}
	sysD := sys.in.toG(desc(sys.call))
	sysArg := sys.in.toG(desc(sys.call.Call.Args[0]))
	wantArg := "{call:ngo/dir.X509TrustStoreDir({" + gTypeP + "," + gNameP + "})}"
	c.Check(sysArg == wantArg, "path/layout-arguments", "the store path is SysPath(X509TrustStoreDir(string(type), name))", w.InstrPos(sys.call), "SysPath receives "+sysArg)
	if lay := w.Func("dir", "X509TrustStoreDir"); lay != nil {
		c.SeenFn(lay.String())
		okLay := false
		tsd, _ := w.constString("dir", "TrustStoreDir")
		for _, ci := range allCalls(lay) {
			if call, ok := ci.(*ssa.Call); ok && (calleeName(call) == "path.Join" || calleeName(call) == "path/filepath.Join") {
				d := desc(call.Call.Args[0])
				if strings.HasPrefix(d, "call:builtin:append({const:"+fmt.Sprintf("%q", tsd)+`,const:"x509"},param:`) {
					okLay = true
				}
			}
		}
		c.Check(okLay, "path/layout", "layout: truststore/x509/<type>/<name> (constant prefix followed by the items in order)", w.FnPos(lay), "the layout function joins something else")
	}
	c.slot(has("EQ("+sysD+"#err,nil)"), 1, "gate/syspath-error", "SysPath err == nil", site, "")
	c.slot(has("EQ(call:os.Lstat("+pathD+")#err,nil)"), 1, "gate/lstat", "os.Lstat(store path) err == nil (Lstat: a symlinked store directory is seen as a symlink)", site, "the store directory is not examined with Lstat")
	{
		// the mode of the Lstat result of the store path: directory bit set, symlink bit clear (predicate or bit-mask form), on every success exit
		pfx := "call:invoke:os.FileInfo.Mode(call:os.Lstat(" + pathD + ")#0)"
		isDir := every(func(m map[string]string) bool { d, _, _ := modeBits(m, pfx); return d == 1 })
		// a value known to be a directory by the mode-type bits cannot be a symlink only if the symlink bit is tested
		notSym := every(func(m map[string]string) bool { _, sy, _ := modeBits(m, pfx); return sy == -1 })
		c.slot(isDir, 1, "gate/is-directory", "the store path is a directory", site, "")
		c.slot(notSym, 1, "gate/not-symlink", "the store path is not a symlink", site, "")
	}
	c.slot(has("EQ(call:os.ReadDir("+pathD+")#err,nil)"), 1, "gate/readdir", "os.ReadDir(store path) err == nil", site, "")

	// entries loop
	if loop == nil {
		c.Bad("entry/loop", "every directory entry is examined", site, "no loop over the ReadDir result")
		return
	}
	lsite := w.InstrPos(blockTerm(loop.Header))
	{
		cut := map[edgeKey]bool{}
		cutInto(fi, loop.Header, cut)
		wit := fi.successWitness(m, entryState(), cut)
		c.slot(wit == nil, 1, "entry/loop", "every directory entry is examined before success", lsite, "the loop can be bypassed", wit...)
	}
	{
		// The per-entry rules below are facts of every COMPLETED iteration. An iteration that is abandoned (break, goto, a
		// return from inside the loop) escapes them, so it must not be able to reach a success exit: with the back edges removed,
		// no success exit is reachable from the loop body. (`break` on a failed entry followed by `if err != nil { return nil, err }`
		// passes: the engine knows the error local is non-nil on that path.)
		wit := fi.successWitness(m, []state{{loop.Body.Index, 0, -1}}, backEdges(loop.Header))
		c.slot(wit == nil, 1, "entry/no-early-success", "an entry whose iteration is not completed (break / return inside the loop) never leads to success", lsite, "the loop can be left early on a path that still succeeds (partial set)", wit...)
	}
	// the facts of one completed iteration (composed through the helpers the iteration calls), in the root frame
	ent := entriesD + "["
	labels := map[string]string{}
	{
		raw, _ := fi.mustPassBetween([]int{loop.Body.Index}, map[int]bool{loop.Header.Index: true})
		for l, st := range raw {
			labels[afI.toG(l)] = st
		}
	}
	hasIt := func(subs ...string) bool { return c13HasLabel(labels, subs...) }
	// regular file judged on the entry itself
	formA := hasIt("F(call:invoke:os.DirEntry.IsDir("+ent) && hasIt("EQ((call:invoke:os.DirEntry.Type("+ent, "& const:134217728),const:0)")
	formB := hasIt("T(call:(io/fs.FileMode).IsRegular(call:invoke:os.DirEntry.Type(" + ent)
	formC := hasIt("T(call:(io/fs.FileMode).IsRegular(call:invoke:os.FileInfo.Mode(call:os.Lstat(")
	// bit-mask form on the entry's own type: directory and symlink bits both clear
	if d, sy, _ := modeBits(labels, "call:invoke:os.DirEntry.Type("+ent); d == -1 && sy == -1 {
		formA = true
	}
	if d, sy, _ := modeBits(labels, "call:invoke:io/fs.DirEntry.Type("+ent); d == -1 && sy == -1 {
		formA = true
	}
	if hasIt("F(call:invoke:io/fs.DirEntry.IsDir("+ent) && hasIt("EQ((call:invoke:io/fs.DirEntry.Type("+ent, "& const:134217728),const:0)") {
		formA = true
	}
	if hasIt("T(call:(io/fs.FileMode).IsRegular(call:invoke:io/fs.DirEntry.Type(" + ent) {
		formB = true
	}
	c.slot(formA || formB || formC, 1, "entry/regular-file", "per entry: not a directory and not a symlink, judged on the entry itself (DirEntry type or Lstat; a symlink-following Stat does not count)", lsite,
		"a sub-directory or a symlink to a certificate file is accepted; per-iteration facts: "+summarizeLabels(labels, 8))
	// read: the ReadCertificateFile call under AF whose success every completed iteration requires
	var read *c13Site
	for _, st := range c13Sites(all, "core/x509.ReadCertificateFile") {
		st := st
		if !st.in.under(afI) {
			continue
		}
		if read == nil {
			read = &st
		}
		if labelHas(labels, "EQ("+st.in.toG(desc(st.call))+"#err,nil)") {
			read = &st
			break
		}
	}
	if read == nil {
		c.Bad("entry/read", "per entry: the certificates are read with ReadCertificateFile", lsite, "not called")
		return
	}
	rdD := read.in.toG(desc(read.call))
	c.slot(hasIt("EQ("+rdD+"#err,nil)"), 1, "entry/read-error", "per entry: read error fail-closed", lsite, "")
	okPath := false
	readArg := read.in.toG(desc(read.call.Call.Args[0]))
	for _, dn := range []string{"os.DirEntry", "io/fs.DirEntry"} {
		if strings.HasPrefix(readArg, "call:path/filepath.Join({"+pathD+",call:invoke:"+dn+".Name("+ent) {
			okPath = true
		}
	}
	c.Check(okPath, "exact-set/file-path", "the file read is Join(store path, entry.Name()) of this entry", w.InstrPos(read.call), "ReadCertificateFile receives "+trunc(readArg, 400))
	certs := rdD + "#0"
	// at least one certificate per file
	okLen := false
	for l := range labels {
		if l == "GE(len("+certs+"),const:1)" || l == "GT(len("+certs+"),const:0)" || l == "NE(len("+certs+"),const:0)" {
			okLen = true
		}
	}
	c.slot(okLen, 1, "entry/at-least-one-certificate", "per entry: the file holds at least one certificate", lsite, "an empty file is skipped silently")
	// every certificate CA or self-signed. The two alternatives are facts about THE certificate of the iteration (rendered with the loop's
	// own index, c13ElemPrefix); an edge carries one of them by its label or because a module predicate that decides it
	// (`isSelfSigned(cert)`, `acceptable(cert)`, `!rejected(cert)`, `check(cert) err == nil`) gives that answer only behind the
	// fact, with its parameter bound to this certificate (extra_c13.go, fourth pass: c13GateCut)
	{
		u := &c13Univ{c: c, certsG: certs, minEdges: 2, memo: map[*c13Inst]map[edgeKey]bool{}, tails: map[*c13Inst]map[*ssa.Call]bool{}, busy: map[*c13Inst]bool{},
			gate: func(_ *c13Inst, el string) EdgeSel {
				return matchOf(pre("T("+el, ".IsCA)"), pre("EQ(call:(*crypto/x509.Certificate).CheckSignature("+strings.TrimSuffix(el, "["), "#err,nil)"))
			}}
		okCA := u.iteration(afI, loop)
		caSite := lsite
		if u.site != "" {
			caSite = u.site
		}
		caDetail := "a leaf certificate that is not self-signed is accepted"
		if !okCA && u.early != "" {
			caSite, caDetail = u.early, "an iteration of the loop over the certificates can end in a successful return: the certificates after that one are accepted unjudged"
		}
		c.slot(okCA, 1, "entry/ca-or-self-signed", "per entry: every certificate of the file is a CA certificate or self-signed (disjunctive gate inside a loop over all certificates, not bypassable)", caSite, caDetail)
	}
	// tsa: every certificate a self-signed root
	tsaC, _ := w.constString("verifier/truststore", "TypeTSA")
	var rootFn string
	for _, fn := range w.FuncsOfPkg("verifier/truststore") {
		if len(findCalls(fn, "(*crypto/x509.Certificate).CheckSignatureFrom")) > 0 {
			rootFn = fnName(fn)
			c13Root(c, fn)
		}
	}
	{
		okTSA, tsaSite := false, lsite
		if rootFn != "" {
			never := func(string, *ssa.If, bool) bool { return false }
			u := &c13Univ{c: c, certsG: certs, minEdges: 1, memo: map[*c13Inst]map[edgeKey]bool{}, tails: map[*c13Inst]map[*ssa.Call]bool{}, busy: map[*c13Inst]bool{},
				gate: func(_ *c13Inst, el string) EdgeSel {
					return matchOf(pre("EQ(call:"+rootFn+"("+el, "#err,nil)"))
				},
				// the clause binds tsa stores only: an edge on which the store type (the root's type parameter, as this function sees it) differs from the tsa constant
				// (or on which a boolean parameter that the call chain binds to `type == tsa` is false)
				cond: func(in *c13Inst) EdgeSel {
					var ps []func(string) bool
					// (as this function sees it: a parameter, a captured variable, or a field of a parameter object — c13Inst.locals)
					for _, t := range in.locals(gTypeP) {
						ps = append(ps, pre("NE("+t+fmt.Sprintf(",const:%q)", tsaC)))
					}
					for _, b := range in.locals("(" + gTypeP + fmt.Sprintf(" == const:%q)", tsaC)) {
						if in.parent != nil {
							ps = append(ps, pre("F("+b+")"))
						}
					}
					if len(ps) == 0 {
						return never
					}
					return matchOf(ps...)
				}}
			okTSA = u.iteration(afI, loop)
			if u.site != "" {
				tsaSite = u.site
			}
		}
		c.slot(okTSA, 1, "entry/tsa-roots", "per entry of a tsa store: every certificate is a self-signed root", tsaSite, "a non-root certificate is accepted into a tsa store")
	}
	// what a helper between the loop and the read hands back on success is what it read (or what the next helper handed back)
	var entryCall *ssa.Call
	if read.in != afI {
		okBack := true
		var inner ssa.Value = read.call
		for h := read.in; h != afI; h = h.parent {
			c.SeenFn(h.fn.String())
			exits := w.Summarize(h.fn, m).Exits
			if len(exits) == 0 {
				okBack = false
			}
			for _, ex := range exits {
				if len(ex.Ret.Results) == 0 {
					okBack = false
					continue
				}
				if e, ok := ex.Ret.Results[0].(*ssa.Extract); !ok || e.Tuple != inner || e.Index != 0 {
					okBack = false
				}
			}
			inner = h.call
		}
		entryCall, _ = inner.(*ssa.Call)
		c.Check(okBack, "exact-set/helper-returns-what-it-read", "the per-entry helper returns exactly the certificates it read from the entry's file", w.FnPos(read.in.fn), "a success exit returns something else")
	}
	// (b) exact set: the value appended is the certificates of this entry (by rendering in the root frame, or the very result of the checked helper)
	isCerts := func(v ssa.Value) bool {
		if afI.toG(desc(v)) == certs {
			return true
		}
		e, ok := v.(*ssa.Extract)
		return ok && entryCall != nil && e.Tuple == ssa.Value(entryCall) && e.Index == 0
	}
	// an accepted source of an append: the certificates of the entry, in bulk or element by element (extra_c13.go, third pass (2):
	// an element of the slice read from the entry's file comes from that file)
	okSrc := func(v ssa.Value) bool { return isCerts(v) || c13ElemsOfCerts(v, isCerts) }
	okApp, nApp := true, 0
	for _, ci := range allCalls(AF) {
		call, ok := ci.(*ssa.Call)
		if !ok {
			continue
		}
		if bi, ok := call.Call.Value.(*ssa.Builtin); ok && bi.Name() == "append" && strings.Contains(call.Type().String(), "x509.Certificate") {
			nApp++
			if !okSrc(call.Call.Args[1]) {
				okApp = false
			}
		}
	}
	c.Check(okApp && nApp > 0, "exact-set/appended-only-from-files", "the result is appended only from the certificates read from this store's files", site, fmt.Sprintf("%d appends, foreign source=%v", nApp, !okApp))
	// what a success exit returns is the accumulator: started empty, extended by those appends only
	okRet, retWhy := len(s.Exits) > 0, "no success exit"
	grows := len(s.Exits) > 0
	for _, ex := range s.Exits {
		acc := c13Accumulator(ex.Ret.Results[0])
		if acc.bad != "" || len(acc.appends) == 0 {
			okRet, retWhy = false, "a success exit returns something else: "+acc.bad
		}
		for _, a := range acc.appends {
			if !okSrc(a.Call.Args[1]) {
				okRet, retWhy = false, "the returned slice was appended from "+trunc(desc(a.Call.Args[1]), 200)
			}
		}
		if !acc.grows(AF, loop, isCerts) {
			grows = false
		}
	}
	// nothing is left out: every completed iteration hands the certificates of its entry on to the accumulator (in bulk, or one by one
	// in a loop over all of them that cannot be left early — c13Acc.grown)
	c.Check(grows, "exact-set/every-entry-added", "every completed iteration adds all the certificates of its entry to the result", lsite, "an iteration can complete without adding (all of) the certificates it read")
	c.Check(okRet, "exact-set/returns-accumulated", "success exits return exactly the accumulated slice (nothing cached or taken from elsewhere; it starts empty)", site, retWhy)
	// non-empty result. Either the returned slice is tested, or — equivalent, because every completed iteration appends the
	// certificates of its entry (grows), each entry has at least one (entry/at-least-one-certificate) and the loop cannot be
	// bypassed (entry/loop) — the listing itself is tested to be non-empty.
	nonEmpty := every(func(m map[string]string) bool {
		for l := range m {
			if strings.HasPrefix(l, "NE(len(") && strings.HasSuffix(l, "),const:0)") && (strings.Contains(l, "ReadCertificateFile") || strings.Contains(l, "append")) {
				return true
			}
		}
		return false
	})
	if !nonEmpty && okLen && grows && has("NE(len("+entriesD+"),const:0)") {
		nonEmpty = true
	}
	c.slot(nonEmpty, 1, "gate/non-empty", "an empty result is an error", site, "an empty store loads successfully")
	// (c) failing exits return nil — in every function of the chain (a caller may forward both results of the next function of the chain as they are)
	okNil := true
	bad := ""
	for i, in := range chain {
		hfi := w.Info(in.fn)
		var next *ssa.Call
		if i+1 < len(chain) {
			next = chain[i+1].call
		}
		for _, b := range in.fn.Blocks {
			r, ok := blockTerm(b).(*ssa.Return)
			if !ok || len(r.Results) != 2 {
				continue
			}
			if cl, _, _, _ := hfi.classify(r, state{b.Index, 0, -1}, m); cl != clFail || isNilConst(r.Results[0]) {
				continue
			}
			e0, ok0 := r.Results[0].(*ssa.Extract)
			e1, ok1 := r.Results[1].(*ssa.Extract)
			if next != nil && ok0 && ok1 && e0.Tuple == ssa.Value(next) && e1.Tuple == ssa.Value(next) && e0.Index == 0 {
				continue
			}
			okNil = false
			bad = w.InstrPos(r)
		}
	}
	c.Check(okNil, "no-partial-set", "every failing exit returns a nil slice", site, "a failing exit returns certificates: "+bad)
	c.MinCount("", 20, "trust store obligations")
}

// c13Root: the root check requires a self-signature and equal subject/issuer.
func c13Root(c *Ctx, fn *ssa.Function) {
	w := c.W
	c.SeenFn(fn.String())
	s := w.Summarize(fn, Mode{Kind: mErr})
	p := "param:" + fn.Params[0].Name()
	c.requireOnExits("root-check", fn, s.Exits, []Need{
		{Name: "self-signed", What: "cert.CheckSignatureFrom(cert) err == nil", Subs: []string{"EQ(call:(*crypto/x509.Certificate).CheckSignatureFrom(" + p + "," + p + ")#err,nil)"}},
		{Name: "subject-is-issuer", What: "RawSubject equals RawIssuer", Alt: [][]string{{"T(call:bytes.Equal(" + p + ".RawSubject," + p + ".RawIssuer))"}, {"T(call:bytes.Equal(" + p + ".RawIssuer," + p + ".RawSubject))"}}},
	})
}

// c13IsTypesMembership: g (one parameter, one boolean result) returns true only behind an equality of its parameter with an
// element of the package's Types table, and otherwise false.
func c13IsTypesMembership(w *World, g *ssa.Function) bool {
	if g.Signature.Results().Len() != 1 || !isBoolType(g.Signature.Results().At(0).Type()) {
		return false
	}
	fi := w.Info(g)
	pd := desc(g.Params[0])
	guarded := func(m map[string]string) bool {
		for l := range m {
			if strings.HasPrefix(l, "EQ(") && strings.Contains(l, pd) && strings.Contains(l, "global:ngo/verifier/truststore.Types[") {
				return true
			}
		}
		return false
	}
	sawTrue := false
	var judge func(v ssa.Value, facts map[string]string, depth int) bool
	judge = func(v ssa.Value, facts map[string]string, depth int) bool {
		if depth > 3 {
			return false
		}
		if b, ok := boolConst(v); ok {
			if !b {
				return true
			}
			sawTrue = true
			return guarded(facts)
		}
		if phi, ok := v.(*ssa.Phi); ok {
			for i, e := range phi.Edges {
				if !judge(e, c07Union(facts, c07PhiEdgeGuards(fi, phi, i)), depth+1) {
					return false
				}
			}
			return true
		}
		return false
	}
	for _, b := range g.Blocks {
		if r, ok := blockTerm(b).(*ssa.Return); ok {
			if len(r.Results) != 1 || !judge(r.Results[0], fi.GuardsOf(r), 0) {
				return false
			}
		}
	}
	return sawTrue
}
